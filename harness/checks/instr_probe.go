//go:build instr

package checks

import (
	"fmt"

	"github.com/ja7ad/otp"
	"github.com/ja7ad/otp/verifharness/ev"
	"github.com/ja7ad/otp/verifharness/irt"
)

func init() {
	register("PROBE", "other", func(r *ev.Run) {
		g0 := irt.Globals()
		tr := irt.Traced(func() { otp.ValidateHOTP("GEZDGNBVGY3TQOJQ", "123456", 5, nil) })
		fmt.Println("trace events:", len(tr), "digest", irt.Digest(true), irt.Digest(false))
		g1 := irt.Globals()
		fmt.Println("changed:", irt.DiffGlobals(g0, g1))
		for n := range g1 {
			fmt.Print(n, ":", irt.IsPoolVar(n), " ")
		}
		fmt.Println()
		st, ex := irt.Steps(1000, func() { otp.GenerateHOTP("GEZDGNBVGY3TQOJQ", 5, nil) })
		fmt.Println("steps", st, ex)
		r.Eval(1)
	})
}
