//go:build instr

package checks

import (
	"fmt"

	"github.com/ja7ad/otp"
	"github.com/ja7ad/otp/internal/verifrt/fakejs"
	"github.com/ja7ad/otp/internal/verifwasm"
	"github.com/ja7ad/otp/verifharness/ev"
	"github.com/ja7ad/otp/verifharness/irt"
)

func init() {
	register("PROBE", "other", func(r *ev.Run) {
		g0 := irt.Globals()
		tr := irt.Traced(func() { otp.ValidateHOTP("GEZDGNBVGY3TQOJQ", "123456", 5, nil) })
		fmt.Println("trace events:", len(tr), "digest", irt.Digest(true), irt.Digest(false))
		g1 := irt.Globals()
		fmt.Println("changed:", irt.DiffGlobals(g0, g1))
		for n := range g1 {
			fmt.Print(n, ":", irt.IsPoolVar(n), " ")
		}
		fmt.Println()
		st, ex := irt.Steps(1000, func() { otp.GenerateHOTP("GEZDGNBVGY3TQOJQ", 5, nil) })
		fmt.Println("steps", st, ex)
		verifwasm.VerifRegister()
		v, ok := fakejs.Call("generateHOTP", fakejs.Str("GEZDGNBVGY3TQOJQGEZDGNBVGY3TQOJQ"), fakejs.Num(1), fakejs.Str("6"), fakejs.Str("SHA1"))
		fmt.Println("wasm-native generateHOTP:", v.String(), ok, fakejs.Names())
		tr = irt.Traced(func() {
			fakejs.Call("validateHOTP", fakejs.Str("GEZDGNBVGY3TQOJQGEZDGNBVGY3TQOJQ"), fakejs.Str("287082"), fakejs.Num(0), fakejs.Str("6"), fakejs.Str("SHA1"), fakejs.Num(2))
		})
		fmt.Println("wasm-native validate trace:", len(tr))
		r.Eval(1)
	})
}
