//go:build instr

package checks

import (
	"crypto/rand"
	"fmt"
	"net/url"
	"sort"
	"strings"
	"time"

	"github.com/ja7ad/otp"
	"github.com/ja7ad/otp/verifharness/ev"
	"github.com/ja7ad/otp/verifharness/irt"
	"github.com/ja7ad/otp/verifharness/ref"
)

// hop is one operation of the history/interleaving alphabet: it runs against the real
// library and knows the stateless reference answer.
type hop struct {
	name string
	run  func() (obs string, retained []string)
	want string
}

var hopKey = []byte("12345678901234567890")
var hopSec = ref.B32Encode(hopKey)

func longShape() shape {
	return shape{Text: "OCRA-1:HOTP-SHA512-8:C-QH10-PSHA1-S128-T1M", Hash: 2, Digits: 8, C: true, Q: true, P: true, S: true, T: true, QF: 6, PH: 1, TS: 60}
}
func shortShape() shape {
	return shape{Text: "OCRA-1:HOTP-SHA1-6:QN08", Hash: 0, Digits: 6, Q: true, QF: 1}
}

func sortedSuites() string {
	l := otp.ListSuites()
	sort.Strings(l)
	return fmt.Sprintf("%d:%016x", len(l), ev.H(strings.Join(l, "|")))
}

// registrySuites is the reference answer of ListSuites, read from the registry through the
// verif hook (NOT through ListSuites: building the references must not warm up the library).
func registrySuites() string {
	var l []string
	for n := range otp.VerifKnownSuites() {
		l = append(l, n)
	}
	sort.Strings(l)
	return fmt.Sprintf("%d:%016x", len(l), ev.H(strings.Join(l, "|")))
}

// buildOps constructs the alphabet; reference answers are computed once, up front, by the
// reference models (never by the library).
func buildOps() []hop {
	var ops []hop
	ss0 := shortShape()
	gen := func(name string, c uint64, d, a int) {
		ops = append(ops, hop{name, func() (string, []string) {
			s, err := otp.GenerateHOTP(hopSec, c, &otp.Param{Digits: otp.Digits(d), Algorithm: otp.Algorithm(a)})
			return s + "|" + errStr(err), []string{s}
		}, ref.HOTP(hopKey, c, d, a) + "|<nil>"})
	}
	// keys LONGER than the hash block (HMAC replaces them by their digest first): two different ones per hash
	for i, spec := range []struct {
		name string
		n, a int
		fill byte
	}{{"hotp-longkey-sha1-a", 70, 0, 0x21}, {"hotp-longkey-sha1-b", 100, 0, 0x42}, {"hotp-longkey-sha512-a", 129, 2, 0x33}, {"hotp-longkey-sha512-b", 200, 2, 0x55}} {
		key := patt(spec.n, spec.fill)
		sec := ref.B32Encode(key)
		c, d, a := uint64(7+i), 6+i%3, spec.a
		ops = append(ops, hop{spec.name, func() (string, []string) {
			s, err := otp.GenerateHOTP(sec, c, &otp.Param{Digits: otp.Digits(d), Algorithm: otp.Algorithm(a)})
			return s + "|" + errStr(err), []string{s}
		}, ref.HOTP(key, c, d, a) + "|<nil>"})
	}
	gen("hotp-c1", 1, 6, 0)
	gen("hotp-c2^40-sha256-8", 1<<40, 8, 1)
	gen("hotp-10digits", 7, 10, 2)
	gen("hotp-1digit", 9, 1, 0)
	hit := ref.HOTP(hopKey, 4, 6, 0)
	ops = append(ops, hop{"hotp-validate-hit(-1)", func() (string, []string) {
		ok, err := otp.ValidateHOTP(hopSec, hit, 5, nil)
		return fmt.Sprint(ok, "|", errStr(err)), nil
	}, "true|<nil>"})
	miss := "000000"
	for inSet(miss, hotpWindow(hopKey, 5, 2, 6, 0)) {
		miss = "1" + miss[1:]
	}
	ops = append(ops, hop{"hotp-validate-miss", func() (string, []string) {
		ok, err := otp.ValidateHOTP(hopSec, miss, 5, nil)
		return fmt.Sprint(ok, "|", err != nil), nil
	}, "false|true"})
	ops = append(ops, hop{"totp-gen", func() (string, []string) {
		s, err := otp.GenerateTOTP(hopSec, time.Unix(59, 0), &otp.Param{Digits: 8, Algorithm: otp.SHA1, Period: 30})
		return s + "|" + errStr(err), []string{s}
	}, ref.HOTP(hopKey, 1, 8, 0) + "|<nil>"})
	ops = append(ops, hop{"totp-gen-sha512-6-p60", func() (string, []string) {
		s, err := otp.GenerateTOTP(hopSec, time.Unix(1111111109, 0), &otp.Param{Digits: 6, Algorithm: otp.SHA512, Period: 60})
		return s + "|" + errStr(err), []string{s}
	}, ref.HOTP(hopKey, ref.Step(1111111109, 60), 6, 2) + "|<nil>"})
	ops = append(ops, hop{"totp-validate-hit", func() (string, []string) {
		ok, err := otp.ValidateTOTP(hopSec, ref.HOTP(hopKey, 2, 6, 1), time.Unix(59, 0), &otp.Param{Digits: 6, Algorithm: otp.SHA256, Period: 30, Skew: 1})
		return fmt.Sprint(ok, "|", errStr(err)), nil
	}, "true|<nil>"})
	// validations accepted at a DISTANCE inside a wide window, and validations of the very same distant codes under a
	// narrower window (verdict false): whatever an accepted validation remembers (a drift hint, the last matching
	// counter) must not widen a later, narrower window
	for _, d := range []int64{3, -2} {
		d := d
		wide := uint(3)
		tcode := ref.HOTP(hopKey, uint64(int64(ref.Step(1111111109, 30))+d), 6, 0)
		ops = append(ops, hop{fmt.Sprintf("totp-validate-hit(%+d)-skew3", d), func() (string, []string) {
			ok, err := otp.ValidateTOTP(hopSec, tcode, time.Unix(1111111109, 0), &otp.Param{Digits: 6, Period: 30, Skew: wide})
			return fmt.Sprint(ok, "|", errStr(err)), nil
		}, "true|<nil>"})
		ops = append(ops, hop{fmt.Sprintf("totp-validate-miss(%+d)-skew1", d), func() (string, []string) {
			ok, err := otp.ValidateTOTP(hopSec, tcode, time.Unix(1111111109, 0), &otp.Param{Digits: 6, Period: 30, Skew: 1})
			return fmt.Sprint(ok, "|", err != nil), nil
		}, "false|true"})
		hcode := ref.HOTP(hopKey, uint64(50+d), 6, 0)
		ops = append(ops, hop{fmt.Sprintf("hotp-validate-hit(%+d)-skew3", d), func() (string, []string) {
			ok, err := otp.ValidateHOTP(hopSec, hcode, 50, &otp.Param{Digits: 6, Skew: wide})
			return fmt.Sprint(ok, "|", errStr(err)), nil
		}, "true|<nil>"})
		ops = append(ops, hop{fmt.Sprintf("hotp-validate-miss(%+d)-skew1", d), func() (string, []string) {
			ok, err := otp.ValidateHOTP(hopSec, hcode, 50, &otp.Param{Digits: 6, Skew: 1})
			return fmt.Sprint(ok, "|", err != nil), nil
		}, "false|true"})
	}
	// REFUSED calls of every family (each leaves through an early return of its own): what an early exit hands back
	// to a pool, or leaves half-done, meets the calls that follow
	ops = append(ops, hop{"refused-calls", func() (string, []string) {
		_, e1 := otp.ValidateTOTP(hopSec, "123456", time.Unix(59, 0), &otp.Param{Digits: 6, Skew: 11, Period: 30})
		_, e2 := otp.ValidateHOTP(hopSec, "123456", 5, &otp.Param{Digits: 6, Skew: 11})
		_, e3 := otp.GenerateTOTP(hopSec, time.Unix(59, 0), &otp.Param{Digits: 11, Period: 30})
		_, e4 := otp.GenerateHOTP("not base32!", 1, nil)
		_, e5 := otp.ValidateTOTP(hopSec, "12345", time.Unix(59, 0), nil)
		_, e6 := otp.GenerateTOTP(hopSec, time.Unix(59, 0), &otp.Param{Digits: 6, Algorithm: otp.Algorithm(9), Period: 30})
		_, e7 := otp.ValidateOCRA(hopSec, "1", ss0.lib(), otp.OCRAInput{})
		return fmt.Sprint(e1 != nil, e2 != nil, e3 != nil, e4 != nil, e5 != nil, e6 != nil, e7 != nil), nil
	}, fmt.Sprint(true, true, true, true, true, true, true)})
	// refused OCRA calls whose error TEXT is the observation: two refusals of the same kind with different numbers in
	// them (what overlapping refusals share - an error template, a formatting buffer - shows as the other call's numbers).
	// The reference here is the text the very same call returns when it is made alone, before any exploration starts.
	refusedOCRA := func(name, suite string, in otp.OCRAInput) {
		call := func() (string, []string) {
			su, _ := otp.NewRawSuite(suite)
			_, e1 := otp.GenerateOCRA(hopSec, su, in)
			_, e2 := otp.ValidateOCRA(hopSec, "123456", su, in)
			return errStr(e1) + "|" + errStr(e2), nil
		}
		alone, _ := call()
		ops = append(ops, hop{name, call, alone})
	}
	refusedOCRA("ocra-refused-short-2-of-8", "OCRA-1:HOTP-SHA1-6:QN08", otp.OCRAInput{Challenge: []byte{1, 2}})
	refusedOCRA("ocra-refused-short-7-of-10", "OCRA-1:HOTP-SHA1-6:QN10", otp.OCRAInput{Challenge: []byte{1, 2, 3, 4, 5, 6, 7}})
	refusedOCRA("ocra-refused-long-200", "OCRA-1:HOTP-SHA256-8:QA08", otp.OCRAInput{Challenge: make([]byte, 200)})
	refusedOCRA("ocra-refused-long-129", "OCRA-1:HOTP-SHA256-8:QA08", otp.OCRAInput{Challenge: make([]byte, 129)})
	refusedOCRA("ocra-refused-counter-3", "OCRA-1:HOTP-SHA1-6:C-QN08", otp.OCRAInput{Challenge: []byte("12345678"), Counter: []byte{1, 2, 3}})
	refusedOCRA("ocra-refused-counter-9", "OCRA-1:HOTP-SHA1-6:C-QN08", otp.OCRAInput{Challenge: []byte("12345678"), Counter: make([]byte, 9)})
	ss, ls := shortShape(), longShape()
	sin, lin := admissible(ss, 0), admissible(ls, 4)
	// composite operations: dozens of calls in a row on one thread, for the scenarios in which ONE other call is paused
	// at each of its statements meanwhile (whatever is handed round - ring slots, sequence numbers, cache entries -
	// comes round again while the paused call still relies on it)
	{
		var want []string
		for k := 0; k < 90; k++ {
			want = append(want, ref.HOTP(hopKey, uint64(1000+k), 6+k%3, k%3))
		}
		ops = append(ops, hop{"many-hotp-90", func() (string, []string) {
			var got []string
			for k := 0; k < 90; k++ {
				c, err := otp.GenerateHOTP(hopSec, uint64(1000+k), &otp.Param{Digits: otp.Digits(6 + k%3), Algorithm: otp.Algorithm(k % 3)})
				if err != nil {
					c += "!" + errStr(err)
				}
				got = append(got, c)
			}
			return strings.Join(got, ","), got[:3]
		}, strings.Join(want, ",")})
		tmiss := "000000"
		for n := 1; inSet(tmiss, hotpWindow(hopKey, ref.Step(1111111109, 30), 10, 6, 0)); n++ {
			tmiss = fmt.Sprintf("%06d", n)
		}
		ops = append(ops, hop{"many-totp-validate-miss-x5", func() (string, []string) {
			out := ""
			for k := 0; k < 5; k++ {
				ok, err := otp.ValidateTOTP(hopSec, tmiss, time.Unix(1111111109, 0), &otp.Param{Digits: 6, Period: 30, Skew: 10})
				out += fmt.Sprint(ok, "|", err != nil, ";")
			}
			return out, nil
		}, strings.Repeat("false|true;", 5)})
		var owant []string
		var oins []oin
		for k := 0; k < 70; k++ {
			in := admissible(ss, k)
			oins = append(oins, in)
			owant = append(owant, ref.OCRA(hopKey, ss.ref(), in.ref()))
		}
		ops = append(ops, hop{"many-ocra-70", func() (string, []string) {
			var got []string
			for k := 0; k < 70; k++ {
				c, err := otp.GenerateOCRA(hopSec, ss.lib(), oins[k].lib())
				if err != nil {
					c += "!" + errStr(err)
				}
				got = append(got, c)
			}
			return strings.Join(got, ","), got[:3]
		}, strings.Join(owant, ",")})
	}
	ops = append(ops, hop{"ocra-short", func() (string, []string) {
		s, err := otp.GenerateOCRA(hopSec, ss.lib(), sin.lib())
		return s + "|" + errStr(err), []string{s}
	}, ref.OCRA(hopKey, ss.ref(), sin.ref()) + "|<nil>"})
	// suites whose text is a proper EXTENSION of the short suite's text (and the short one a proper prefix of theirs):
	// whatever an earlier call leaves behind keyed or recognised by the suite text must not be taken for the other's
	for _, x := range []struct {
		name string
		sh   shape
	}{
		{"ocra-short-ext-P", shape{Text: "OCRA-1:HOTP-SHA1-6:QN08-PSHA1", Hash: 0, Digits: 6, Q: true, QF: 1, P: true, PH: 1}},
		{"ocra-short-ext-T", shape{Text: "OCRA-1:HOTP-SHA1-6:QN08-T1M", Hash: 0, Digits: 6, Q: true, QF: 1, T: true, TS: 60}},
	} {
		x := x
		xin := admissible(x.sh, 0)
		ops = append(ops, hop{x.name, func() (string, []string) {
			s, err := otp.GenerateOCRA(hopSec, x.sh.lib(), xin.lib())
			return s + "|" + errStr(err), []string{s}
		}, ref.OCRA(hopKey, x.sh.ref(), xin.ref()) + "|<nil>"})
	}
	ops = append(ops, hop{"ocra-long", func() (string, []string) {
		s, err := otp.GenerateOCRA(hopSec, ls.lib(), lin.lib())
		return s + "|" + errStr(err), []string{s}
	}, ref.OCRA(hopKey, ls.ref(), lin.ref()) + "|<nil>"})
	// callers that keep their fields next to one another in ONE buffer (a received packet, an arena shared by
	// goroutines): each operation writes its own 8-byte challenge into its own window of the shared arena, then passes
	// that window WITHOUT a capacity limit.  Whatever the library writes behind the length lands in a neighbour's window.
	for w := 0; w < 3; w++ {
		w := w
		mine := []byte(fmt.Sprintf("chal-%d!!", w))[:8]
		ops = append(ops, hop{fmt.Sprintf("ocra-arena-%d", w), func() (string, []string) {
			copy(sharedArena[8*w:], mine)
			ch := sharedArena[8*w : 8*w+8] // capacity reaches to the end of the arena
			s, err := otp.GenerateOCRA(hopSec, ss.lib(), otp.OCRAInput{Challenge: ch})
			if string(sharedArena[8*w:8*w+8]) != string(mine) {
				return "caller's window of the shared buffer changed during the call", nil
			}
			return s + "|" + errStr(err), []string{s}
		}, ref.OCRA(hopKey, ss.ref(), ref.OCRAIn{Challenge: mine}) + "|<nil>"})
	}
	lin2 := admissible(ls, 7)
	ops = append(ops, hop{"ocra-long-2", func() (string, []string) {
		s, err := otp.GenerateOCRA(hopSec, ls.lib(), lin2.lib())
		return s + "|" + errStr(err), []string{s}
	}, ref.OCRA(hopKey, ls.ref(), lin2.ref()) + "|<nil>"})
	bad := lin
	bad.Counter = []byte{1, 2, 3}
	ops = append(ops, hop{"ocra-inadmissible", func() (string, []string) {
		s, err := otp.GenerateOCRA(hopSec, ls.lib(), bad.lib())
		return s + "|" + fmt.Sprint(err != nil), nil
	}, "|true"})
	ocode := ref.OCRA(hopKey, ss.ref(), sin.ref())
	ops = append(ops, hop{"ocra-validate-hit", func() (string, []string) {
		ok, err := otp.ValidateOCRA(hopSec, ocode, ss.lib(), sin.lib())
		return fmt.Sprint(ok, "|", errStr(err)), nil
	}, "true|<nil>"})
	omiss := "9" + ocode[1:]
	if omiss == ocode {
		omiss = "8" + ocode[1:]
	}
	ops = append(ops, hop{"ocra-validate-miss", func() (string, []string) {
		ok, err := otp.ValidateOCRA(hopSec, omiss, ss.lib(), sin.lib())
		return fmt.Sprint(ok, "|", err != nil), nil
	}, "false|true"})
	suiteObs := func(name string) func() (string, []string) {
		return func() (string, []string) {
			su, err := otp.NewRawSuite(name)
			if err != nil {
				return "error", nil
			}
			return shapeOfLib(su.Config()).sig() + "|" + su.String(), []string{su.String()}
		}
	}
	for _, n := range []string{"OCRA-1:HOTP-SHA256-8:C-QA10-PSHA256-S-T1", "OCRA-1:HOTP-SHA256-7:QN10-T5M"} {
		rs, _ := ref.ParseSuite(n)
		ops = append(ops, hop{"suite " + n, suiteObs(n), shapeOfRef(rs).sig() + "|" + n})
	}
	ops = append(ops, hop{"suite malformed", suiteObs("OCRA-2:HOTP-SHA1-6:QN08"), "error"})
	// many distinct parsable, unregistered suite strings: anything that remembers parsed suites gets churned
	for k := 1; k <= 44; k++ {
		n := fmt.Sprintf("OCRA-1:HOTP-SHA%d-%d:QN%s-T%dS", []int{1, 256, 512}[k%3], 4+k%7, []string{"08", "10"}[k%2], k)
		rs, _ := ref.ParseSuite(n)
		ops = append(ops, hop{fmt.Sprintf("suite-parse-%d", k), suiteObs(n), shapeOfRef(rs).sig() + "|" + n})
	}
	ops = append(ops, hop{"list-suites", func() (string, []string) { return sortedSuites(), nil }, registrySuites()})
	// the rest of the API: anything lazily built, cached or shared in these functions is state too
	urlOp := func(name, kind string, up otp.URLParam) {
		ops = append(ops, hop{name, func() (string, []string) {
			var u *url.URL
			var err error
			if kind == "totp" {
				u, err = otp.GenerateTOTPURL(up)
			} else {
				u, err = otp.GenerateHOTPURL(up)
			}
			if err != nil {
				return "err", nil
			}
			back, err := otp.ParseOTPAuthURL(u)
			if err != nil {
				return "parse-err", nil
			}
			return fmt.Sprintf("%s|%s|%s|%d|%d|%d", back.Issuer, back.AccountName, back.Secret, back.Digits, back.Algorithm, back.Period), []string{back.Issuer, back.AccountName, u.String()}
		}, fmt.Sprintf("%s|%s|%s|%d|%d|%d", up.Issuer, up.AccountName, up.Secret, up.Digits, up.Algorithm, map[string]uint{"totp": up.Period, "hotp": 30}[kind])})
	}
	urlOp("url-totp", "totp", otp.URLParam{Issuer: "My Company", AccountName: "alice+x@example.com", Secret: hopSec, Digits: 8, Algorithm: otp.SHA256, Period: 60})
	urlOp("url-hotp", "hotp", otp.URLParam{Issuer: "a/b", AccountName: "bob smith", Secret: "JBSWY3DPEHPK3PXP", Digits: 6, Algorithm: otp.SHA512})
	urlOp("url-totp-2", "totp", otp.URLParam{Issuer: "Other & Co", AccountName: "carol", Secret: "JBSWY3DPEHPK3PXP", Digits: 6, Algorithm: otp.SHA1, Period: 45})
	urlOp("url-hotp-2", "hotp", otp.URLParam{Issuer: "Third", AccountName: "dave@x", Secret: hopSec, Digits: 8, Algorithm: otp.SHA256})
	for i, sp := range []string{hopSec, strings.ToLower(hopSec), " " + ref.B32Encode([]byte("another key 12345")) + "\n"} {
		want, _ := ref.B32Classify(sp)
		_ = want
		_, wb := ref.B32Classify(sp)
		sp := sp
		ops = append(ops, hop{fmt.Sprintf("decode-secret-%d", i), func() (string, []string) {
			b, err := otp.DecodeSecret(sp)
			return fmt.Sprintf("%x|%s", b, errStr(err)), nil
		}, fmt.Sprintf("%x|<nil>", wb)})
	}
	// a caller that decodes the very secret the other operations use and then WIPES what it was given (key hygiene):
	// the bytes are the caller's, nothing the library keeps may alias them
	ops = append(ops, hop{"decode-and-wipe", func() (string, []string) {
		b, err := otp.DecodeSecret(hopSec)
		obs := fmt.Sprintf("%x|%s", b, errStr(err))
		for i := range b {
			b[i] = 0
		}
		return obs, nil
	}, fmt.Sprintf("%x|<nil>", hopKey)})
	ops = append(ops, hop{"decode-secret-bad", func() (string, []string) {
		_, err := otp.DecodeSecret("MZXW6YTB0")
		return fmt.Sprint(err != nil), nil
	}, "true"})
	for _, a := range []int{0, 2} {
		a := a
		ops = append(ops, hop{fmt.Sprintf("random-secret-%d", a), func() (string, []string) {
			s, err := otp.RandomSecret(otp.Algorithm(a))
			b, derr := otp.DecodeSecret(s)
			return fmt.Sprint(len(s), len(b), err, derr, s == strings.ToUpper(s)), []string{s}
		}, fmt.Sprint([]int{32, 0, 103}[a], []int{20, 0, 64}[a], nil, nil, true)})
	}
	// RandomSecret on the harness's position-coded stream: the secret must decode to one contiguous chunk of the
	// stream of exactly the right length, and no stream byte may be handed out twice within one execution
	for _, a := range []int{0, 2} {
		a := a
		ops = append(ops, hop{fmt.Sprintf("random-stream-%d", a), func() (string, []string) {
			s, err := otp.RandomSecret(otp.Algorithm(a))
			if err != nil {
				return "error: " + errText(err), nil
			}
			return posStream.claim(s, []int{20, 32, 64}[a]), []string{s}
		}, "ok"})
	}
	ops = append(ops, hop{"random-refused", func() (string, []string) {
		var bad []string
		for _, a := range []int{3, 4, 99, 255} {
			if s, err := otp.RandomSecret(otp.Algorithm(a)); err == nil || s != "" {
				bad = append(bad, fmt.Sprint(a))
			}
		}
		return fmt.Sprint(bad), nil
	}, "[]"})
	// strings the parser must REFUSE although each is one edit away from a string another operation has had parsed
	// (suite-parse-k) or from a registered name: a memo keyed on a folded or trimmed form would answer for them
	ops = append(ops, hop{"suite-lookalikes-refused", func() (string, []string) {
		var accepted []string
		for k := 1; k <= 44; k += 7 {
			n := fmt.Sprintf("OCRA-1:HOTP-SHA%d-%d:QN%s-T%dS", []int{1, 256, 512}[k%3], 4+k%7, []string{"08", "10"}[k%2], k)
			for _, bad := range []string{strings.TrimSuffix(n, "S") + "s", n + " ", " " + n, n + "-", strings.Replace(n, "SHA", "\u017fHA", 1), strings.Replace(n, ":QN", ":QN0", 1), strings.Replace(n, "-T", "-T+", 1), strings.Replace(n, "OCRA-1", "OCRA-01", 1), n + "\x00"} {
				if _, err := otp.NewRawSuite(bad); err == nil {
					accepted = append(accepted, bad)
				}
			}
		}
		for _, bad := range []string{"OCRA-1:HOTP-SHA1-6:QN08 ", "OCRA-1:HOTP-SHA256-8:C-QA10-PSHA256-S-T1\n", "OCRA-1:HOTP-SHA1-6:QN08-T1m", "OCRA-1:HOTP-\u017fHA1-6:QN08"} {
			if _, err := otp.NewRawSuite(bad); err == nil {
				accepted = append(accepted, bad)
			}
		}
		return fmt.Sprintf("%q", accepted), nil
	}, "[]"})
	q1, _ := ref.DecimalQuestion("12345678")
	q2, _ := ref.DecimalQuestion("99999999999999999999")
	ops = append(ops, hop{"helpers-a", func() (string, []string) {
		c, e1 := otp.ParseDecimalChallengeRFC6287("12345678")
		t, e2 := otp.ParseHexTimestamp("132d0b6")
		h, e3 := otp.HexInputToOCRA("0000000000000001", "3132333435363738", "", "abcd", "")
		return fmt.Sprintf("%x|%x|%x%x%x|%v%v%v|%s", c, t, h.Counter, h.Challenge, h.SessionInfo, e1, e2, e3, otp.LeftPadHex("abc", 8)), nil
	}, fmt.Sprintf("%x|%x|%x%x%x|%v%v%v|%s", q1, be8(0x132d0b6), be8(1), []byte("12345678"), []byte{0xab, 0xcd}, nil, nil, nil, "00000abc")})
	ops = append(ops, hop{"helpers-b", func() (string, []string) {
		c, e1 := otp.ParseDecimalChallengeRFC6287("99999999999999999999")
		d, e2 := otp.ParseDecimalToBigEndian8("18446744073709551615")
		_, e3 := otp.ParseDecimal64BigEndian("18446744073709551616")
		return fmt.Sprintf("%x|%x|%v%v%v|%x", c, d, e1, e2, e3 != nil, otp.To8ByteBigEndian(1<<40)), nil
	}, fmt.Sprintf("%x|%x|%v%v%v|%x", q2, be8(^uint64(0)), nil, nil, true, be8(1<<40))})
	// helper calls that are REFUSED (each for another reason), followed in histories by accepted ones of fewer
	// digits: whatever a refusal leaves in scratch memory must not reach a later answer
	q0, _ := ref.DecimalQuestion("0")
	ops = append(ops, hop{"helpers-refused", func() (string, []string) {
		_, e1 := otp.ParseDecimalChallengeRFC6287("-123456789")
		_, e2 := otp.ParseDecimalChallengeRFC6287("12x4")
		_, e3 := otp.ParseDecimalChallengeRFC6287(strings.Repeat("9", 400))
		_, e4 := otp.ParseHexTimestamp("zz")
		_, e5 := otp.ParseDecimalToBigEndian8("-1")
		_, e6 := otp.HexInputToOCRA("zz", "3132", "", "", "")
		return fmt.Sprint(e1 != nil, e2 != nil, e3 != nil, e4 != nil, e5 != nil, e6 != nil), nil
	}, fmt.Sprint(true, true, true, true, true, true)})
	ops = append(ops, hop{"helpers-short", func() (string, []string) {
		c, e1 := otp.ParseDecimalChallengeRFC6287("0")
		t, e2 := otp.ParseHexTimestamp("1")
		d, e3 := otp.ParseDecimalToBigEndian8("7")
		return fmt.Sprintf("%x|%x|%x|%v%v%v", c, t, d, e1, e2, e3), nil
	}, fmt.Sprintf("%x|%x|%x|%v%v%v", q0, be8(1), be8(7), nil, nil, nil)})
	return ops
}

// adversary operations on the pools (they have no reference answer: they return nothing).
func advOps() []hop {
	return []hop{
		{"adversary-4226", func() (string, []string) {
			p, _ := otp.VerifPools()
			b := p.Get().(*[8]byte)
			for i := range b {
				b[i] = 0xA5
			}
			p.Put(b)
			return "", nil
		}, ""},
		{"adversary-6287", func() (string, []string) {
			_, p := otp.VerifPools()
			b := p.Get().(*[]byte)
			*b = (*b)[:cap(*b)]
			for i := range *b {
				(*b)[i] = 0xA5
			}
			p.Put(b)
			return "", nil
		}, ""},
		{"gc", func() (string, []string) { irt.ResetPools(); return "", nil }, ""},
	}
}

// retained remembers a returned string together with a private copy of its bytes.
type retained struct {
	s     string
	clone string
	from  string
}

func retain(list *[]retained, from string, ss []string) {
	for _, s := range ss {
		*list = append(*list, retained{s, strings.Clone(s), from})
	}
}

func retainedChanged(list []retained) string {
	for _, r := range list {
		if r.s != r.clone {
			return fmt.Sprintf("string returned by %s changed after it was returned: was %q, now %q", r.from, r.clone, r.s)
		}
	}
	return ""
}

// posReader is a random source whose byte at position i is a bijective function of i mod 256, so that the
// position of every delivered byte can be read off a secret (an execution consumes fewer than 256 bytes).
type posReader struct {
	off     int
	claimed [256]bool
}

var posStream = &posReader{}

func posByte(i int) byte { return byte(i*131 + 89) }

func (r *posReader) Read(p []byte) (int, error) {
	for i := range p {
		p[i] = posByte(r.off + i)
	}
	r.off += len(p)
	return len(p), nil
}

func (r *posReader) reset() { *r = posReader{} }

// install makes the stream the process's cryptographic random source (crypto/rand.Reader).
func (r *posReader) install() { rand.Reader = r }

func (r *posReader) claim(secret string, n int) string {
	v, b := ref.B32Classify(secret)
	if v != ref.MustAccept || secret != ref.B32Encode(b) {
		return "bad: not canonical unpadded upper-case base32: " + secret
	}
	if len(b) != n {
		return fmt.Sprintf("bad: %d bytes, want %d", len(b), n)
	}
	p := -1
	for i := 0; i < 256; i++ {
		if posByte(i) == b[0] {
			p = i
		}
	}
	for i := range b {
		if b[i] != posByte(p+i) {
			return fmt.Sprintf("bad: byte %d of the secret (%#x) is not the stream byte that follows its first byte (stream position %d): not an unmodified chunk of the random source", i, b[i], p+i)
		}
	}
	if p+n > r.off {
		return fmt.Sprintf("bad: the secret holds stream positions %d..%d but only %d bytes were delivered", p, p+n-1, r.off)
	}
	for i := p; i < p+n; i++ {
		if r.claimed[i%256] {
			return fmt.Sprintf("bad: stream byte %d was handed out in two secrets", i)
		}
		r.claimed[i%256] = true
	}
	return "ok"
}

// sharedArena is caller memory shared by the ocra-arena operations (three adjacent 8-byte windows, then spare room).
var sharedArena = make([]byte, 512)
