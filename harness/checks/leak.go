package checks

import (
	"encoding/hex"
	"strings"

	"github.com/ja7ad/otp/verifharness/ref"
)

// leaks reports which secret-derived text an error message contains ("" if none):
// the base32 secret (any case, with or without padding, >= 8 symbols), the raw key bytes
// (>= 4 bytes), their hex, or a code of >= 6 digits that would have been accepted.
func leaks(msg, secretText string, key []byte, accepted []string) string {
	low := strings.ToLower(msg)
	st := strings.ToLower(strings.TrimRight(strings.TrimSpace(secretText), "="))
	if len(st) >= 8 && strings.Contains(low, st) {
		return "the base32 secret"
	}
	if len(key) >= 5 {
		canon := strings.ToLower(ref.B32Encode(key))
		if len(canon) >= 8 && strings.Contains(low, canon) {
			return "the base32 secret"
		}
	}
	if len(key) >= 4 {
		if strings.Contains(msg, string(key)) {
			return "the raw key bytes"
		}
		if strings.Contains(low, hex.EncodeToString(key)) {
			return "the key in hex"
		}
	}
	for _, c := range accepted {
		if len(c) >= 6 && strings.Contains(msg, c) {
			return "a code that would have been accepted (" + c + ")"
		}
	}
	return ""
}
