package checks

import (
	"fmt"
	"sort"
	"strings"
	"time"

	"github.com/ja7ad/otp"
	"github.com/ja7ad/otp/verifharness/ev"
	"github.com/ja7ad/otp/verifharness/ref"
)

func init() { register("C06", "exploration", func(r *ev.Run) { c06(r, false) }) }

type c06Case struct {
	Via    string `json:"via"`
	Shape  shape  `json:"shape"`
	Secret string `json:"secret"`
	In     oin    `json:"input"`
	Code   string `json:"code"`
}

// ocraVal: ValidateOCRA(x) must equal (x == GenerateOCRA(...)); if generation fails,
// validation must return (false, error).
func ocraVal(c c06Case, pairMode bool) (obs, bad string) {
	var gen string
	var gerr, verr, serr error
	var ok bool
	p := try(func() {
		var su otp.Suite
		su, serr = mkSuite(c.Via, c.Shape)
		if serr != nil {
			return
		}
		gen, gerr = otp.GenerateOCRA(c.Secret, su, c.In.lib())
		ok, verr = otp.ValidateOCRA(c.Secret, c.Code, su, c.In.lib())
	})
	if p != "" {
		return "panic:" + p, "panicked: " + p
	}
	if serr != nil {
		return "nosuite|" + errStr(serr), ""
	}
	obs = fmt.Sprint(ok, "|", errStr(verr), "|gen:", gen, "|", errStr(gerr))
	if pairMode {
		if ps := pairShape(ok, verr); ps != "" {
			return obs, "ambiguous verdict " + ps
		}
		_, key := ref.B32Classify(c.Secret)
		for _, e := range []error{verr, gerr} {
			if e != nil {
				if l := leaks(errText(e), c.Secret, key, []string{gen}); l != "" {
					return obs, "error text discloses " + l
				}
			}
		}
		return obs, ""
	}
	if gerr != nil {
		if ok || verr == nil {
			return obs, "generation fails, so validation must return (false, error)"
		}
		return obs, ""
	}
	if ok != (c.Code == gen) {
		return obs, fmt.Sprintf("want %v", c.Code == gen)
	}
	return obs, ""
}

type c06Bad struct {
	Family string `json:"family"` // ocra | hotp | totp
	Secret string `json:"secret"` // undecodable
	Code   string `json:"code"`   // the code under the key of a decodable PREFIX of that text
}

// badSecretRepeated: a validation with an undecodable secret is refused with (false, error) - the first time and
// every time after (a decoder hands back the bytes of the decodable prefix together with its error; whoever
// keeps them makes the second attempt succeed)
func badSecretRepeated(c c06Bad) (obs, bad string) {
	su, _ := otp.NewRawSuite("OCRA-1:HOTP-SHA1-6:QN08")
	in := otp.OCRAInput{Challenge: []byte("12345678")}
	for k := 0; k < 3; k++ {
		var ok bool
		var err error
		if p := try(func() {
			switch c.Family {
			case "ocra":
				ok, err = otp.ValidateOCRA(c.Secret, c.Code, su, in)
			case "hotp":
				ok, err = otp.ValidateHOTP(c.Secret, c.Code, 5, &otp.Param{Digits: 6, Skew: 1})
			default:
				ok, err = otp.ValidateTOTP(c.Secret, c.Code, time.Unix(59, 0), &otp.Param{Digits: 6, Period: 30, Skew: 1})
			}
		}); p != "" {
			return obs + "panic:" + p, "panicked: " + p
		}
		obs += fmt.Sprint(ok, "|", errStr(err), ";")
		if ok || err == nil {
			return obs, fmt.Sprintf("attempt %d with an undecodable secret must be (false, error)", k+1)
		}
	}
	return obs, ""
}

// ocraRetained: generate for input A, keep the returned string itself, validate it for a neighbouring input B
// (one byte of one selected field changed), generate for B, validate the kept string for A again.
func ocraRetained(c c06Case) (obs, bad string) {
	su, serr := mkSuite(c.Via, c.Shape)
	if serr != nil {
		return "nosuite", ""
	}
	a := c.In
	b := c.In
	bump := func(p []byte) []byte {
		q := append([]byte(nil), p...)
		q[len(q)-1] ^= 0x01
		return q
	}
	switch {
	case c.Shape.Q && len(a.Challenge) > 0:
		b.Challenge = bump(a.Challenge)
	case c.Shape.C && len(a.Counter) > 0:
		b.Counter = bump(a.Counter)
	default:
		return "no-neighbour", ""
	}
	var kept, keptText, genB string
	var okB, okA bool
	var e1, e2, e3, e4 error
	if p := try(func() {
		kept, e1 = otp.GenerateOCRA(c.Secret, su, a.lib())
		keptText = strings.Clone(kept)
		okB, e2 = otp.ValidateOCRA(c.Secret, kept, su, b.lib())
		genB, e3 = otp.GenerateOCRA(c.Secret, su, b.lib())
		genB = strings.Clone(genB)
		okA, e4 = otp.ValidateOCRA(c.Secret, kept, su, a.lib())
	}); p != "" {
		return "panic:" + p, "panicked: " + p
	}
	obs = fmt.Sprint(keptText, "|", kept, "|", okB, errStr(e2), "|", genB, "|", okA, errStr(e4))
	if e1 != nil || e3 != nil {
		return obs, "generation for an admissible input failed: " + errStr(e1) + errStr(e3)
	}
	if kept != keptText {
		return obs, fmt.Sprintf("the code returned for the first input changed after it was returned: %q -> %q", keptText, kept)
	}
	if okB != (keptText == genB) {
		return obs, fmt.Sprintf("the code of a neighbouring input was submitted as returned: verdict %v, want %v", okB, keptText == genB)
	}
	if !okA {
		return obs, "the retained code is refused for its own input"
	}
	return obs, ""
}

func c06(r *ev.Run, pairMode bool) {
	scen := "ocra-validate"
	r.Scenario(scen, func(raw []byte) (string, string) { return ocraVal(unjson[c06Case](raw), pairMode) })
	r.Scenario("ocra-validate-history", func(raw []byte) (string, string) {
		obs := ""
		for k, c := range unjson[[]c06Case](raw) {
			o, bad := ocraVal(c, pairMode)
			obs += o + ";"
			if bad != "" {
				return obs, fmt.Sprintf("step %d: %s", k, bad)
			}
		}
		return obs, ""
	})
	{
		var cs []c06Case
		for i, sh := range usableShapes([]int{60}) {
			x := sh
			x.Hash, x.Digits = i%3, 4+i%7
			x.Text = suiteTexts[i%len(suiteTexts)]
			in := junk(x, admissible(x, i), i)
			sec := ref.B32Encode(ocraKeys[i%len(ocraKeys)])
			want := ref.OCRA(ocraKeys[i%len(ocraKeys)], x.ref(), in.ref())
			wrong := []byte(want)
			wrong[len(wrong)-1] = '0' + (wrong[len(wrong)-1]-'0'+1)%10
			cs = append(cs, c06Case{"config", x, sec, in, want}, c06Case{"config", x, sec, in, string(wrong)}, c06Case{"config", x, sec, in, want + "0"})
		}
		afterWarmups(r, "ocra-validate-after-other-operations", cs, func(c c06Case) (string, string) { return ocraVal(c, pairMode) })
	}
	// retained codes: the string a generation RETURNED is submitted as it is (not a copy of its text) for a
	// neighbouring input, then for its own input - a code that shares memory with anything the library reuses would
	// change under the validator's own derivation and compare equal to whatever that derivation produces
	r.Scenario("ocra-validate-retained", func(raw []byte) (string, string) { return ocraRetained(unjson[c06Case](raw)) })
	r.Scenario("undecodable-secret-repeated", func(raw []byte) (string, string) { return badSecretRepeated(unjson[c06Bad](raw)) })
	if ReplayOnly {
		return
	}
	if !pairMode {
		var nb int64
		rs6, _ := ref.ParseSuite("OCRA-1:HOTP-SHA1-6:QN08")
		for _, key := range [][]byte{[]byte("12345678901234567890"), patt(10, 3), patt(33, 7)} {
			sp := ref.B32Encode(key)
			for _, b := range []string{sp + "!", sp + "0", sp + "=A", sp + "A=======B", sp[:8] + "!" + sp[8:], sp[:len(sp)-1] + "1", sp + "\u017f", sp + " x", "!" + sp} {
				if v, _ := ref.B32Classify(b); v != ref.MustReject {
					continue
				}
				// every decodable prefix of the text (8-symbol blocks and the whole valid part)
				for cut := 8; cut <= len(b); cut += 8 {
					v, pk := ref.B32Classify(b[:cut])
					if v != ref.MustAccept || len(pk) == 0 {
						continue
					}
					for _, fam := range []string{"ocra", "hotp", "totp"} {
						code := ref.HOTP(pk, 5, 6, 0)
						switch fam {
						case "ocra":
							code = ref.OCRA(pk, rs6, ref.OCRAIn{Challenge: []byte("12345678")})
						case "totp":
							code = ref.HOTP(pk, 1, 6, 0)
						}
						c := c06Bad{fam, b, code}
						obs, bad := badSecretRepeated(c)
						nb++
						if bad != "" {
							r.Fail("undecodable-secret-repeated", fmt.Sprintf("%s %q: %s", fam, b, bad), c, bad, obs)
						}
					}
				}
			}
		}
		r.Eval(nb)
		r.Set("undecodable_secret_repeated", nb)
		var n int64
		for i, sh := range usableShapes([]int{60}) {
			for k := 0; k < 3; k++ {
				x := sh
				x.Hash, x.Digits = (i+k)%3, 4+(i+2*k)%7
				x.Text = suiteTexts[(i+k)%len(suiteTexts)]
				c := c06Case{[]string{"config", "newsuite", "config"}[k], x, ref.B32Encode(ocraKeys[(i+k)%len(ocraKeys)]), junk(x, admissible(x, i+k), i), ""}
				obs, bad := ocraRetained(c)
				n++
				if bad != "" {
					r.Fail("ocra-validate-retained", fmt.Sprintf("%s: %s", x.sig(), bad), c, bad, obs)
				}
			}
		}
		r.Eval(n)
		r.Set("retained_code_cases", n)
	}
	// valid suites: reduced C05 grid
	var jobs []shape
	for i, sh := range usableShapes([]int{1, 60}) {
		for h := 0; h < 3; h++ {
			for d := 4; d <= 10; d++ {
				if !r.Thorough() && (i+h+d)%3 != 0 {
					continue
				}
				x := sh
				x.Hash, x.Digits = h, d
				x.Text = suiteTexts[(i+d)%len(suiteTexts)]
				jobs = append(jobs, x)
			}
		}
	}
	names := otp.ListSuites()
	sort.Strings(names)
	ev.Par(len(jobs)+len(names), func(i int) {
		var cur c06Case
		defer func() {
			// a panic of the library anywhere in this job is a finding, not a crash of the check
			if pv := recover(); pv != nil {
				r.Fail(scen, fmt.Sprintf("job %d via=%s %s: panicked: %v", i, cur.Via, cur.Shape.sig(), pv), cur, "no panic", fmt.Sprint(pv))
			}
		}()
		var sh shape
		via := "config"
		if i < len(jobs) {
			sh = jobs[i]
			via = []string{"config", "newsuite", "config-ptr", "newsuite-ptr"}[i%4]
		} else {
			rs, ok := ref.ParseSuite(names[i-len(jobs)])
			if !ok {
				return
			}
			sh = shapeOfRef(rs)
			via = []string{"raw", "raw-ptr"}[i%2]
		}
		key := ocraKeys[i%len(ocraKeys)]
		sec := spellings(key)[i%4]
		in := junk(sh, admissible(sh, i), i)
		cur = c06Case{via, sh, sec, in, "000000"}
		su, err := mkSuite(via, sh)
		if err != nil {
			r.Fail(scen, "suite-construction "+sh.sig(), sh, "a suite", errStr(err))
			return
		}
		gen, gerr := otp.GenerateOCRA(sec, su, in.lib())
		if gerr != nil {
			r.Fail(scen, "generation-failed "+sh.sig(), c06Case{via, sh, sec, in, ""}, "a code", errStr(gerr))
			return
		}
		// neighbours: codes for a neighbouring counter / challenge bit / timestamp / sibling suite
		var around []string
		nb := func(in2 oin, sh2 shape) {
			su2, e := mkSuite(via, sh2)
			if strings.HasPrefix(via, "raw") {
				su2, e = sh2.lib(), nil
			}
			if e == nil {
				if g, e := otp.GenerateOCRA(sec, su2, in2.lib()); e == nil {
					around = append(around, g)
				}
			}
		}
		around = append(around, gen)
		if sh.C {
			x := in
			x.Counter = append([]byte(nil), in.Counter...)
			x.Counter[7] ^= 1
			nb(x, sh)
		}
		if sh.Q {
			x := in
			x.Challenge = append([]byte(nil), in.Challenge...)
			x.Challenge[0] ^= 0x80
			nb(x, sh)
		}
		if sh.T {
			x := in
			x.Timestamp = append([]byte(nil), in.Timestamp...)
			x.Timestamp[7] ^= 1
			nb(x, sh)
		}
		sib := sh
		sib.Hash = (sh.Hash + 1) % 3
		nb(in, sib)
		sib = sh
		sib.Text += "!"
		nb(in, sib)
		var local int64
		subs := submissions(around, []string{gen}, sh.Digits)
		if sh.Digits <= 4 || (sh.Digits == 5 && r.Thorough()) {
			for v := 0; v < int(ref.Pow10(sh.Digits)); v++ {
				subs = append(subs, fmt.Sprintf("%0*d", sh.Digits, v))
			}
		}
		for _, code := range subs {
			c := c06Case{via, sh, sec, in, code}
			obs, bad := ocraVal(c, pairMode)
			local++
			if bad != "" {
				r.Fail(scen, "iff "+sh.sig()+" via="+via, c, bad, obs)
			}
			if len(subs) < 1000 {
				r.DistinctS(sh.sig() + code + obs)
			}
		}
		r.Eval(local)
	})
	// neighbouring-input histories: consecutive validations whose inputs differ in exactly one
	// field, or whose variable-length fields CONCATENATE identically (boundary moved between
	// challenge and session); a remembered result of the previous call must never answer this one
	var hn int64
	hist := func(sh shape, sec string, fam []oin) {
		su, err := mkSuite("config", sh)
		if err != nil {
			return
		}
		codes := make([]string, len(fam))
		for i, in := range fam {
			codes[i], _ = otp.GenerateOCRA(sec, su, in.lib())
		}
		for i := range fam {
			for j := range fam {
				steps := []c06Case{{"config", sh, sec, fam[i], codes[i]}, {"config", sh, sec, fam[j], codes[i]}, {"config", sh, sec, fam[j], codes[j]}, {"config", sh, sec, fam[i], codes[j]}}
				obs := ""
				for k, c := range steps {
					o, bad := ocraVal(c, pairMode)
					obs += o + ";"
					hn++
					if bad != "" {
						r.Fail("ocra-validate-history", fmt.Sprintf("step %d of a 4-step history, inputs %d then %d, %s: %s", k, i, j, sh.sig(), bad), steps[:k+1], "each validation judged on its own input", obs)
						break
					}
				}
			}
		}
	}
	for hi, sh := range []shape{
		{Text: "OCRA-1:HOTP-SHA1-6:QN08-S-T1", Hash: 0, Digits: 6, Q: true, S: true, T: true, QF: 1, TS: 1},
		{Text: "qs", Hash: 1, Digits: 8, Q: true, S: true, QF: 3},
		{Text: "OCRA-1:HOTP-SHA512-8:C-QH10-PSHA1-S128-T1M", Hash: 2, Digits: 8, C: true, Q: true, P: true, S: true, T: true, QF: 6, PH: 1, TS: 60},
		{Text: "", Hash: 0, Digits: 10, C: true, Q: true, QF: 2},
	} {
		base := admissible(sh, 3)
		base.Challenge = []byte("1234567890AB")
		if sh.S {
			base.Session = []byte("CDEF")
		}
		fam := []oin{base}
		alt := func(f func(in *oin)) {
			x := oin{clone(base.Counter), clone(base.Challenge), clone(base.Password), clone(base.Session), clone(base.Timestamp)}
			f(&x)
			fam = append(fam, x)
		}
		alt(func(in *oin) { in.Challenge[len(in.Challenge)-1] ^= 1 })
		if sh.S {
			alt(func(in *oin) { in.Challenge = append(in.Challenge, in.Session[:2]...); in.Session = in.Session[2:] }) // boundary moved right
			alt(func(in *oin) {
				in.Session = append(in.Challenge[len(in.Challenge)-2:], in.Session...)
				in.Challenge = in.Challenge[:len(in.Challenge)-2]
			}) // boundary moved left
			alt(func(in *oin) { in.Challenge = append(in.Challenge, in.Session...); in.Session = nil })
			alt(func(in *oin) { in.Session[0] ^= 0x80 })
		}
		if sh.C {
			alt(func(in *oin) { in.Counter[7]++ })
		}
		if sh.T {
			alt(func(in *oin) { in.Timestamp[7]++ })
		}
		if sh.P {
			alt(func(in *oin) { in.Password[0] ^= 1 })
		}
		for ki, key := range [][]byte{ocraKeys[1], ocraKeys[2]} {
			hist(sh, spellings(key)[(hi+ki)%3], fam)
		}
	}
	r.Eval(hn)
	r.Set("neighbouring_input_history_steps", hn)
	// failure causes: every way generation can fail => (false, error)
	var fn int64
	type fc struct {
		name string
		c    c06Case
	}
	var fcs []fc
	var good shape
	var goodIn oin
	sec := ref.B32Encode(ocraKeys[1])
	for d := 4; d <= 10; d++ {
		for h := 0; h < 3; h++ {
			good = shape{Text: "t", Hash: h, Digits: d, C: true, Q: true, P: true, S: true, T: true, QF: 1 + (d+h)%6, PH: 1 + (d+h)%3, TS: 60}
			goodIn = admissible(good, d+h)
			zero, plaus := ref.Format(0, d), ref.Format(123456789, d)
			for _, bs := range []string{"!!!!", "A", "ABC", "ABCDEF", "MZXW6YTB0", "ıııııııı", "MZ XW", "=", "A=======B"} {
				fcs = append(fcs, fc{"bad-secret", c06Case{"config", good, bs, goodIn, plaus}})
			}
			for _, m := range []func(s *shape){
				func(s *shape) { s.Digits = 3 }, func(s *shape) { s.Digits = 11 }, func(s *shape) { s.Digits = 0 }, func(s *shape) { s.Digits = -1 },
				func(s *shape) { s.Hash = 3 }, func(s *shape) { s.Hash = 255 }, func(s *shape) { s.QF = 0 }, func(s *shape) { s.PH = 0 },
				func(s *shape) { s.TS = 0 }, func(s *shape) { s.TS = -5 },
			} {
				s := good
				m(&s)
				for _, code := range []string{"", zero, plaus, "000", "00000000000"} {
					fcs = append(fcs, fc{"invalid-suite", c06Case{"config", s, sec, goodIn, code}})
				}
			}
			for _, m := range []func(i *oin){
				func(i *oin) { i.Counter = i.Counter[:7] }, func(i *oin) { i.Counter = append(append([]byte{}, i.Counter...), 0) }, func(i *oin) { i.Counter = nil },
				func(i *oin) { i.Challenge = i.Challenge[:7] }, func(i *oin) { i.Challenge = patt(129, 1) }, func(i *oin) { i.Challenge = nil },
				func(i *oin) { i.Password = nil }, func(i *oin) { i.Password = patt(19, 1) }, func(i *oin) { i.Password = patt(21, 1) }, func(i *oin) { i.Password = patt(33, 1) }, func(i *oin) { i.Password = patt(65, 1) },
				func(i *oin) { i.Session = patt(129, 1) }, func(i *oin) { i.Session = patt(200, 1) },
				func(i *oin) { i.Timestamp = i.Timestamp[:7] }, func(i *oin) { i.Timestamp = patt(9, 1) }, func(i *oin) { i.Timestamp = nil },
			} {
				in := goodIn
				m(&in)
				// the code of the message a derivation WITHOUT the admission check would assemble
				// (fields padded / truncated to their widths): must be refused like any other string
				naive := in.ref()
				naive.Counter, naive.Timestamp = fit(in.Counter, 8), fit(in.Timestamp, 8)
				naive.Challenge, naive.Session = fit(in.Challenge, 128), fit(in.Session, 128)
				for _, code := range []string{"", zero, plaus, ref.OCRA(ocraKeys[1], good.ref(), naive)} {
					fcs = append(fcs, fc{"inadmissible-input", c06Case{"config", good, sec, in, code}})
				}
			}
		}
	}
	for _, f := range fcs {
		// every failing case must actually fail in generation, else the case list is vacuous
		su, _ := mkSuite(f.c.Via, f.c.Shape)
		if _, gerr := otp.GenerateOCRA(f.c.Secret, su, f.c.In.lib()); gerr == nil && f.name != "bad-secret" {
			r.Broken = append(r.Broken, "failure-cause case does not fail in generation: "+f.name+" "+f.c.Shape.sig())
		}
		obs, bad := ocraVal(f.c, pairMode)
		fn++
		if bad != "" {
			r.Fail(scen, "failure-cause "+f.name+" "+f.c.Shape.sig(), f.c, bad, obs)
		}
		r.DistinctS(f.name + obs)
	}
	r.Eval(fn)
	r.Set("failure_cause_cases", fn)
	if !pairMode {
		r.Sample(map[string]any{"case": c06Case{"config", good, sec, goodIn, "000000"}, "oracle": "ValidateOCRA(x) == (x == GenerateOCRA(...))"})
		r.Sample(map[string]any{"failure_cause": fcs[len(fcs)-1].name, "case": fcs[len(fcs)-1].c, "want": "(false, error)"})
		r.Set("alphabet", map[string]any{"suites": "reduced C05 grid (hand-built, NewSuite, 45 registered)", "submitted": "generated code; codes of neighbouring counter/challenge bit/timestamp/sibling hash/sibling suite text; single-digit edits; drop/extend/whitespace/NUL/Unicode-digit/empty/doubled; complete code space for 4 digits (thorough: 5)", "failure causes": "9 undecodable secrets; 10 invalid suites; 15 inadmissible inputs"})
		r.Rule("for each suite/input: g = GenerateOCRA; every submitted string x must validate iff x == g; every failure cause must give (false, error) without panic; distinct = distinct (suite, string, outcome) tuples")
		r.Assume("the oracle is the library's own generator (whose correctness is C05's concern)")
	}
}

// fit pads with zeros or truncates to exactly n bytes.
func fit(b []byte, n int) []byte {
	out := make([]byte, n)
	copy(out, b)
	return out
}
