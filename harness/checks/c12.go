//go:build instr

package checks

import (
	"bytes"
	"fmt"
	"net/url"
	"reflect"
	"sort"
	"strings"
	"time"

	"github.com/ja7ad/otp"
	"github.com/ja7ad/otp/verifharness/ev"
	"github.com/ja7ad/otp/verifharness/irt"
)

func init() { register("C12", "model_checking", c12) }

// arena hands out byte slices that live inside a larger canary-filled array, in the three
// relations of length to capacity, and can tell afterwards whether any byte of any backing
// array (the data, the spare capacity, or the surrounding canaries) changed.
type arena struct {
	bufs  [][]byte // full backing arrays
	saved [][]byte
	fill  int // 0: patterned data, 1: all 0x00, 2: all 0xFF, 3: text with separators, 4: blanks and hyphens, 5: multi-byte UTF-8
}

const canary = 0xC9

// slice returns a slice of n bytes; shape 0: len==cap exactly (own allocation), 1: spare
// capacity of 160 canary bytes behind the length, 2: a sub-slice in the middle of a larger
// array (canaries before, spare capacity and canaries after).
func (a *arena) slice(n, shape int, seed byte) []byte {
	if n < 0 {
		return nil
	}
	pre, spare := 0, 0
	switch shape {
	case 1:
		spare = 160
	case 2:
		pre, spare = 48, 160
	case 4, 5:
		// spare capacity that is all ZERO (make + append, a sub-slice of a fresh arena): 4 behind the length only,
		// 5 in the middle of a zeroed array - code that looks at the spare bytes finds them "already padded"
		spare = 160
		if shape == 5 {
			pre = 48
		}
	}
	full := make([]byte, pre+n+spare)
	for i := range full {
		full[i] = canary
		if shape >= 4 {
			full[i] = 0
		}
	}
	for i := 0; i < n; i++ {
		switch a.fill {
		case 1:
			full[pre+i] = 0x00
		case 2:
			full[pre+i] = 0xFF
		case 3:
			full[pre+i] = "AB-CD EF_GH.IJ\tKL"[i%17] // text with separators, blanks and punctuation
		case 4:
			full[pre+i] = " \t-"[i%3]
		case 5:
			full[pre+i] = "a\u00e9\u20acb\U0001F600"[i%11]
		case 6:
			full[pre+i] = "0123456789abcdefABCDEF"[i%22] // reads as hexadecimal text
		case 7:
			full[pre+i] = "9081726354"[i%10] // reads as a decimal number
		case 8:
			full[pre+i] = "QUJDREVGR0hJSktMTU5PUFFSU1RVVldYWVo"[i%35] // reads as base64 / base32 text
		case 9:
			if i < n-1 {
				full[pre+i] = "0123456789abcdef"[i%16] // hexadecimal text with one foreign byte at the end
			} else {
				full[pre+i] = 'g'
			}
		default:
			full[pre+i] = seed + byte(i*3)
		}
	}
	a.bufs = append(a.bufs, full)
	a.saved = append(a.saved, append([]byte(nil), full...))
	return full[pre : pre+n : pre+n+spareCap(shape, spare)]
}

func spareCap(shape, spare int) int {
	if shape == 0 {
		return 0
	}
	return spare
}

// c12Shapes: the memory shapes of byte arguments (3 = all fields cut out of one frame buffer).
var c12Shapes = []int{0, 1, 2, 3, 4, 5}

func (a *arena) changed() string {
	for i := range a.bufs {
		if !bytes.Equal(a.bufs[i], a.saved[i]) {
			for k := range a.bufs[i] {
				if a.bufs[i][k] != a.saved[i][k] {
					return fmt.Sprintf("backing array %d (len %d) modified at offset %d: %#x -> %#x", i, len(a.bufs[i]), k, a.saved[i][k], a.bufs[i][k])
				}
			}
		}
	}
	return ""
}

type c12Case struct {
	Op    string `json:"op"`
	Shape int    `json:"slice_shape"`
	Lens  [5]int `json:"lens"`
	Fill  int    `json:"fill,omitempty"` // k > 0: content class k-1 for every field (0: rotated with Sub)
	Sub   int    `json:"variant"`
	Then  string `json:"then,omitempty"`  // a second operation run afterwards (history of length 2)
	Then2 string `json:"then2,omitempty"` // a third one (history of length 3, thorough tier)
}

var c12Lens = []int{-1, 0, 1, 7, 8, 9, 127, 128, 129, 200}

type c12Env struct {
	base map[string]uint64
	defH otp.Param
	defT otp.Param
	reg  map[string]otp.SuiteConfig
	// regNames: the registered names, sorted (read from the registry through the verif hook)
	regNames []string
}

func newC12Env() *c12Env {
	e := &c12Env{base: nonPool(irt.Globals()), defH: *otp.DefaultHOTPParam, defT: *otp.DefaultTOTPParam, reg: otp.VerifKnownSuites()}
	for n := range e.reg {
		e.regNames = append(e.regNames, n)
	}
	sort.Strings(e.regNames)
	return e
}

// run executes one operation with arguments in the requested memory shape, then checks
// every byte the caller owns.
func (e *c12Env) run(c c12Case) (obs, bad string) {
	a := &arena{fill: (c.Sub / 2) % 6}
	if c.Fill > 0 {
		a.fill = c.Fill - 1
	}
	sec := hopSec
	full := shape{Text: "OCRA-1:HOTP-SHA1-6:C-QN08-PSHA1-S-T1M", Hash: c.Sub % 3, Digits: 6 + c.Sub%5, C: true, Q: true, P: true, S: true, T: true, QF: 1 + (c.Sub/3)%6, PH: 1, TS: 60}
	in := otp.OCRAInput{Counter: a.slice(c.Lens[0], c.Shape, 1), Challenge: a.slice(c.Lens[1], c.Shape, 2), Password: a.slice(c.Lens[2], c.Shape, 3), SessionInfo: a.slice(c.Lens[3], c.Shape, 4), Timestamp: a.slice(c.Lens[4], c.Shape, 5)}
	inCopy := otp.OCRAInput{Counter: clone(in.Counter), Challenge: clone(in.Challenge), Password: clone(in.Password), SessionInfo: clone(in.SessionInfo), Timestamp: clone(in.Timestamp)}
	var frame, frameSaved []byte
	if c.Shape == 3 {
		// all fields cut out of one frame buffer, without capacity limits
		fin, fr := framed(oin{in.Counter, in.Challenge, in.Password, in.SessionInfo, in.Timestamp})
		in = otp.OCRAInput{Counter: fin.Counter, Challenge: fin.Challenge, Password: fin.Password, SessionInfo: fin.Session, Timestamp: fin.Timestamp}
		inCopy = otp.OCRAInput{Counter: clone(in.Counter), Challenge: clone(in.Challenge), Password: clone(in.Password), SessionInfo: clone(in.SessionInfo), Timestamp: clone(in.Timestamp)}
		frame = fr[:cap(fr)]
		frameSaved = append([]byte(nil), frame...)
	}
	cfg := full.lib()
	switch c.Sub % 4 {
	case 1:
		cfg.IncludeSession, cfg.IncludeTimestamp = false, false
	case 2:
		cfg.IncludeCounter, cfg.IncludePassword = false, false
	case 3:
		cfg = shortShape().lib()
	}
	if (c.Sub/7)%3 == 1 {
		cfg.IncludeChallenge = false // a challenge format left on a configuration that does not select the challenge
	}
	if (c.Sub/7)%3 == 2 {
		cfg.IncludePassword, cfg.IncludeTimestamp = false, false // password hash / time step left behind likewise
	}
	cfgCopy := cfg
	rawCfg := otp.RawSuite{SuiteConfig: cfg}
	rawCopy := rawCfg
	caller := otp.Param{Digits: otp.Digits([]int{6, 8, 0, 10, 11}[c.Sub%5]), Algorithm: otp.Algorithm(c.Sub % 3), Period: uint([]int{0, 30, 1}[c.Sub%3]), Skew: uint([]int{0, 1, 10, 11, 2}[(c.Sub/4)%5])}
	callerCopy := caller
	var pp *otp.Param
	switch c.Sub % 4 {
	case 0:
		pp = &caller
	case 1:
		pp = otp.DefaultHOTPParam
	case 2:
		pp = otp.DefaultTOTPParam
	}
	var results []string
	var kept []retained
	// errors are returned values too: their text, read again after the caller has overwritten its arguments (and
	// after later calls), must be what it was when they were returned
	type keptErr struct {
		err        error
		text, from string
	}
	var keptErrs []keptErr
	type heldBytes struct {
		from      string
		b, before []byte
	}
	var held []heldBytes
	heldChanged := func() string {
		for _, h := range held {
			if !bytes.Equal(h.b, h.before) {
				return fmt.Sprintf("the bytes %s returned (%x) were kept by the caller untouched and read %x after later calls: the result shares memory with the library", h.from, h.before, h.b)
			}
		}
		return ""
	}
	keepErr := func(from string, err error) error {
		if err != nil {
			keptErrs = append(keptErrs, keptErr{err, errText(err), from})
		}
		return err
	}
	errsChanged := func() string {
		for _, k := range keptErrs {
			if now := errText(k.err); now != k.text {
				return fmt.Sprintf("the error returned by %s reads differently now: was %q, now %q (it shares memory with an argument)", k.from, k.text, now)
			}
		}
		return ""
	}
	t := time.Unix(1111111109, 0)
	up := otp.URLParam{Issuer: "My Company", AccountName: "a b@x", Secret: sec, Digits: caller.Digits, Algorithm: caller.Algorithm, Period: caller.Period}
	upCopy := up
	var u *url.URL
	var uText string
	var uCopy url.URL
	// observer DURING the calls: at every statement the library executes, everything the caller owns must be as
	// the caller left it - a write that is undone before the call returns is still a write (another goroutine
	// holding the same value sees it)
	var duringExtra func() string
	duringBad := ""
	inHook := false
	irt.SetPointHook(func() {
		if duringBad != "" || inHook {
			return
		}
		inHook = true // formatting a finding may run library code (String methods), which is instrumented too
		defer func() { inHook = false }()
		switch {
		case a.changed() != "":
			duringBad = "caller's bytes modified: " + a.changed()
		case cfg != cfgCopy || rawCfg != rawCopy:
			duringBad = fmt.Sprintf("suite configuration modified: %+v -> %+v / %+v", cfgCopy, cfg, rawCfg.SuiteConfig)
		case caller != callerCopy:
			duringBad = fmt.Sprintf("caller's Param modified: %+v -> %+v", callerCopy, caller)
		case up != upCopy:
			duringBad = "URLParam modified"
		case u != nil && uText != "" && !reflect.DeepEqual(*u, uCopy):
			duringBad = fmt.Sprintf("the URL the caller passed to the parser was modified (%q -> query %q, host %q)", uText, u.RawQuery, u.Host)
		case duringExtra != nil:
			duringBad = duringExtra()
		}
	})
	defer irt.SetPointHook(nil)
	step := func(op string) string {
		return try(func() {
			switch op {
			case "GenerateOCRA":
				var su otp.Suite = cfg
				switch (c.Sub / 5) % 3 {
				case 1:
					su = &cfg // a Suite passed behind a pointer: the caller's struct is reachable
				case 2:
					su = &rawCfg
				}
				s, err := otp.GenerateOCRA(sec, su, in)
				keepErr(op, err)
				results = append(results, s+errStr(err))
				retain(&kept, op, []string{s})
			case "ValidateOCRA":
				code := "123456"
				if cfg.Digits >= 1 && cfg.Digits <= 10 && c.Sub%2 == 0 {
					code = strings.Repeat("1", cfg.Digits) // a wrong code of the RIGHT length goes all the way through the comparison
				}
				var su otp.Suite = cfg
				switch (c.Sub / 5) % 3 {
				case 1:
					su = &cfg
				case 2:
					su = &rawCfg
				}
				ok, err := otp.ValidateOCRA(sec, code, su, in)
				keepErr(op, err)
				results = append(results, fmt.Sprint(ok, err != nil))
				// and the RIGHT code (taken from a generation on private copies of everything): an accepted validation
				// must leave the caller's input alone just the same, and accept it a second time
				if right, gerr := otp.GenerateOCRA(sec, cfgCopy, otp.OCRAInput{Counter: clone(inCopy.Counter), Challenge: clone(inCopy.Challenge), Password: clone(inCopy.Password), SessionInfo: clone(inCopy.SessionInfo), Timestamp: clone(inCopy.Timestamp)}); gerr == nil {
					ok1, _ := otp.ValidateOCRA(sec, right, su, in)
					ok2, _ := otp.ValidateOCRA(sec, right, su, in)
					results = append(results, fmt.Sprint("accepted:", ok1, ok2))
					if !ok1 || !ok2 {
						panic(fmt.Sprintf("VERIF-C12: the generated code %s validated %v the first and %v the second time with the caller's unchanged input", right, ok1, ok2))
					}
				}
			case "OCRAInput.Validate":
				results = append(results, errStr(keepErr(op, in.Validate(cfg))))
			case "wasm-derive":
				// the two exported operations that take the SECRET as a byte slice (the binding's derivation and
				// validation, built natively): the key bytes are the caller's - the challenge slot of the arena is the
				// key here (length classes up to 200 bytes: below, at and above the HMAC block sizes)
				key := in.Challenge
				for _, al := range []otp.Algorithm{otp.SHA1, otp.SHA256, otp.SHA512} {
					c1, err := otp.DeriveRFC4226Wasm(key, 7, 6, al)
					keepErr(op, err)
					c2, _ := otp.DeriveRFC4226Wasm(key, 7, 6, al)
					ok, err := otp.ValidateOTPWasm(c1, key, 7, otp.SixDigits, al)
					keepErr(op, err)
					results = append(results, fmt.Sprint(c1, c1 == c2, ok))
					if c1 != c2 || (c1 != "" && !ok) {
						panic(fmt.Sprintf("VERIF-C12: the binding's derivation gives %q, then %q and verdict %v for the same unchanged key slice", c1, c2, ok))
					}
				}
			case "padBytes":
				for _, w := range []int{8, 128} {
					for _, f := range [][]byte{in.Counter, in.Challenge, in.SessionInfo} {
						out := otp.VerifPadBytes(f, w)
						results = append(results, fmt.Sprint(len(out)))
					}
				}
			case "GenerateHOTP":
				s, err := otp.GenerateHOTP(sec, []uint64{7, 0, 1}[(c.Sub/2)%3], pp)
				results = append(results, s+errStr(err))
				retain(&kept, op, []string{s})
			case "ValidateHOTP":
				ok, err := otp.ValidateHOTP(sec, "123456", []uint64{7, 0, 1, 1<<64 - 1}[(c.Sub/2)%4], pp)
				results = append(results, fmt.Sprint(ok, err != nil))
			case "GenerateTOTP":
				s, err := otp.GenerateTOTP(sec, []time.Time{t, time.Unix(0, 0), time.Unix(29, 0)}[(c.Sub/2)%3], pp)
				results = append(results, s+errStr(err))
				retain(&kept, op, []string{s})
			case "ValidateTOTP":
				ok, err := otp.ValidateTOTP(sec, "123456", []time.Time{t, time.Unix(0, 0), time.Unix(29, 0)}[(c.Sub/2)%3], pp)
				results = append(results, fmt.Sprint(ok, err != nil))
			case "GenerateURL+Parse":
				g, err := otp.GenerateTOTPURL(up)
				if err == nil {
					u = g
					uText = g.String()
					uCopy = *g
					back, err := otp.ParseOTPAuthURL(g)
					if err == nil {
						results = append(results, back.Issuer+"|"+back.AccountName+"|"+back.Secret)
						retain(&kept, op, []string{back.Issuer, back.AccountName, back.Secret})
					}
				}
				h, _ := otp.GenerateHOTPURL(up)
				if h != nil {
					results = append(results, h.String())
				}
			case "suites":
				l1 := otp.ListSuites()
				sort.Strings(l1)
				for i := range l1 {
					l1[i] = "scribbled"
				}
				l2 := otp.ListSuites()
				// the list a caller received is the caller's: what it wrote there stays, whatever is listed later ...
				for i := range l1 {
					if l1[i] != "scribbled" {
						panic(fmt.Sprintf("VERIF-C12: the caller overwrote the list ListSuites had returned; after a later ListSuites call its element %d reads %q again (the list shares memory with later results)", i, l1[i]))
					}
				}
				sort.Strings(l2)
				// ... and a later list does not show what an earlier caller did to its own
				want := append([]string(nil), e.regNames...)
				if fmt.Sprint(l2) != fmt.Sprint(want) {
					panic(fmt.Sprintf("VERIF-C12: ListSuites after a caller overwrote an earlier result returns %.80q..., not the registered names", fmt.Sprint(l2)))
				}
				for i, j := 0, len(l2)-1; i < j; i, j = i+1, j-1 {
					l2[i], l2[j] = l2[j], l2[i] // the caller re-orders its list in place
				}
				mine := append([]string(nil), l2...)
				l3 := otp.ListSuites()
				if fmt.Sprint(l2) != fmt.Sprint(mine) {
					panic("VERIF-C12: a later ListSuites call re-wrote the list an earlier caller holds (and had re-ordered in place)")
				}
				sort.Strings(l3)
				if fmt.Sprint(l3) != fmt.Sprint(want) {
					panic("VERIF-C12: ListSuites returns something else than the registered names after a caller re-ordered an earlier result")
				}
				sort.Strings(l2)
				results = append(results, fmt.Sprint(len(l2), irt.HashValue(l2)))
				name := "OCRA-1:HOTP-SHA256-8:C-QA10-PSHA256-S-T1"
				s1, _ := otp.NewRawSuite(name)
				c1 := s1.Config()
				c1.Digits, c1.Raw, c1.IncludeSession = 99, "x", false // caller scribbles its copy
				c2 := otp.SuiteConfigFromRaws(name)
				c2.Digits = 77
				s3, _ := otp.NewSuite(cfg)
				if s3 != nil {
					c3 := s3.Config()
					c3.Digits = 55
					_ = c3
				}
				s4, _ := otp.NewRawSuite(name)
				results = append(results, shapeOfLib(s4.Config()).sig())
			case "ParseURL-variants":
				// hand-written URLs (mixed-case type, odd labels, failing ones): the caller's *url.URL must come back untouched
				for i, raw := range []string{"otpauth://TOTP/Iss:acc?secret=JBSWY3DPEHPK3PXP&digits=8", "otpauth://Hotp/I:a?secret=A&algorithm=sha256", "otpauth://tOtP/a%20b:c%2Fd?secret=A&period=60", "otpauth://FOO/I:a?secret=A", "otpauth://totp/nolabel?secret=A", "OTPAUTH://totp/I:a?secret=A", "otpauth://user:pw@TOTP/I:a?secret=A&digits=abc", "otpauth://TOTP:8080/I:a?secret=A#frag",
					// query texts in the forms a hand-written or foreign URL has: ';' separators, '+' and %-escapes, repeated,
					// empty and upper-case keys, a trailing separator, a bare '?'
					"otpauth://totp/ACME:alice?secret=JBSWY3DPEHPK3PXP;issuer=ACME;digits=8", "otpauth://hotp/ACME:alice?secret=JBSWY3DPEHPK3PXP&counter=5;digits=6",
					"otpauth://totp/A:b?secret=A&issuer=A+B%20C%2B", "otpauth://totp/A:b?secret=A&secret=B&digits=6&digits=8", "otpauth://totp/A:b?SECRET=A&Digits=8&",
					"otpauth://totp/A:b?", "otpauth://totp/A:b?secret=&period=&digits=", "otpauth://totp/A:b?secret=A&period=%33%30", "otpauth://totp/A:b?secret=A%3Bdigits=8",
					"otpauth://totp/A%3Ab?secret=A", "otpauth://totp//A:b?secret=A", "otpauth://totp/A:b/?secret=A", "otpauth://totp/A:b?secret=a b\tc"} {
					pu, err := url.Parse(raw)
					if err != nil {
						continue
					}
					before, beforeText := *pu, pu.String()
					var ui url.Userinfo
					if pu.User != nil {
						ui = *pu.User
					}
					duringExtra = func() string {
						if !reflect.DeepEqual(*pu, before) || (pu.User != nil && *pu.User != ui) {
							return fmt.Sprintf("ParseOTPAuthURL changed the caller's URL %q while it was running (query %q, host %q)", beforeText, pu.RawQuery, pu.Host)
						}
						return ""
					}
					back, perr := otp.ParseOTPAuthURL(pu)
					duringExtra = nil
					results = append(results, fmt.Sprint(i, perr != nil))
					if back != nil {
						retain(&kept, op, []string{back.Issuer, back.AccountName, back.Secret})
					}
					if pu.String() != beforeText || !reflect.DeepEqual(*pu, before) || (pu.User != nil && *pu.User != ui) {
						panic(fmt.Sprintf("VERIF-C12: ParseOTPAuthURL modified the caller's URL: %q -> %q (host %q -> %q)", beforeText, pu.String(), before.Host, pu.Host))
					}
				}
			case "rest-requests":
				// the REST layer is built on the same defaults and registry: drive its maximal / minimal requests too
				restInit()
				co := carryOver()
				for i := 0; i < 12; i++ {
					q := co[(c.Sub*11+i*7)%len(co)]
					resp := restDo(nil, q.Method, q.uri(), q.body())
					results = append(results, fmt.Sprint(resp.Status))
				}
			case "suites-parsed":
				// strings the parser accepts but the registry does not hold, in several spellings, and rejected ones
				for i, name := range []string{"OCRA-1:HOTP-SHA1-7:QN08", "ocra-1:hotp-sha1-6:qn08", "OCRA-1:HOTP-SHA256-8:QN08-T45S", "OCRA-1:HOTP-SHA512-9:C-QN10-PSHA1-S064-T1H", "OCRA-2:HOTP-SHA1-6:QN08", "OCRA-1:HOTP-SHA1-6:QA08-T1M"} {
					if (i+c.Sub)%2 == 0 {
						name = strings.ToLower(name)
					}
					su, err := otp.NewRawSuite(name)
					if err == nil {
						cc := su.Config()
						cc.Digits, cc.Raw = 99, "scribbled"
						results = append(results, su.String())
						retain(&kept, op, []string{su.String()})
					} else {
						results = append(results, "rejected")
					}
					results = append(results, fmt.Sprint(otp.IsKnownSuite(name), otp.SuiteConfigFromRaws(name) == otp.SuiteConfig{}, len(otp.ListSuites())))
				}
			case "returned-slices":
				// every operation that returns bytes: the result is the caller's - after the caller overwrites
				// it, the same call must return the same bytes again (no result may alias library memory)
				fns := []struct {
					name string
					f    func() []byte
				}{
					{"DecodeSecret", func() []byte { b, _ := otp.DecodeSecret(sec); return b }},
					{"DecodeSecret(lower, padded)", func() []byte { b, _ := otp.DecodeSecret(" mfrggzdfmztwq2lk\n"); return b }},
					{"To8ByteBigEndian", func() []byte { return otp.To8ByteBigEndian(0x0102030405060708) }},
					{"ParseDecimalToBigEndian8", func() []byte { b, _ := otp.ParseDecimalToBigEndian8("72623859790382856"); return b }},
					{"ParseDecimal64BigEndian", func() []byte { b, _ := otp.ParseDecimal64BigEndian("72623859790382856"); return b }},
					{"ParseHexTimestamp", func() []byte { b, _ := otp.ParseHexTimestamp("132d0b6"); return b }},
					{"ParseDecimalChallengeRFC6287", func() []byte { b, _ := otp.ParseDecimalChallengeRFC6287("12345678"); return b }},
					{"MustHexPadLeft", func() []byte { return otp.MustHexPadLeft("abcdef", 8) }},
					{"padBytes(short)", func() []byte { return otp.VerifPadBytes([]byte{1, 2, 3}, 8) }},
				}
				for round := 0; round < 2; round++ {
					for _, fn := range fns {
						first := fn.f()
						if len(first) == 0 {
							panic("VERIF-C12: harness: " + fn.name + " returned nothing (vacuous case)")
						}
						keep := clone(first)
						for i := range first {
							first[i] ^= 0xA5
						}
						again := fn.f()
						if !bytes.Equal(again, keep) {
							panic(fmt.Sprintf("VERIF-C12: %s returned %x, the caller overwrote that result, and the same call now returns %x", fn.name, keep, again))
						}
						for i := range again {
							again[i] ^= 0x3C // the second result is the caller's as well
						}
						if third := fn.f(); !bytes.Equal(third, keep) {
							panic(fmt.Sprintf("VERIF-C12: %s returned %x twice, the caller overwrote the second result, and the third call returns %x", fn.name, keep, third))
						}
						results = append(results, fmt.Sprintf("%x", keep))
					}
				}
				// ... and a result the caller merely KEEPS (say as a field of an OCRA input it builds with the helpers) must
				// read the same after every later call of any kind, including the other helpers
				for _, fn := range fns {
					b := fn.f()
					held = append(held, heldBytes{fn.name, b, clone(b)})
					if h := heldChanged(); h != "" {
						panic("VERIF-C12: " + h)
					}
				}
			case "HexInputToOCRA":
				hx, err := otp.HexInputToOCRA("0000000000000001", "3132333435363738", "", "abcd", "")
				if err == nil {
					hx.Counter[0], hx.Challenge[0] = 0xEE, 0xEE // the caller owns the result
				}
				hx2, _ := otp.HexInputToOCRA("0000000000000001", "3132333435363738", "", "abcd", "")
				results = append(results, fmt.Sprintf("%x%x", hx2.Counter, hx2.Challenge))
				// an input built by the helper from SHORT texts (padded by the library) and kept for later calls
				if hx3, err := otp.HexInputToOCRA("1", "3132333435363738", "", "abcd", "132d0b6"); err == nil {
					for _, f := range []struct {
						n string
						b []byte
					}{{"HexInputToOCRA (counter)", hx3.Counter}, {"HexInputToOCRA (challenge)", hx3.Challenge}, {"HexInputToOCRA (session)", hx3.SessionInfo}, {"HexInputToOCRA (timestamp)", hx3.Timestamp}} {
						if len(f.b) > 0 {
							held = append(held, heldBytes{f.n, f.b, clone(f.b)})
						}
					}
				}
			}
		})
	}
	pn := step(c.Op)
	check := func(when string) string {
		if strings.HasPrefix(pn, "VERIF-C12: ") {
			return when + ": " + strings.TrimPrefix(pn, "VERIF-C12: ")
		}
		if pn != "" {
			return "" // panics are C10's concern
		}
		if duringBad != "" {
			return when + ": in the middle of a call: " + duringBad
		}
		if ch := a.changed(); ch != "" {
			return when + ": caller's bytes modified: " + ch
		}
		if frame != nil && !bytes.Equal(frame, frameSaved) {
			for k := range frame {
				if frame[k] != frameSaved[k] {
					return when + fmt.Sprintf(": caller's frame buffer modified at offset %d: %#x -> %#x", k, frameSaved[k], frame[k])
				}
			}
		}
		if !reflect.DeepEqual(in, inCopy) {
			return when + ": OCRA input (slice headers/contents) differs from the caller's copy"
		}
		if cfg != cfgCopy || rawCfg != rawCopy {
			return when + fmt.Sprintf(": suite configuration modified: %+v -> %+v / %+v", cfgCopy, cfg, rawCfg.SuiteConfig)
		}
		if caller != callerCopy {
			return when + fmt.Sprintf(": caller's Param modified: %+v -> %+v", callerCopy, caller)
		}
		if up != upCopy {
			return when + ": URLParam modified"
		}
		if *otp.DefaultHOTPParam != e.defH {
			return when + fmt.Sprintf(": DefaultHOTPParam modified: %+v -> %+v", e.defH, *otp.DefaultHOTPParam)
		}
		if *otp.DefaultTOTPParam != e.defT {
			return when + fmt.Sprintf(": DefaultTOTPParam modified: %+v -> %+v", e.defT, *otp.DefaultTOTPParam)
		}
		if u != nil && (u.String() != uText || !reflect.DeepEqual(*u, uCopy)) {
			return when + ": parsed URL modified"
		}
		if d := irt.DiffGlobals(e.base, nonPool(irt.Globals())); len(d) > 0 {
			return when + fmt.Sprintf(": read-only package-level variable(s) %v modified", d)
		}
		if !reflect.DeepEqual(otp.VerifKnownSuites(), e.reg) {
			return when + ": suite registry modified"
		}
		if ch := retainedChanged(kept); ch != "" {
			return when + ": " + ch
		}
		if ch := heldChanged(); ch != "" {
			return when + ": " + ch
		}
		return ""
	}
	obs = strings.Join(results, ";")
	if b := check("after " + c.Op); b != "" {
		return obs, b
	}
	// the caller now scribbles over everything it owns: earlier results must not move
	for _, b := range a.bufs {
		for i := range b {
			b[i] ^= 0x5A
		}
	}
	frame = nil // (the framed fields are copies of the arena fields; they are not scribbled)
	for i := range a.saved {
		copy(a.saved[i], a.bufs[i])
	}
	inCopy = otp.OCRAInput{Counter: clone(in.Counter), Challenge: clone(in.Challenge), Password: clone(in.Password), SessionInfo: clone(in.SessionInfo), Timestamp: clone(in.Timestamp)}
	if ch := retainedChanged(kept); ch != "" {
		return obs, "after the caller overwrote its arguments: " + ch
	}
	if ch := errsChanged(); ch != "" {
		return obs, "after the caller overwrote its arguments: " + ch
	}
	if c.Then != "" {
		pn = step(c.Then)
		obs = strings.Join(results, ";")
		if b := check("after " + c.Op + " then " + c.Then); b != "" {
			return obs, b
		}
	}
	if c.Then2 != "" {
		pn = step(c.Then2)
		obs = strings.Join(results, ";")
		if b := check("after " + c.Op + " then " + c.Then + " then " + c.Then2); b != "" {
			return obs, b
		}
	}
	return obs, ""
}

func c12(r *ev.Run) {
	e := newC12Env()
	r.Scenario("caller-data", func(raw []byte) (string, string) { return e.run(unjson[c12Case](raw)) })
	if ReplayOnly {
		return
	}
	ops := []string{"GenerateOCRA", "ValidateOCRA", "OCRAInput.Validate", "padBytes", "wasm-derive", "GenerateHOTP", "ValidateHOTP", "GenerateTOTP", "ValidateTOTP", "GenerateURL+Parse", "ParseURL-variants", "suites", "suites-parsed", "HexInputToOCRA", "returned-slices", "rest-requests"}
	sliceOps := map[string]bool{"GenerateOCRA": true, "ValidateOCRA": true, "OCRAInput.Validate": true, "padBytes": true, "wasm-derive": true}
	var n, trans int64
	states := map[string]bool{irt.Digest(true): true}
	runCase := func(c c12Case) {
		obs, bad := e.run(c)
		n++
		trans++
		if c.Then != "" {
			trans++
		}
		states[irt.Digest(true)] = true
		if bad != "" {
			r.Fail("caller-data", fmt.Sprintf("%s shape=%d lens=%v variant=%d then=%q: %s", c.Op, c.Shape, c.Lens, c.Sub, c.Then, bad), c, "caller-owned memory, defaults and registry byte-identical before and after", bad)
		}
		r.DistinctS(fmt.Sprint(c.Op, c.Shape, c.Lens, c.Sub%4, obs))
	}
	base := [5]int{8, 16, 20, 5, 8}
	for _, op := range ops {
		if sliceOps[op] {
			for _, shapeI := range c12Shapes {
				for f := 0; f < 5; f++ {
					for _, ln := range c12Lens {
						for sub := 0; sub < 4; sub++ {
							l := base
							l[f] = ln
							runCase(c12Case{Op: op, Shape: shapeI, Lens: l, Sub: sub + 4*(f+ln+2)})
						}
					}
				}
				// every field x the lengths at which a field's text could be taken for ANOTHER encoding of itself (hex /
				// base64 / decimal of 8-, 20-, 32-, 64-byte values) x every content class
				if shapeI == 1 {
					for f := 0; f < 5; f++ {
						for _, ln := range []int{8, 16, 20, 27, 28, 32, 40, 44, 64, 88, 128} {
							for fill := 0; fill <= 9; fill++ {
								for sub := 0; sub < 6; sub++ { // the four suite variants (all fields / without S,T / without C,P / short) and three hashes
									l := base
									l[f] = ln
									runCase(c12Case{Op: op, Shape: shapeI, Lens: l, Sub: sub, Fill: fill + 1})
								}
							}
						}
					}
				}
				// all fields with the same length class
				for _, ln := range c12Lens {
					for sub := 0; sub < 4; sub++ {
						runCase(c12Case{Op: op, Shape: shapeI, Lens: [5]int{ln, ln, ln, ln, ln}, Sub: sub})
					}
				}
			}
		} else {
			for sub := 0; sub < 60; sub++ {
				runCase(c12Case{Op: op, Shape: 1, Lens: base, Sub: sub})
			}
		}
	}
	// histories of length 2: every ordered pair of operations, arguments in the spare-capacity shape
	for _, a := range ops {
		for _, b := range ops {
			for sub := 0; sub < 12; sub++ {
				l := base
				l[sub%5] = c12Lens[(sub*3)%len(c12Lens)]
				runCase(c12Case{Op: a, Shape: 1 + sub%2, Lens: l, Sub: sub, Then: b})
			}
		}
	}
	// thorough: histories of length 3 (every ordered triple of operations), all four slice shapes for the pairs
	if r.Thorough() {
		for _, a := range ops {
			for _, b := range ops {
				for _, c := range ops {
					for sub := 0; sub < 3; sub++ {
						l := base
						l[sub%5] = c12Lens[(sub*3+len(a)+len(c))%len(c12Lens)]
						runCase(c12Case{Op: a, Shape: 1 + sub%2, Lens: l, Sub: sub + len(b), Then: b, Then2: c})
						trans++
					}
				}
				for _, shapeI := range c12Shapes {
					for _, ln := range c12Lens {
						l := base
						l[(len(a)+len(b))%5] = ln
						runCase(c12Case{Op: a, Shape: shapeI, Lens: l, Sub: ln + 2, Then: b})
					}
				}
			}
		}
	}
	r.Eval(n)
	r.State(int64(len(states)))
	r.Transition(trans)
	r.Trace(trans)
	r.Set("operations", ops)
	r.Sample(c12Case{Op: "GenerateOCRA", Shape: 1, Lens: [5]int{8, 7, 20, 5, 8}, Sub: 0})
	r.Sample(c12Case{Op: "GenerateTOTP", Shape: 1, Lens: base, Sub: 1, Then: "ValidateHOTP"})
	r.Rule("every operation taking slices, pointers or structs x slice shape {len==cap, spare capacity filled with canaries, sub-slice in the middle of a canary array} x every length class {nil,0,1,7,8,9,127,128,129,200} of each field x parameter variants (caller struct, DefaultHOTPParam / DefaultTOTPParam passed themselves, nil); every ordered pair of operations as a history (thorough: every ordered triple, and the pairs in all four slice shapes x all length classes); oracle after every call: all backing arrays byte-identical incl. spare capacity, deep copies of arguments identical, exported defaults / registry / lookup tables unchanged, retained results unchanged after the caller scribbles its arguments; state = digest of all package-level variables, transition = one real call")
	r.Assume("results that share immutable string memory with arguments are fine; only observable modification counts")
}
