package checks

import (
	"encoding/hex"
	"fmt"
	"net/url"
	"strings"
	"time"

	"github.com/ja7ad/otp"
	"github.com/ja7ad/otp/verifharness/ev"
	"github.com/ja7ad/otp/verifharness/ref"
)

func init() { register("C13", "exploration", c13) }

type c13Case struct {
	Op     string `json:"op"`
	Secret string `json:"secret"`
	Arg    string `json:"arg"`
}

// failingOp runs one failing call of a non-validator operation and inspects the error text.
func failingOp(c c13Case) (obs, bad string) {
	_, key := ref.B32Classify(c.Secret)
	if key == nil {
		// malformed secret: the "key" an attacker must not see echoed is the text itself
		key = []byte{}
	}
	var err error
	var accepted []string
	t := time.Unix(1111111109, 0)
	p := try(func() {
		switch c.Op {
		case "DecodeSecret":
			_, err = otp.DecodeSecret(c.Secret)
		case "GenerateHOTP":
			_, err = otp.GenerateHOTP(c.Secret, 1, nil)
		case "GenerateTOTP":
			_, err = otp.GenerateTOTP(c.Secret, t, nil)
		case "GenerateOCRA":
			su, _ := otp.NewRawSuite("OCRA-1:HOTP-SHA1-6:QN08")
			_, err = otp.GenerateOCRA(c.Secret, su, otp.OCRAInput{Challenge: patt(16, 1)})
		case "GenerateHOTP-baddigits":
			_, err = otp.GenerateHOTP(c.Secret, 1, &otp.Param{Digits: 11})
			accepted = []string{ref.HOTP(key, 1, 6, 0), ref.HOTP(key, 1, 8, 0), ref.HOTP(key, 1, 10, 0)}
		case "GenerateHOTP-badalgo":
			_, err = otp.GenerateHOTP(c.Secret, 1, &otp.Param{Digits: 6, Algorithm: 7})
			accepted = []string{ref.HOTP(key, 1, 6, 0)}
		case "GenerateTOTP-badalgo":
			_, err = otp.GenerateTOTP(c.Secret, t, &otp.Param{Digits: 8, Algorithm: 3, Period: 30})
			accepted = []string{ref.HOTP(key, ref.Step(1111111109, 30), 8, 0)}
		case "GenerateOCRA-badinput":
			su, _ := otp.NewRawSuite("OCRA-1:HOTP-SHA256-8:C-QN08")
			_, err = otp.GenerateOCRA(c.Secret, su, otp.OCRAInput{Challenge: patt(16, 1), Counter: []byte{1, 2, 3}})
		case "GenerateOCRA-badsuite":
			_, err = otp.GenerateOCRA(c.Secret, otp.SuiteConfig{Raw: "x", Digits: 12, IncludeChallenge: true, Challenge: 1}, otp.OCRAInput{Challenge: patt(16, 1)})
		case "GenerateTOTPURL-noissuer":
			_, err = otp.GenerateTOTPURL(otp.URLParam{AccountName: "a", Secret: c.Secret})
		case "GenerateHOTPURL-noaccount":
			_, err = otp.GenerateHOTPURL(otp.URLParam{Issuer: "i", Secret: c.Secret})
		case "ParseOTPAuthURL-baddigits":
			u, _ := url.Parse("otpauth://totp/I:a?secret=" + url.QueryEscape(c.Secret) + "&digits=abc")
			_, err = otp.ParseOTPAuthURL(u)
		case "ParseOTPAuthURL-badalgo":
			u, _ := url.Parse("otpauth://totp/I:a?secret=" + url.QueryEscape(c.Secret) + "&algorithm=MD5")
			_, err = otp.ParseOTPAuthURL(u)
		case "ParseOTPAuthURL-repeated-secret":
			u, _ := url.Parse("otpauth://totp/I:a?secret=" + url.QueryEscape(c.Secret) + "&secret=" + url.QueryEscape(c.Secret))
			_, err = otp.ParseOTPAuthURL(u)
		case "ParseOTPAuthURL-two-secrets":
			u, _ := url.Parse("otpauth://hotp/I:a?secret=" + url.QueryEscape(c.Secret) + "&digits=6&secret=JBSWY3DPEHPK3PXP&counter=1")
			_, err = otp.ParseOTPAuthURL(u)
		case "ParseOTPAuthURL-repeated-everything":
			q := "secret=" + url.QueryEscape(c.Secret)
			u, _ := url.Parse("otpauth://totp/I:a?" + q + "&digits=6&digits=8&algorithm=SHA1&algorithm=SHA256&period=30&period=60&issuer=I&issuer=J&" + q + "&x=" + url.QueryEscape(c.Secret))
			_, err = otp.ParseOTPAuthURL(u)
		case "ParseOTPAuthURL-badperiod":
			u, _ := url.Parse("otpauth://totp/I:a?secret=" + url.QueryEscape(c.Secret) + "&period=-5")
			_, err = otp.ParseOTPAuthURL(u)
		case "ParseOTPAuthURL-nolabelcolon":
			u, _ := url.Parse("otpauth://totp/alice@example.com?secret=" + url.QueryEscape(c.Secret) + "&issuer=Example")
			_, err = otp.ParseOTPAuthURL(u)
		case "ParseOTPAuthURL-emptylabel":
			u, _ := url.Parse("otpauth://hotp/?secret=" + url.QueryEscape(c.Secret))
			_, err = otp.ParseOTPAuthURL(u)
		case "ParseOTPAuthURL-nopath":
			u, _ := url.Parse("otpauth://totp?secret=" + url.QueryEscape(c.Secret))
			_, err = otp.ParseOTPAuthURL(u)
		case "ParseOTPAuthURL-badscheme":
			u, _ := url.Parse("https://totp/I:a?secret=" + url.QueryEscape(c.Secret))
			_, err = otp.ParseOTPAuthURL(u)
		case "ParseOTPAuthURL-secret-in-label":
			u, _ := url.Parse("otpauth://xotp/" + url.PathEscape(c.Secret) + "?secret=" + url.QueryEscape(c.Secret) + "&digits=x&period=y&algorithm=z")
			_, err = otp.ParseOTPAuthURL(u)
		case "ParseOTPAuthURL-hugedigits":
			u, _ := url.Parse("otpauth://totp/I:a?secret=" + url.QueryEscape(c.Secret) + "&digits=99999999999999999999")
			_, err = otp.ParseOTPAuthURL(u)
		case "HexInputToOCRA-bad":
			_, err = otp.HexInputToOCRA("zz", hex.EncodeToString(key), "", "", "")
		case "NewSuite-bad":
			_, err = otp.NewSuite(otp.SuiteConfig{Raw: c.Secret, Digits: 3})
		case "ValidateOCRA-badinput":
			su, _ := otp.NewRawSuite("OCRA-1:HOTP-SHA1-6:QN08")
			_, err = otp.ValidateOCRA(c.Secret, "123456", su, otp.OCRAInput{Challenge: []byte{1}})
			accepted = nil
		case "ValidateTOTP-badskew":
			_, err = otp.ValidateTOTP(c.Secret, "123456", t, &otp.Param{Digits: 6, Skew: 11, Period: 30})
			accepted = []string{ref.HOTP(key, ref.Step(1111111109, 30), 6, 0)}
		case "ValidateHOTP-wronglen":
			_, err = otp.ValidateHOTP(c.Secret, "1234567", 1, nil)
			accepted = hotpWindow(key, 1, 2, 6, 0)
		case "ParseOTPAuthURL-badtype":
			u, _ := url.Parse("otpauth://xotp/I:a?secret=" + url.QueryEscape(c.Secret))
			_, err = otp.ParseOTPAuthURL(u)
		}
	})
	if p != "" {
		return "panic:" + p, "" // panics are C10's concern
	}
	obs = errStr(err)
	if err == nil {
		return obs, ""
	}
	if l := leaks(errText(err), c.Secret, key, accepted); l != "" {
		return obs, "error text discloses " + l
	}
	// malformed secrets: the submitted text (>= 8 characters) must not be echoed either
	st := strings.ToLower(strings.TrimSpace(c.Secret))
	if len(st) >= 8 && strings.Contains(strings.ToLower(errText(err)), st) {
		return obs, "error text echoes the submitted secret text"
	}
	return obs, ""
}

// c13Sweep is one call of the parameter-grid sweep: WHATEVER fails is inspected (not only calls known to fail).
type c13Sweep struct {
	Op     string `json:"op"`
	Secret string `json:"secret"`
	I      []int  `json:"grid_index"`
}

var (
	swDigits = []int{0, 1, 6, 8, 10, 11, 255}
	swAlgos  = []int{0, 1, 2, 3, 4, 7, 255}
	swPeriod = []uint{0, 1, 30}
	swSkew   = []uint{0, 1, 10, 11, 1 << 40}
	swCtr    = []uint64{0, 1, 1<<64 - 1}
	swText   = []string{"", "I", "a b", "x:y", "line\nbreak", "tab\t", "nul\x00", "del\x7f", "cr\r\n", "%zz", "\xff\xfe", "\u2028"}
	swURLNum = []string{"", "6", "abc", "-1", "256", "99999999999999999999"}
	swURLAlg = []string{"", "SHA1", "MD5", "sha512"}
	swTypes  = []string{"totp", "hotp", "xotp", ""}
)

func sweepDims(op string) []int {
	switch op {
	case "GenerateHOTP":
		return []int{len(swCtr), len(swDigits), len(swAlgos)}
	case "GenerateTOTP":
		return []int{len(swPeriod), len(swDigits), len(swAlgos)}
	case "ValidateHOTP":
		return []int{4, len(swSkew), len(swDigits), len(swAlgos)}
	case "ValidateTOTP":
		return []int{4, len(swSkew), len(swDigits), len(swAlgos), len(swPeriod)}
	case "GenerateURL":
		return []int{2, len(swText), len(swText), len(swDigits), len(swAlgos), len(swPeriod)}
	case "ParseURL":
		return []int{len(swTypes), 3, len(swURLNum), len(swURLAlg), len(swURLNum)}
	case "OCRA":
		return []int{2, 5, 4, 3}
	}
	return nil
}

func sweepCall(c c13Sweep) (obs, bad string) {
	_, key := ref.B32Classify(c.Secret)
	if key == nil {
		key = []byte{}
	}
	ix := c.I
	t := time.Unix(1111111109, 0)
	var err error
	var accepted []string
	// submitted codes: the right one, a wrong one of exactly the length the PARAMETER names (whatever it is), one too long, none
	codes := func(good string, digits int) string {
		if digits < 0 || digits > 300 {
			digits = 6
		}
		return []string{good, strings.Repeat("0", digits), good + "1", ""}[ix[0]]
	}
	var vok, isValidator bool
	p := try(func() {
		switch c.Op {
		case "GenerateHOTP":
			_, err = otp.GenerateHOTP(c.Secret, swCtr[ix[0]], &otp.Param{Digits: otp.Digits(swDigits[ix[1]]), Algorithm: otp.Algorithm(swAlgos[ix[2]])})
			accepted = []string{ref.HOTP(key, swCtr[ix[0]], 6, 0), ref.HOTP(key, swCtr[ix[0]], 8, 0), ref.HOTP(key, swCtr[ix[0]], 10, 0)}
		case "GenerateTOTP":
			_, err = otp.GenerateTOTP(c.Secret, t, &otp.Param{Period: swPeriod[ix[0]], Digits: otp.Digits(swDigits[ix[1]]), Algorithm: otp.Algorithm(swAlgos[ix[2]])})
			accepted = []string{ref.HOTP(key, ref.Step(1111111109, uint64(swPeriod[ix[0]])), 6, 0), ref.HOTP(key, ref.Step(1111111109, uint64(swPeriod[ix[0]])), 8, 0)}
		case "ValidateHOTP":
			good := ref.HOTP(key, 5, 6, 0)
			accepted = hotpWindow(key, 5, 10, 6, 0)
			isValidator = true
			vok, err = otp.ValidateHOTP(c.Secret, codes(good, swDigits[ix[2]]), 5, &otp.Param{Skew: swSkew[ix[1]], Digits: otp.Digits(swDigits[ix[2]]), Algorithm: otp.Algorithm(swAlgos[ix[3]])})
		case "ValidateTOTP":
			good := ref.HOTP(key, ref.Step(1111111109, uint64(swPeriod[ix[4]])), 6, 0)
			accepted = []string{good}
			isValidator = true
			vok, err = otp.ValidateTOTP(c.Secret, codes(good, swDigits[ix[2]]), t, &otp.Param{Skew: swSkew[ix[1]], Digits: otp.Digits(swDigits[ix[2]]), Algorithm: otp.Algorithm(swAlgos[ix[3]]), Period: swPeriod[ix[4]]})
		case "GenerateURL":
			up := otp.URLParam{Issuer: swText[ix[1]], AccountName: swText[ix[2]], Secret: c.Secret, Digits: otp.Digits(swDigits[ix[3]]), Algorithm: otp.Algorithm(swAlgos[ix[4]]), Period: swPeriod[ix[5]]}
			if ix[0] == 0 {
				_, err = otp.GenerateTOTPURL(up)
			} else {
				_, err = otp.GenerateHOTPURL(up)
			}
		case "ParseURL":
			label := []string{"I:a", "alice", ""}[ix[1]]
			q := "secret=" + url.QueryEscape(c.Secret)
			if v := swURLNum[ix[2]]; v != "" {
				q += "&digits=" + v
			}
			if v := swURLAlg[ix[3]]; v != "" {
				q += "&algorithm=" + v
			}
			if v := swURLNum[ix[4]]; v != "" {
				q += "&period=" + v
			}
			if u, perr := url.Parse("otpauth://" + swTypes[ix[0]] + "/" + label + "?" + q); perr == nil {
				_, err = otp.ParseOTPAuthURL(u)
			}
		case "OCRA":
			cfg := otp.SuiteConfig{Raw: []string{"OCRA-1:HOTP-SHA1-6:QN08", "x"}[ix[0]], Digits: []int{6, 0, 3, 11, 200}[ix[1]], Hash: otp.Algorithm([]int{0, 2, 3, 255}[ix[2]]), IncludeChallenge: true, Challenge: 1}
			in := otp.OCRAInput{Challenge: [][]byte{patt(16, 1), {1}, nil}[ix[3]]}
			_, err = otp.GenerateOCRA(c.Secret, cfg, in)
			if err == nil {
				_, err = otp.ValidateOCRA(c.Secret, "12345", cfg, in)
			}
			var su otp.Suite = otp.RawSuite{SuiteConfig: cfg}
			if err == nil {
				_, err = otp.GenerateOCRA(c.Secret, su, otp.OCRAInput{})
			}
		}
	})
	if p != "" {
		return "panic:" + p, "" // panics are C10's concern
	}
	obs = errStr(err)
	if isValidator {
		obs = fmt.Sprint(vok, "|", obs)
		if ps := pairShape(vok, err); ps != "" {
			return obs, "ambiguous verdict " + ps
		}
	}
	if err == nil {
		return obs, ""
	}
	if l := leaks(errText(err), c.Secret, key, accepted); l != "" {
		return obs, "error text discloses " + l
	}
	if st := strings.ToLower(strings.TrimSpace(c.Secret)); len(st) >= 8 && strings.Contains(strings.ToLower(errText(err)), st) {
		return obs, "error text echoes the submitted secret text"
	}
	return obs, ""
}

func c13(r *ev.Run) {
	r.Scenario("parameter-sweep", func(raw []byte) (string, string) { return sweepCall(unjson[c13Sweep](raw)) })
	r.Scenario("failing-op", func(raw []byte) (string, string) { return failingOp(unjson[c13Case](raw)) })
	r.Scenario("rest-error-body", func(raw []byte) (string, string) {
		q := unjson[rreq](raw)
		resp := restDo(nil, q.Method, q.uri(), q.body())
		sct, _ := fstr(q.Fields, "secret")
		_, key := ref.B32Classify(strings.TrimSuffix(sct, "!"))
		if resp.Status >= 400 {
			if l := leaks(resp.Body, sct, key, nil); l != "" {
				return trunc80(resp.Body), "error body discloses " + l
			}
			if st := strings.ToLower(strings.TrimSpace(sct)); len(st) >= 8 && strings.Contains(strings.ToLower(resp.Body), st) {
				return trunc80(resp.Body), "error body echoes the submitted secret"
			}
		}
		return trunc80(resp.Body), ""
	})
	c03(r, true)
	c04(r, true)
	c06(r, true)
	if ReplayOnly {
		return
	}
	ops := []string{"DecodeSecret", "GenerateHOTP", "GenerateTOTP", "GenerateOCRA", "GenerateHOTP-baddigits", "GenerateHOTP-badalgo", "GenerateTOTP-badalgo", "GenerateOCRA-badinput", "GenerateOCRA-badsuite", "GenerateTOTPURL-noissuer", "GenerateHOTPURL-noaccount", "ParseOTPAuthURL-baddigits", "ParseOTPAuthURL-badalgo", "ParseOTPAuthURL-badperiod", "ParseOTPAuthURL-repeated-secret", "ParseOTPAuthURL-two-secrets", "ParseOTPAuthURL-repeated-everything", "ParseOTPAuthURL-badtype", "ParseOTPAuthURL-nolabelcolon", "ParseOTPAuthURL-emptylabel", "ParseOTPAuthURL-nopath", "ParseOTPAuthURL-badscheme", "ParseOTPAuthURL-secret-in-label", "ParseOTPAuthURL-hugedigits", "HexInputToOCRA-bad", "NewSuite-bad", "ValidateOCRA-badinput", "ValidateTOTP-badskew", "ValidateHOTP-wronglen"}
	var secs []string
	for _, n := range []int{5, 10, 20, 32, 64} {
		key := filler(r.Seed, "c13", n)
		sp := spellings(key)
		secs = append(secs, sp[0], sp[2], sp[0][:len(sp[0])-1]+"1", "0"+sp[0][1:], sp[0][:len(sp[0])/2]+"!"+sp[0][len(sp[0])/2:], sp[0]+"A")
	}
	var n int64
	errs := map[string]bool{}
	for _, op := range ops {
		for _, s := range secs {
			c := c13Case{Op: op, Secret: s}
			obs, bad := failingOp(c)
			n++
			if bad != "" {
				r.Fail("failing-op", op+": "+bad, c, bad, obs)
			}
			errs[op+"|"+obs] = true
			r.DistinctS(op + obs)
		}
	}
	// parameter-grid sweep: every operation that is given a secret, over a grid of all its other parameters; whatever
	// returns an error is inspected (a change may make a call fail that never failed before)
	var sw, swErrs int64
	for _, op := range []string{"GenerateHOTP", "GenerateTOTP", "ValidateHOTP", "ValidateTOTP", "GenerateURL", "ParseURL", "OCRA"} {
		dims := sweepDims(op)
		total := 1
		for _, d := range dims {
			total *= d
		}
		for si, sct := range secs {
			if si%6 > 1 && si%6 != 4 {
				continue // per key length: canonical, lower-case and one malformed spelling
			}
			for k := 0; k < total; k++ {
				ix := make([]int, len(dims))
				x := k
				for d := range dims {
					ix[d] = x % dims[d]
					x /= dims[d]
				}
				c := c13Sweep{op, sct, ix}
				obs, bad := sweepCall(c)
				sw++
				if obs != "<nil>" {
					swErrs++
				}
				if bad != "" {
					r.Fail("parameter-sweep", fmt.Sprintf("%s %v: %s", op, ix, bad), c, bad, obs)
				}
			}
		}
	}
	n += sw
	r.Set("parameter_sweep_calls", sw)
	r.Set("parameter_sweep_failing_calls_inspected", swErrs)
	// REST error bodies are error reports too: failing requests must not echo the secret or an accepted code
	restInit13()
	for _, sct := range secs {
		_, key := ref.B32Classify(sct)
		for _, q := range []rreq{
			{Method: "POST", Path: "/hotp/generate", Fields: map[string]any{"secret": sct + "!", "counter": 1}},
			{Method: "POST", Path: "/totp/generate", Fields: map[string]any{"secret": sct + "!", "timestamp": 59}},
			{Method: "POST", Path: "/ocra/generate", Fields: map[string]any{"secret": sct, "raw_suite": "OCRA-1:HOTP-SHA1-6:QN08", "input": map[string]any{"challenge_hex": "00"}}},
			{Method: "POST", Path: "/ocra/generate", Fields: map[string]any{"secret": sct + "!", "raw_suite": "OCRA-1:HOTP-SHA1-6:QN08", "input": map[string]any{"challenge_hex": "3132333435363738"}}},
			{Method: "POST", Path: "/ocra/generate", Fields: map[string]any{"secret": sct, "raw_suite": "nonsense", "input": map[string]any{}}},
			{Method: "POST", Path: "/otp/url", Fields: map[string]any{"type": "xotp", "secret": sct, "issuer": "I", "account_name": "a"}},
			{Method: "POST", Path: "/otp/url", Fields: map[string]any{"type": "totp", "secret": sct, "issuer": " ", "account_name": "a"}},
			{Method: "PUT", Path: "/hotp/validate", Fields: map[string]any{"secret": sct, "code": "123456"}},
			{Method: "POST", Path: "/hotp/validate", Fields: map[string]any{"secret": sct, "code": " "}},
			{Method: "POST", Path: "/totp/validate", Raw: strPtr(`{"secret":"` + strings.TrimSpace(sct) + `","code":"123456","skew":"x"}`)},
		} {
			resp := restDo(nil, q.Method, q.uri(), q.body())
			n++
			if resp.Status < 400 {
				continue
			}
			var accepted []string
			if key != nil {
				accepted = []string{ref.HOTP(key, 1, 6, 0), ref.HOTP(key, ref.Step(59, 30), 6, 0)}
			}
			body := resp.Body
			if l := leaks(body, sct, key, accepted); l != "" && q.Path != "/otp/url" {
				r.Fail("rest-error-body", q.Path+": error body discloses "+l, q, "no secret / accepted code in an error response", trunc80(body))
			}
			if st := strings.ToLower(strings.TrimSpace(sct)); len(st) >= 8 && strings.Contains(strings.ToLower(body), st) && q.Path != "/otp/url" {
				r.Fail("rest-error-body", q.Path+": error body echoes the submitted secret", q, "no secret in an error response", trunc80(body))
			}
			r.DistinctS(q.Path + fmt.Sprint(resp.Status))
		}
	}
	r.Eval(n)
	r.Set("failing_ops", len(ops))
	r.Set("distinct_error_texts", len(errs))
	r.Sample(map[string]any{"clause": "verdict shape", "oracle": "every validator call of the C03/C04/C06 enumerations returns (true,nil) or (false,err!=nil)"})
	r.Sample(c13Case{Op: "GenerateHOTP-baddigits", Secret: secs[0]})
	r.Sample(c13Case{Op: "DecodeSecret", Secret: secs[4]})
	r.Rule(fmt.Sprintf("every validator call of the C03, C04 and C06 enumerations (accepting and rejecting, every failure cause) checked for the (bool, error) pair shape and for disclosure of the secret (base32 any case / raw / hex) or of an accepted code of >= 6 digits in the error text; %d other failing operations x %d secret spellings (valid and malformed) checked for disclosure; distinct = distinct (case, outcome) tuples", len(ops), len(secs)))
	r.Assume("an error text is inspected as a string; wrapped errors are covered through Error()")
}

func strPtr(s string) *string { return &s }

func restInit13() { restHandler() }
