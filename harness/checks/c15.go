package checks

import (
	"fmt"
	"sort"
	"strings"
	"sync/atomic"

	"github.com/ja7ad/otp"
	"github.com/ja7ad/otp/verifharness/ev"
	"github.com/ja7ad/otp/verifharness/ref"
)

func init() { register("C15", "exploration", c15) }

type c15Case struct {
	Name string `json:"name"`
	Kind string `json:"kind"` // registered | grammar | malformed
}

func semEq(a, b shape) string {
	var d []string
	if a.Hash != b.Hash {
		d = append(d, fmt.Sprintf("hash %d vs %d", a.Hash, b.Hash))
	}
	if a.Digits != b.Digits {
		d = append(d, fmt.Sprintf("digits %d vs %d", a.Digits, b.Digits))
	}
	if a.C != b.C || a.Q != b.Q || a.P != b.P || a.S != b.S || a.T != b.T {
		d = append(d, fmt.Sprintf("fields %v%v%v%v%v vs %v%v%v%v%v", a.C, a.Q, a.P, a.S, a.T, b.C, b.Q, b.P, b.S, b.T))
	}
	if a.Q && a.QF != b.QF {
		d = append(d, fmt.Sprintf("challenge format %d vs %d", a.QF, b.QF))
	}
	if !a.Q && a.QF != 0 && a.QF != b.QF {
		d = append(d, fmt.Sprintf("challenge format %d set without Q", a.QF))
	}
	if a.P && a.PH != b.PH {
		d = append(d, fmt.Sprintf("password hash %d vs %d", a.PH, b.PH))
	}
	if a.T && a.TS != b.TS {
		d = append(d, fmt.Sprintf("time step %d vs %d", a.TS, b.TS))
	}
	return strings.Join(d, "; ")
}

func suiteFidelity(c c15Case) (obs, bad string) {
	var su otp.Suite
	var err error
	known := false
	var fromRaws otp.SuiteConfig
	p := try(func() {
		su, err = otp.NewRawSuite(c.Name)
		known = otp.IsKnownSuite(c.Name)
		fromRaws = otp.SuiteConfigFromRaws(c.Name)
	})
	if p != "" {
		return "panic:" + p, "panicked: " + p
	}
	rs, rok := ref.ParseSuite(c.Name)
	if err != nil {
		obs = "rejected|" + fmt.Sprint(known)
		if c.Kind == "registered" {
			return obs, "an advertised name must be instantiable"
		}
		if known {
			return obs, "IsKnownSuite says known but NewRawSuite rejects"
		}
		return obs, ""
	}
	got := shapeOfLib(su.Config())
	obs = "accepted|" + got.sig() + "|name=" + su.String() + "|" + fmt.Sprint(known)
	if c.Kind == "malformed" {
		return obs, "a malformed suite string must be rejected"
	}
	if !rok {
		return obs, "accepted a string outside the RFC 6287 naming scheme"
	}
	if su.String() != c.Name || su.Config().Raw != c.Name {
		return obs, "a suite instantiated from a string must report that string as its name"
	}
	if d := semEq(got, shapeOfRef(rs)); d != "" {
		return obs, "configuration differs from what the string says: " + d
	}
	if verr := su.Validate(); verr != nil {
		return obs, "instantiated suite does not validate: " + errText(verr)
	}
	if known {
		fr := shapeOfLib(fromRaws)
		fr.Text = c.Name
		if d := semEq(fr, shapeOfRef(rs)); d != "" {
			return obs, "lookup by name differs from what the string says: " + d
		}
	} else if fromRaws != (otp.SuiteConfig{}) {
		return obs, "lookup by name of an unregistered string must be the zero configuration"
	}
	if c.Kind == "registered" && !known {
		return obs, "advertised name is not known to IsKnownSuite"
	}
	return obs, ""
}

func malformedSuites() []string {
	ok := "OCRA-1:HOTP-SHA1-6:QN08"
	out := []string{"", ":", "::", "OCRA-1", "OCRA-1:HOTP-SHA1-6", "OCRA-1:HOTP-SHA1-6:", ":HOTP-SHA1-6:QN08", "OCRA-1::QN08",
		ok + ":", ok + ":X", ok + ":QN08", "OCRA-1:HOTP-SHA1-6:QN08:C:T1M",
		"OCRA-2:HOTP-SHA1-6:QN08", "OCRA-0:HOTP-SHA1-6:QN08", "OCRA-10:HOTP-SHA1-6:QN08", "OCRA-12:HOTP-SHA1-6:QN08", "OCRA-1x:HOTP-SHA1-6:QN08", "OCRA-1 :HOTP-SHA1-6:QN08", "OCRA:HOTP-SHA1-6:QN08", "OCRA-:HOTP-SHA1-6:QN08", "XOCRA-1:HOTP-SHA1-6:QN08",
		"OCRA-1:HOTP-MD5-6:QN08", "OCRA-1:HOTP-SHA384-6:QN08", "OCRA-1:HOTP-SHA1:QN08", "OCRA-1:HOTP-SHA1-:QN08", "OCRA-1:HOTP-SHA1-x:QN08", "OCRA-1:HOTP-SHA1-six:QN08", "OCRA-1:TOTP-SHA1-6:QN08", "OCRA-1:HOTP-6:QN08", "OCRA-1:SHA1-6:QN08", "OCRA-1:HOTP-SHA1-6-7:QN08", "OCRA-1:HOTP-SHA-6:QN08",
		"OCRA-1:HOTP-SHA1-6:X", "OCRA-1:HOTP-SHA1-6:Q", "OCRA-1:HOTP-SHA1-6:QX08", "OCRA-1:HOTP-SHA1-6:QN99", "OCRA-1:HOTP-SHA1-6:QN8", "OCRA-1:HOTP-SHA1-6:QN", "OCRA-1:HOTP-SHA1-6:QN080", "OCRA-1:HOTP-SHA1-6:QA", "OCRA-1:HOTP-SHA1-6:QH99",
		"OCRA-1:HOTP-SHA1-6:QN08-PSHA384", "OCRA-1:HOTP-SHA1-6:QN08-PMD5", "OCRA-1:HOTP-SHA1-6:QN08-P", "OCRA-1:HOTP-SHA1-6:QN08-PSHA",
		"OCRA-1:HOTP-SHA1-6:QN08-T", "OCRA-1:HOTP-SHA1-6:QN08-TS", "OCRA-1:HOTP-SHA1-6:QN08-T1X", "OCRA-1:HOTP-SHA1-6:QN08-T0S", "OCRA-1:HOTP-SHA1-6:QN08-TxM", "OCRA-1:HOTP-SHA1-6:QN08-T-1S",
		"OCRA-1:HOTP-SHA1-6:QN08-SXYZ", "OCRA-1:HOTP-SHA1-6:QN08-SHA1", "OCRA-1:HOTP-SHA1-6:QN08-S06", "OCRA-1:HOTP-SHA1-6:QN08-S0644", "OCRA-1:HOTP-SHA1-6:QN08-SESSION",
		"OCRA-1:HOTP-SHA1-6:QN08-", "OCRA-1:HOTP-SHA1-6:-QN08", "OCRA-1:HOTP-SHA1-6:QN08--T1M", "OCRA-1:HOTP-SHA1-6:C-", "OCRA-1:HOTP-SHA1-6:CQN08", "OCRA-1:HOTP-SHA1-6:QN08 ", " OCRA-1:HOTP-SHA1-6:QN08",
		"OCRA-1:HOTP-SHA1-3:QN08", "OCRA-1:HOTP-SHA1-11:QN08", "OCRA-1:HOTP-SHA1-0:QN08", "OCRA-1:HOTP-SHA1--6:QN08"}
	return out
}

// tokenGrid writes each token of the naming scheme in many notations inside otherwise valid strings.
func tokenGrid() []string {
	nums := []string{"1", "01", "001", "2", "30", "59", "60", "048", "1.5", ".5", "1.", "1.0", "1e1", "1E1", "+1", "-1", "1_0", "0x1", "0X1F", "0b1", "0o1", "\uff11", "", "1 ", " 1", "99999999999999999999", "1,5", "1/2"}
	units := []string{"S", "M", "H", "", "MS", "US", "NS", "\u00b5S", "D", "W", "Y", "SS", "HM", "MIN", "SEC", "s", "m", "h", "ms"}
	var toks []string
	for _, n := range nums {
		for _, u := range units {
			toks = append(toks, "T"+n+u)
		}
	}
	// numbers whose product with the unit wraps around 2^64 / 2^63 / 2^32 / 2^31 / 2^16 to something small
	for _, w := range []uint64{1 << 16, 1 << 31, 1 << 32, 1 << 62, 1 << 63} {
		for _, m := range []uint64{1, 60, 3600} {
			for _, u := range []string{"S", "M", "H"}[map[uint64]int{1: 0, 60: 1, 3600: 2}[m] : map[uint64]int{1: 0, 60: 1, 3600: 2}[m]+1] {
				toks = append(toks, fmt.Sprintf("T%d%s", w/m+1, u), fmt.Sprintf("T%d%s", w/m, u), fmt.Sprintf("T%d%s", (w+30*m)/m, u))
			}
		}
	}
	// numbers between 2^63 and 2^64 themselves (an unsigned parse takes them, a signed conversion makes them negative,
	// and products with 60 / 3600 then wrap to small positive steps)
	for _, v := range []string{"9223372036854775807", "9223372036854775808", "9223372036854775809", "9223372036854775868", "9223372036854779408", "13835058055282163712", "18446744073709551555", "18446744073709551615", "18446744073709551616"} {
		for _, u := range []string{"S", "M", "H", ""} {
			toks = append(toks, "T"+v+u)
		}
	}
	toks = append(toks, "T307445734561825861M", "T5124095576030432H", "T307445734561825862M", "T18446744073709551617S", "T18446744073709551646S", "T36893488147419103233S")
	toks = append(toks, "T1H30M", "T1M30S", "T1H1M1S", "T1S1S", "T1H-30M", "T30M1H", "T1M 30S", "T1HM", "T1.5H30M", "TT1M", "T1MT1M")
	var out []string
	for _, t := range toks {
		out = append(out, "OCRA-1:HOTP-SHA1-6:QN08-"+t, "OCRA-1:HOTP-SHA512-8:C-QA10-PSHA1-S064-"+t)
	}
	for _, d := range []string{"6", "06", "006", "+6", "-6", "6.0", "6.", "0x6", "6 ", " 6", "\uff16", "1e1", "10", "010", "0x0A", "6_", "1_0", "٦",
		"262", "264", "518", "65542", "4294967302", "18446744073709551622", "9223372036854775814", "18446744073709551610", "-250", "-4294967290", "0o6", "0b110", "1_0", "00000000000000000000006"} {
		out = append(out, "OCRA-1:HOTP-SHA1-"+d+":QN08", "OCRA-1:HOTP-SHA256-"+d+":C-QH10-T1M")
	}
	for _, q := range []string{"QN08", "QN8", "QN008", "QN+8", "QN10", "QN010", "QN0x8", "QN08.0", "QN 8", "Q N08", "QN1e1", "QN-8", "QA08", "QH10", "QB08", "QN09", "QN16", "QN64", "QNN08", "Q08", "QN08QN08"} {
		out = append(out, "OCRA-1:HOTP-SHA1-6:"+q, "OCRA-1:HOTP-SHA1-6:C-"+q+"-T1M")
	}
	for _, p := range []string{"PSHA1", "PSHA01", "PSHA-1", "PSHA256", "PSHA0256", "PSHA+1", "PSHA1.0", "PSHA512/256", "PSHA224", "PSHA384", "PSHA3", "PSHA2", "PSHA5", "PSHA", "PSHA1 ", "PSHA1PSHA1", "PMD5", "PSHA512256"} {
		out = append(out, "OCRA-1:HOTP-SHA1-6:QN08-"+p, "OCRA-1:HOTP-SHA1-6:C-QN08-"+p+"-S064-T1M")
	}
	for _, x := range []string{"S", "S064", "S64", "S0064", "S+64", "S06.4", "S0x4", "S-64", "S\uff16\uff140", "S000", "S999", "S128", "S512", "S1e2", "S 64", "S064S064", "SS", "S06A"} {
		out = append(out, "OCRA-1:HOTP-SHA1-6:QN08-"+x, "OCRA-1:HOTP-SHA1-6:QN08-"+x+"-T1M")
	}
	for _, h := range []string{"SHA1", "SHA01", "SHA-1", "SHA256", "SHA512", "SHA224", "SHA384", "SHA3", "SHA2", "SHA5", "SHA512/256", "SHA1 ", "sha1", "Sha256", "SHA1.0", "SHA+1", "SHA0x1"} {
		out = append(out, "OCRA-1:HOTP-"+h+"-6:QN08")
	}
	for _, v := range []string{"OCRA-1", "OCRA-01", "OCRA-1.0", "OCRA-+1", "OCRA-1 ", "OCRA-0x1", "OCRA-\uff11", "ocra-1", "Ocra-1", "OCRA-1e0", "OCRA-2", "OCRA--1"} {
		out = append(out, v+":HOTP-SHA1-6:QN08")
	}
	return out
}

func c15(r *ev.Run) {
	r.Scenario("suite-fidelity", func(raw []byte) (string, string) { return suiteFidelity(unjson[c15Case](raw)) })
	r.Scenario("concurrent-parse", func(raw []byte) (string, string) {
		// replay = the same sweep on a small sample
		names := []string{"OCRA-1:HOTP-SHA1-7:C", "OCRA-1:HOTP-SHA256-8:QN10-PSHA1", "OCRA-1:HOTP-SHA512-6:C-QN08-S064-T5M", "OCRA-1:HOTP-SHA1-9:QN08-T30S"}
		alone := make([]string, len(names))
		for i, n := range names {
			alone[i], _ = suiteFidelity(c15Case{n, "grammar"})
		}
		var mism atomic.Int64
		ev.Par(16, func(w int) {
			for rep := 0; rep < 20000; rep++ {
				k := (w + rep) % len(names)
				if obs, _ := suiteFidelity(c15Case{names[k], "grammar"}); obs != alone[k] {
					mism.Add(1)
				}
			}
		})
		if mism.Load() > 0 {
			return "mismatches", "a suite string parsed concurrently with others gives another configuration"
		}
		return "ok", ""
	})
	r.Scenario("registry-stable", func(raw []byte) (string, string) { return registryStable() })
	{
		var cs []c15Case
		for _, n := range []string{"OCRA-1:HOTP-SHA1-6:QN08", "OCRA-1:HOTP-SHA512-8:C-QN08-PSHA1", "OCRA-1:HOTP-SHA256-8:QA08-S064-T1M", "OCRA-1:HOTP-SHA1-7:QN08", "ocra-1:hotp-sha256-9:c-qh10-psha512-s128-t48h", "OCRA-1:HOTP-SHA1-6:QN08-T90S", "OCRA-2:HOTP-SHA1-6:QN08", "OCRA-1:HOTP-SHA1-6:QN08-T1.5M", "OCRA-1:HOTP-SHA1-11:QN08", ""} {
			cs = append(cs, c15Case{n, "grammar"})
		}
		afterWarmups(r, "suite-fidelity-after-other-operations", cs, suiteFidelity)
	}
	volume(r, "suite-fidelity-volume", 1100, func(k int) c15Case {
		return c15Case{fmt.Sprintf("OCRA-1:HOTP-SHA%s-%d:%sQN%s%s-T%d%s", []string{"1", "256", "512"}[k%3], 4+k%7, []string{"", "C-"}[k%2], []string{"08", "10"}[(k/2)%2], []string{"", "-PSHA1", "-S064"}[(k/3)%3], 1+k/24, []string{"S", "M", "H"}[(k/4)%3]), "grammar"}
	}, suiteFidelity)
	if ReplayOnly {
		return
	}
	// (1) advertised names
	names := otp.ListSuites()
	seen := map[string]bool{}
	for _, n := range names {
		if seen[n] {
			r.Fail("suite-fidelity", "duplicate-advertised "+n, c15Case{n, "registered"}, "no duplicates", n)
		}
		seen[n] = true
	}
	sort.Strings(names)
	reg := otp.VerifKnownSuites()
	if len(reg) != len(names) {
		r.Fail("suite-fidelity", "list-vs-registry-size", c15Case{"", "registered"}, fmt.Sprint(len(reg)), fmt.Sprint(len(names)))
	}
	for n := range reg {
		if !seen[n] {
			r.Fail("suite-fidelity", "registry-entry-not-advertised "+n, c15Case{n, "registered"}, "advertised", "missing from ListSuites")
		}
	}
	var n1 int64
	for _, n := range names {
		c := c15Case{n, "registered"}
		obs, bad := suiteFidelity(c)
		n1++
		if bad != "" {
			r.Fail("suite-fidelity", "registered "+n+": "+bad, c, bad, obs)
		}
		r.DistinctS(obs)
	}
	// other letter-case spellings of the advertised names go through the parser: same meaning (or rejected)
	for i, n := range names {
		for _, v := range []string{strings.ToLower(n), strings.ToUpper(n[:7]) + strings.ToLower(n[7:]), caseMask(n, 0x5555555555555555<<uint(i%2))} {
			if v == n {
				continue
			}
			c := c15Case{v, "grammar"}
			obs, bad := suiteFidelity(c)
			n1++
			if _, ok := ref.ParseSuite(v); ok && bad != "" {
				r.Fail("suite-fidelity", "case-variant "+v+": "+bad, c, bad, obs)
			}
		}
	}
	r.Set("advertised_names", len(names))
	// (2) the grammar
	gs := grammarStrings(r.Thorough())
	r.Set("grammar_strings", len(gs))
	var accepted, rejected int64
	chunks := 1 // sequential on purpose: the registry is package-level state; concurrent use is C11's subject
	ev.Par(chunks, func(k int) {
		var local, acc, rej int64
		for i := k; i < len(gs); i += chunks {
			c := c15Case{gs[i], "grammar"}
			obs, bad := suiteFidelity(c)
			local++
			if bad != "" {
				r.Fail("suite-fidelity", "grammar "+gs[i]+": "+bad, c, bad, obs)
			}
			if obs[0] == 'a' {
				acc++
				r.DistinctS(obs)
			} else {
				rej++
			}
			// lower-case spelling of the same string must mean the same thing or be rejected
			if i%16 == 0 {
				lc := c15Case{strings.ToLower(gs[i]), "grammar"}
				obs, bad := suiteFidelity(lc)
				local++
				if bad != "" {
					r.Fail("suite-fidelity", "grammar-lowercase "+lc.Name+": "+bad, lc, bad, obs)
				}
			}
		}
		r.Eval(local)
		r.Add("grammar_accepted", acc)
		r.Add("grammar_rejected", rej)
		_, _ = accepted, rejected
	})
	// the advertised list must not move while strings are being parsed
	if obs, bad := registryStable(); bad != "" {
		r.Fail("registry-stable", bad, c15Case{"", "registry"}, "ListSuites / IsKnownSuite / SuiteConfigFromRaws unaffected by parsing", obs)
	}
	after := otp.ListSuites()
	sort.Strings(after)
	if strings.Join(after, ",") != strings.Join(names, ",") {
		r.Fail("registry-stable", "advertised list changed during the run", c15Case{"", "registry"}, fmt.Sprint(len(names), " names"), fmt.Sprint(len(after), " names"))
	}
	// concurrent sweep (auxiliary to the scheduler-based C11): the same grammar strings parsed from 16 goroutines at once
	// must give what they give alone
	{
		var sample []string
		for i := 0; i < len(gs); i += len(gs)/400 + 1 {
			sample = append(sample, gs[i])
		}
		alone := make([]string, len(sample))
		for i, n := range sample {
			alone[i], _ = suiteFidelity(c15Case{n, "grammar"})
		}
		var mism atomic.Int64
		var first atomic.Value
		ev.Par(16, func(w int) {
			for rep := 0; rep < 30; rep++ {
				for i := range sample {
					k := (i*7 + w*13 + rep) % len(sample)
					if obs, _ := suiteFidelity(c15Case{sample[k], "grammar"}); obs != alone[k] {
						if mism.Add(1) == 1 {
							first.Store(sample[k] + ": alone " + alone[k] + ", concurrently " + obs)
						}
					}
				}
			}
		})
		r.Eval(int64(16 * 30 * len(sample)))
		if mism.Load() > 0 {
			r.Fail("concurrent-parse", "a suite string parsed concurrently with others gives another configuration", c15Case{"", "concurrent"}, "the configuration it gives alone", fmt.Sprint(first.Load()))
		}
	}
	// (3) malformed strings
	verdicts := map[string]string{}
	for _, m := range malformedSuites() {
		c := c15Case{m, "malformed"}
		obs, bad := suiteFidelity(c)
		n1++
		verdicts[m] = strings.SplitN(obs, "|", 2)[0]
		if bad != "" {
			r.Fail("suite-fidelity", "malformed "+m, c, bad, obs)
		}
		r.DistinctS("malformed:" + m)
	}
	// (4) token grid: every token slot of the scheme written in many number / unit notations (leading zeros, signs,
	// fractions, exponents, other bases, separators, compound and foreign units); judged by the independent parser:
	// whatever is accepted must be inside the scheme and mean what it says
	var tg int64
	for _, name := range tokenGrid() {
		c := c15Case{name, "grammar"}
		obs, bad := suiteFidelity(c)
		tg++
		if bad != "" {
			r.Fail("suite-fidelity", "token-grid "+name+": "+bad, c, bad, obs)
		}
	}
	// (5) edit neighbourhood: every single-BYTE substitution (all 256 values), insertion (47-character alphabet), deletion and adjacent
	// transposition of a set of well-formed strings - one wrong character anywhere must be noticed, never approximated
	var en atomic.Int64
	bases := []string{"OCRA-1:HOTP-SHA1-6:QN08", "OCRA-1:HOTP-SHA256-8:C-QA10-PSHA256-S064-T1M", "OCRA-1:HOTP-SHA512-10:QH10-T48H", "OCRA-1:HOTP-SHA1-7:C-QN10-PSHA1", "OCRA-1:HOTP-SHA512-4:QA08-S128-T30S", "ocra-1:hotp-sha256-9:c-qh08-psha512-s512-t5m"}
	const editAlpha = "ABCDEFGHIJKLMNOPQRSTUVWXYZ0123456789-:+. _anqx"
	ev.Par(len(bases), func(bi int) {
		b := bases[bi]
		seen := map[string]bool{}
		try1 := func(name string) {
			if seen[name] {
				return
			}
			seen[name] = true
			c := c15Case{name, "grammar"}
			obs, bad := suiteFidelity(c)
			en.Add(1)
			if bad != "" {
				r.Fail("suite-fidelity", "edit-neighbour "+name+": "+bad, c, bad, obs)
			}
		}
		// substitution by EVERY byte value and by the non-ASCII letters that Unicode case mapping folds onto ASCII
		// ones (U+017F long s -> S, U+0131 dotless i -> I, U+212A Kelvin sign -> k)
		for i := 0; i < len(b); i++ {
			for v := 0; v < 256; v++ {
				try1(b[:i] + string([]byte{byte(v)}) + b[i+1:])
			}
			for _, u := range []string{"\u017f", "\u0131", "\u212a", "\u0130", "\uff11", "\u0661"} {
				try1(b[:i] + u + b[i+1:])
				try1(b[:i] + u + b[i:])
			}
		}
		for i := 0; i <= len(b); i++ {
			for k := 0; k < len(editAlpha); k++ {
				ch := editAlpha[k : k+1]
				try1(b[:i] + ch + b[i:])
				if i < len(b) {
					try1(b[:i] + ch + b[i+1:])
				}
			}
			if i < len(b) {
				try1(b[:i] + b[i+1:])
			}
			if i+1 < len(b) {
				try1(b[:i] + b[i+1:i+2] + b[i:i+1] + b[i+2:])
			}
		}
	})
	r.Eval(en.Load())
	r.Set("edit_neighbour_strings", en.Load())
	r.Eval(tg)
	r.Set("token_grid_strings", tg)
	r.Eval(n1)
	r.Set("malformed_verdicts", verdicts)
	r.Sample(map[string]any{"case": c15Case{"OCRA-1:HOTP-SHA256-8:C-QA10-PSHA256-S-T1", "registered"}, "ref": shapeOfRef(func() ref.OCRASuite { s, _ := ref.ParseSuite("OCRA-1:HOTP-SHA256-8:C-QA10-PSHA256-S-T1"); return s }())})
	r.Sample(map[string]any{"case": c15Case{"OCRA-1:HOTP-SHA512-7:C-QN10-PSHA512-S064-T59M", "grammar"}})
	r.Sample(map[string]any{"case": c15Case{"OCRA-12:HOTP-SHA1-6:QN08", "malformed"}, "want": "rejected"})
	r.Rule("all advertised names, every string of the RFC 6287 naming grammar (digits 0..11, all field combinations, boundary time values; thorough: every time value 1..59S/M, 1..48H) and a list of malformed classes through NewRawSuite/IsKnownSuite/SuiteConfigFromRaws vs an independent parser of the naming scheme; accepted => configuration and name equal what the string says; distinct = distinct accepted configurations + malformed classes")
	r.Assume("a bare 'S' and a unit-less 'T<n>' (both used by the library's own registry) are read as 'session included' and 'n seconds'")
}

var registryProbe int

// registryStable parses a never-seen-before (unregistered) suite string and checks that the
// advertised list, the known-suite test and lookup by name are what they were before.
func registryStable() (obs, bad string) {
	registryProbe++
	name := fmt.Sprintf("OCRA-1:HOTP-SHA256-7:QN10-T%dS", 1000+registryProbe)
	before := otp.ListSuites()
	knownBefore := otp.IsKnownSuite(name)
	_, err := otp.NewRawSuite(name)
	after := otp.ListSuites()
	obs = fmt.Sprint(len(before), "->", len(after), " known:", knownBefore, "->", otp.IsKnownSuite(name), " err:", err != nil)
	if len(after) != len(before) {
		return obs, fmt.Sprintf("instantiating %s changed the advertised list from %d to %d names", name, len(before), len(after))
	}
	if otp.IsKnownSuite(name) != knownBefore {
		return obs, "instantiating " + name + " changed the known-suite test for it"
	}
	if otp.SuiteConfigFromRaws(name) != (otp.SuiteConfig{}) {
		return obs, "lookup by name of the unregistered " + name + " is not the zero configuration"
	}
	// the advertised list is the caller's: filtering it in place / overwriting entries must not change what is advertised next
	mine := otp.ListSuites()
	kept := mine[:0]
	for i, n := range mine {
		if i%3 == 0 {
			kept = append(kept, n)
		}
	}
	for i := range mine {
		mine[i] = "OCRA-1:HOTP-SHA1-6:overwritten-by-the-caller"
	}
	_ = kept
	for round := 0; round < 2; round++ {
		next := otp.ListSuites()
		reg := otp.VerifKnownSuites()
		seen := map[string]bool{}
		for _, n := range next {
			if _, ok := reg[n]; !ok || seen[n] {
				return obs, fmt.Sprintf("after a caller modified the list it was given, ListSuites advertises %q (unknown or duplicate)", n)
			}
			seen[n] = true
		}
		if len(next) != len(reg) {
			return obs, fmt.Sprintf("after a caller modified the list it was given, ListSuites advertises %d names, the registry holds %d", len(next), len(reg))
		}
		sort.Strings(next) // sorting one's own copy is a modification too
	}
	return obs, ""
}
