package checks

import (
	"bytes"
	"crypto/rand"
	"fmt"
	"io"
	"runtime"
	"strings"
	"time"

	"github.com/ja7ad/otp"
	"github.com/ja7ad/otp/verifharness/ev"
	"github.com/ja7ad/otp/verifharness/ref"
	"github.com/ja7ad/otp/verifharness/xplore"
)

func init() { register("C08", "model_checking", c08) }

// recReader is the random source the harness owns: it serves a chosen stream, records
// how much was consumed, and answers each Read with as many bytes as the explorer decides.
type recReader struct {
	stream []byte
	off    int
	reads  int
	x      *xplore.X // nil: always full reads
}

func (r *recReader) Read(p []byte) (int, error) {
	r.reads++
	n := len(p)
	if r.x != nil && n > 1 {
		n -= r.x.Choose(n, true) // choice 0 = full read; k = k bytes short (at least 1 byte is delivered)
	}
	for i := 0; i < n; i++ {
		p[i] = r.stream[(r.off+i)%len(r.stream)]
	}
	r.off += n
	return n, nil
}

type c08Case struct {
	Algos   []int  `json:"algos"` // call history
	Stream  []byte `json:"stream"`
	Choices []int  `json:"short_read_choices,omitempty"`
	Strings bool   `json:"render_enum_values_first,omitempty"`
	AppDef  int    `json:"application_assigned_defaults,omitempty"` // k > 0: the exported default parameter structs hold variant k
	GC      bool   `json:"collect_garbage_and_run_finalizers_after_every_call,omitempty"`
}

// collectAndFinalize is the environment event "a garbage collection happens and every pending finalizer runs",
// made deterministic: two rounds of (collect, wait until a sentinel registered before the collection has been
// finalized - finalizers run one after the other on one goroutine).
func collectAndFinalize() {
	for round := 0; round < 2; round++ {
		done := make(chan struct{})
		s := new([32]byte)
		runtime.SetFinalizer(s, func(*[32]byte) { close(done) })
		s = nil
		runtime.GC()
		select {
		case <-done:
		case <-time.After(5 * time.Second):
		}
	}
}

// secretHistory runs a history of RandomSecret calls on one stream and checks every result.
func secretHistory(c c08Case, x *xplore.X) (obs, bad string) {
	if c.AppDef > 0 {
		// the size of a secret is a function of the ARGUMENT alone, whatever an application has put into the exported
		// default parameter structs (which say nothing about secrets)
		sh, st := *otp.DefaultHOTPParam, *otp.DefaultTOTPParam
		v := [][2]otp.Param{
			{{Digits: 8, Algorithm: otp.SHA256}, {Digits: 8, Algorithm: otp.SHA512, Period: 60}},
			{{Digits: 6, Algorithm: otp.SHA512}, {Digits: 6, Algorithm: otp.SHA256, Period: 30}},
			{{Digits: 6, Algorithm: otp.Algorithm(9)}, {Digits: 6, Algorithm: otp.Algorithm(9), Period: 30}},
		}[(c.AppDef-1)%3]
		*otp.DefaultHOTPParam, *otp.DefaultTOTPParam = v[0], v[1]
		defer func() { *otp.DefaultHOTPParam, *otp.DefaultTOTPParam = sh, st }()
	}
	rr := &recReader{stream: c.Stream, x: x}
	old := rand.Reader
	rand.Reader = rr
	defer func() { rand.Reader = old }()
	type kept struct {
		s, clone string
		want     []byte
		call     int
	}
	var keep []kept
	for i, a := range c.Algos {
		if c.Strings {
			// rendering an enum value (logging) must not change what RandomSecret does with it
			_ = otp.Algorithm(a).String()
			_ = fmt.Sprint(otp.Algorithm(a), otp.Digits(a))
			_ = otp.AlgorithmFromStr(otp.Algorithm(a).String())
		}
		before := rr.off
		var s string
		var err error
		if p := try(func() { s, err = otp.RandomSecret(otp.Algorithm(a)) }); p != "" {
			return obs + "panic:" + p, "panicked: " + p
		}
		obs += fmt.Sprintf("[%d:%s|%s|%d]", a, strings.Clone(s), errStr(err), rr.off-before)
		sNow := strings.Clone(s)
		if c.GC {
			// whatever the library has arranged to happen "once nobody needs this any more" happens now, while the
			// caller still holds the secret
			collectAndFinalize()
			if s != sNow {
				return obs, fmt.Sprintf("call %d: the secret read %q when it was returned and reads %q after a garbage collection (the caller still holds it)", i, sNow, s)
			}
		}
		n := ref.HashLen(a)
		if n == 0 {
			if err == nil || s != "" {
				return obs, fmt.Sprintf("call %d: unsupported hash must give (\"\", error)", i)
			}
			if rr.off != before {
				return obs, fmt.Sprintf("call %d: unsupported hash consumed %d random bytes", i, rr.off-before)
			}
			continue
		}
		if err != nil {
			return obs, fmt.Sprintf("call %d: unexpected error", i)
		}
		if rr.off-before != n {
			return obs, fmt.Sprintf("call %d: consumed %d random bytes, want exactly %d (each byte used once)", i, rr.off-before, n)
		}
		want := make([]byte, n)
		for k := 0; k < n; k++ {
			want[k] = c.Stream[(before+k)%len(c.Stream)]
		}
		if s != ref.B32Encode(want) {
			return obs, fmt.Sprintf("call %d: want %s (unpadded upper-case base32 of the next %d stream bytes)", i, ref.B32Encode(want), n)
		}
		dec, derr := otp.DecodeSecret(s)
		if derr != nil || !bytes.Equal(dec, want) {
			return obs, fmt.Sprintf("call %d: DecodeSecret does not map the secret back to the stream bytes", i)
		}
		// the decoded key belongs to the caller: after the caller wipes it, the secret must still decode to
		// the stream bytes, and a code generated from the secret must still be the code of those bytes
		for k := range dec {
			dec[k] = 0
		}
		if d2, e2 := otp.DecodeSecret(s); e2 != nil || !bytes.Equal(d2, want) {
			return obs, fmt.Sprintf("call %d: after the caller wiped the decoded key, DecodeSecret maps the secret to %x, not to the stream bytes", i, d2)
		}
		if code, e3 := otp.GenerateHOTP(s, 1, &otp.Param{Digits: 6, Algorithm: otp.SHA1}); e3 != nil || code != ref.HOTP(want, 1, 6, 0) {
			return obs, fmt.Sprintf("call %d: after the caller wiped the decoded key, GenerateHOTP uses a different key for the secret", i)
		}
		// every secret handed out earlier must still be the secret it was (no shared memory with later calls)
		keep = append(keep, kept{s, strings.Clone(s), want, i})
		for _, k := range keep {
			if k.s != k.clone {
				return obs, fmt.Sprintf("the secret returned by call %d changed after call %d: was %s, now %s", k.call, i, k.clone, k.s)
			}
			if d, e := otp.DecodeSecret(k.s); e != nil || !bytes.Equal(d, k.want) {
				return obs, fmt.Sprintf("the secret returned by call %d no longer decodes to its stream bytes after call %d", k.call, i)
			}
		}
	}
	return obs, ""
}

var _ io.Reader = (*recReader)(nil)

// setRandomSeam (instrumented build) substitutes what crypto/rand.Reader delivers WITHOUT replacing the reader value:
// the library cannot tell the explored stream from the stock source.
var setRandomSeam func(io.Reader) bool

// longStream is a deterministic stream of n bytes without repeated windows in practice (xorshift64*).
func longStream(n int) []byte {
	out := make([]byte, n)
	x := uint64(0x9E3779B97F4A7C15)
	for i := range out {
		x ^= x >> 12
		x ^= x << 25
		x ^= x >> 27
		out[i] = byte((x * 0x2545F4914F6CDD1D) >> 56)
	}
	return out
}

type c08Long struct {
	Algos  []int `json:"algos_cycle"` // call i uses Algos[i % len]
	Calls  int   `json:"calls"`
	Stream int   `json:"stream_bytes"`
}

// randomSeamLog (instrumented build) is the record of every byte the source has delivered through the seam.
var randomSeamLog func() ([]byte, bool)

// seamUsed marks the bytes of that record that are part of a secret handed out during this process; seamLast is the end
// of the most recent one.  (Both span histories: so does whatever the library keeps.)
var seamUsed []bool
var seamLast int

// seamHistory runs a LONG history with the stream delivered through the identity-preserving seam.  The library may
// buffer (read more than one secret's worth, also before the history began): the oracle is that every secret is n
// consecutive bytes of what the source has delivered to the process so far, none of which is part of another secret.
func seamHistory(c c08Long) (obs, bad string) {
	if setRandomSeam == nil || randomSeamLog == nil {
		return "no seam", ""
	}
	rr := &recReader{stream: longStream(c.Stream)}
	if !setRandomSeam(rr) {
		return "seam replaced", ""
	}
	defer setRandomSeam(nil)
	free := func(p, n int) bool {
		for k := p; k < p+n; k++ {
			if k < len(seamUsed) && seamUsed[k] {
				return false
			}
		}
		return true
	}
	secrets := 0
	for i := 0; i < c.Calls; i++ {
		a := c.Algos[i%len(c.Algos)]
		before := rr.off
		var s string
		var err error
		if p := try(func() { s, err = otp.RandomSecret(otp.Algorithm(a)) }); p != "" {
			return obs + "panic:" + p, fmt.Sprintf("call %d panicked: %s", i, p)
		}
		if rr.off > len(rr.stream) {
			return fmt.Sprintf("%d secrets, stream of %d bytes exhausted at call %d", secrets, len(rr.stream), i), ""
		}
		n := ref.HashLen(a)
		if n == 0 {
			if err == nil || s != "" {
				return obs, fmt.Sprintf("call %d: unsupported hash must give (\"\", error)", i)
			}
			if rr.off != before {
				return obs, fmt.Sprintf("call %d: unsupported hash consumed %d random bytes", i, rr.off-before)
			}
			continue
		}
		if err != nil {
			return obs, fmt.Sprintf("call %d: unexpected error %v", i, err)
		}
		v, b := ref.B32Classify(s)
		if v != ref.MustAccept || len(b) != n || s != ref.B32Encode(b) {
			return obs, fmt.Sprintf("call %d: %q is not the unpadded upper-case base32 of %d bytes", i, s, n)
		}
		log, complete := randomSeamLog()
		if !complete {
			return fmt.Sprintf("%d secrets; the record of delivered bytes overflowed", secrets), ""
		}
		if seamLast > len(log) {
			seamLast = 0
		}
		p := -1
		if k := bytes.Index(log[seamLast:], b); k >= 0 && free(seamLast+k, n) {
			p = seamLast + k
		} else {
			for from := 0; from+n <= len(log); {
				k := bytes.Index(log[from:], b)
				if k < 0 {
					break
				}
				if free(from+k, n) {
					p = from + k
					break
				}
				from += k + 1
			}
		}
		if p < 0 {
			return obs, fmt.Sprintf("call %d of the history (hash %d): the secret's bytes %x are not %d consecutive, so far unused bytes of what the random source has delivered to this process (%d bytes delivered, %d secrets in this history before)", i, a, b, n, len(log), secrets)
		}
		for len(seamUsed) < p+n {
			seamUsed = append(seamUsed, false)
		}
		for k := p; k < p+n; k++ {
			seamUsed[k] = true
		}
		seamLast = p + n
		secrets++
		if d, e := otp.DecodeSecret(s); e != nil || !bytes.Equal(d, b) {
			return obs, fmt.Sprintf("call %d: DecodeSecret does not map the secret back to its bytes", i)
		}
	}
	return fmt.Sprintf("%d secrets", secrets), ""
}

// c08Scheduled is set by the instrumented build: interleaved call histories under the cooperative scheduler.
var c08Scheduled func(r *ev.Run, registerOnly bool)

func c08(r *ev.Run) {
	if c08Scheduled != nil {
		c08Scheduled(r, true)
	}
	r.Scenario("random-secret-long-history", func(raw []byte) (string, string) { return seamHistory(unjson[c08Long](raw)) })
	r.Scenario("random-secret", func(raw []byte) (string, string) {
		c := unjson[c08Case](raw)
		var obs, bad string
		xplore.Run(c.Choices, func(x *xplore.X) { obs, bad = secretHistory(c, x) })
		return obs, bad
	})
	{
		tag := make([]byte, 256)
		for i := range tag {
			tag[i] = byte(i*5 + 1)
		}
		var cs []c08Case
		for a := 0; a < 3; a++ {
			cs = append(cs, c08Case{Algos: []int{a}, Stream: tag}, c08Case{Algos: []int{a, (a + 1) % 3, a}, Stream: tag})
		}
		cs = append(cs, c08Case{Algos: []int{3}, Stream: tag}, c08Case{Algos: []int{255, 0}, Stream: tag})
		for v := 1; v <= 3; v++ {
			cs = append(cs, c08Case{Algos: []int{0, 1, 2, 0, 3}, Stream: tag, AppDef: v})
		}
		afterWarmups(r, "random-secret-after-other-operations", cs, func(c c08Case) (string, string) { return secretHistory(c, nil) })
	}
	if ReplayOnly {
		return
	}
	if _, ok := rand.Reader.(io.Reader); !ok {
		r.NotExhaustive("crypto/rand.Reader cannot be substituted")
	}
	fail := func(sig string, c c08Case, x *xplore.X, obs, bad string) {
		if x != nil {
			c.Choices = x.Choices()
		}
		r.Fail("random-secret", sig+": "+bad, c, bad, obs)
	}
	// long histories through the identity-preserving seam: whatever the library does when it believes it is talking to
	// the stock source (read-ahead blocks, batching) - lengths that do not tile any power-of-two block up to 64 KiB
	{
		var ln, lsec int64
		if setRandomSeam == nil {
			r.NotExhaustive("the identity-preserving random seam is not available in this build")
		}
		cycles := [][]int{{0}, {1}, {2}, {0, 1, 2}, {0, 2}, {1, 0, 0}, {2, 3, 0, 255}, {0, 0, 0, 1}}
		calls := 3600
		if r.Thorough() {
			calls = 40000
		}
		for _, cy := range cycles {
			c := c08Long{Algos: cy, Calls: calls, Stream: calls*64 + 1<<17}
			obs, bad := seamHistory(c)
			ln += int64(calls)
			lsec++
			r.Transition(int64(calls))
			r.State(1)
			if bad != "" {
				r.Fail("random-secret-long-history", fmt.Sprintf("cycle of hashes %v through the stock-reader path: %s", cy, bad), c, "every secret is n consecutive unused bytes of what the source delivered", obs+" "+bad)
			}
			r.DistinctS(fmt.Sprint(cy, obs))
		}
		r.Eval(ln)
		r.Set("long_histories_through_identity_preserving_seam", map[string]any{"histories": lsec, "calls_each": calls, "hash_cycles": cycles})
	}
	var n int64
	tag := make([]byte, 256)
	for i := range tag {
		tag[i] = byte(i)
	}
	run := func(sig string, c c08Case) {
		obs, bad := secretHistory(c, nil)
		n++
		r.State(1)
		r.Transition(int64(len(c.Algos)))
		if bad != "" {
			fail(sig, c, nil, obs, bad)
		}
		r.DistinctS(obs)
	}
	// garbage collections with finalizers between the calls of a history, the caller holding every secret
	for a := 0; a < 5; a++ {
		for b := 0; b < 5; b++ {
			run(fmt.Sprintf("history with collections [%d %d]", a, b), c08Case{Algos: []int{[]int{0, 1, 2, 3, 255}[a], []int{0, 1, 2, 3, 255}[b], []int{0, 1, 2, 3, 255}[a]}, Stream: tag, GC: true})
		}
	}
	for a := 0; a < 3; a++ {
		// 256 constant streams, the position-tag stream, every single-position substitution
		for v := 0; v < 256; v++ {
			run("constant-stream", c08Case{Algos: []int{a}, Stream: []byte{byte(v)}})
		}
		run("tag-stream", c08Case{Algos: []int{a}, Stream: tag})
		for i := 0; i < ref.HashLen(a); i++ {
			for v := 0; v < 256; v++ {
				s := append([]byte(nil), tag...)
				s[i] = byte(v)
				run(fmt.Sprintf("substitution pos=%d", i), c08Case{Algos: []int{a}, Stream: s})
			}
		}
		run("seed-stream", c08Case{Algos: []int{a}, Stream: filler(r.Seed, "c08", 251)})
	}
	// all 256 enum values, plain and after the value has been rendered as text
	for a := 0; a < 256; a++ {
		run(fmt.Sprintf("algo=%d", a), c08Case{Algos: []int{a}, Stream: tag})
	}
	for a := 0; a < 256; a++ {
		run(fmt.Sprintf("algo=%d after String()", a), c08Case{Algos: []int{a, a}, Stream: tag, Strings: true})
	}
	// call histories: all sequences of <= 3 calls over {SHA1, SHA256, SHA512, 3, 255} on one stream
	alpha := []int{0, 1, 2, 3, 255}
	var hist func(prefix []int)
	hist = func(prefix []int) {
		if len(prefix) > 0 {
			run(fmt.Sprint("history ", prefix), c08Case{Algos: append([]int(nil), prefix...), Stream: filler(r.Seed, "c08h", 239)})
			run(fmt.Sprint("history+strings ", prefix), c08Case{Algos: append([]int(nil), prefix...), Stream: filler(r.Seed, "c08h", 239), Strings: true})
		}
		if len(prefix) == 3 {
			return
		}
		for _, a := range alpha {
			hist(append(prefix, a))
		}
	}
	hist(nil)
	r.Eval(n)
	// environment answers: short reads of the random source, explored exhaustively
	type sr struct {
		algo, bound int
	}
	plans := []sr{{0, 2}, {1, 2}, {2, 1}}
	if r.Thorough() {
		plans = []sr{{0, -1}, {1, 3}, {2, 2}}
	}
	for _, pl := range plans {
		c := c08Case{Algos: []int{pl.algo, 3, pl.algo}, Stream: tag}
		if pl.bound < 0 {
			c.Algos = []int{pl.algo}
		}
		outcomes := map[string]bool{}
		st := xplore.Explore(xplore.Options{Bound: pl.bound}, func(x *xplore.X) {
			obs, bad := secretHistory(c, x)
			outcomes[obs] = true
			if bad != "" {
				fail(fmt.Sprintf("short-reads algo=%d", pl.algo), c, x, obs, bad)
			}
		}, func(x *xplore.X) bool { return r.Violations() == 0 })
		r.Eval(st.Executions)
		r.State(st.Executions)
		r.Transition(st.Points)
		r.Trace(st.Executions)
		r.Set(fmt.Sprintf("short_read_schedules_algo%d", pl.algo), map[string]any{"bound": pl.bound, "executions": st.Executions, "by_deviations": st.ByCost, "max_points": st.MaxPoints, "distinct_outcomes": len(outcomes)})
		if len(outcomes) != 1 && r.Violations() == 0 {
			r.Fail("random-secret", "short reads change the outcome", c, "1 outcome", fmt.Sprint(len(outcomes)))
		}
	}
	r.Sample(map[string]any{"history": []int{0, 3, 2}, "stream": "byte i = i", "expect": "call 1 = base32(stream[0:20]), call 2 = error and 0 bytes consumed, call 3 = base32(stream[20:84])"})
	r.Sample(map[string]any{"short_read_schedule": []int{19, 0, 5}, "meaning": "first Read returns 1 byte, second returns all it was asked, third is 5 short"})
	if c08Scheduled != nil {
		c08Scheduled(r, false)
	} else {
		r.NotExhaustive("interleaved call histories need the instrumented build")
	}
	r.Rule("the random source is substituted by a recording stream: every constant stream, the position-tag stream with every (position, value) substitution, every enum value, every call history of <= 3 calls over {SHA1,SHA256,SHA512,3,255}; every schedule of short reads of the source within the deviation bound (thorough: all 2^19 compositions of 20 bytes); state = stream offset, transition = one call / one Read; distinct = distinct observed outcomes")
	r.Assume("that the default crypto/rand.Reader is the OS CSPRNG is Go's guarantee; a reader *error* is a fatal crash in go1.24's rand.Read by design and is not explored")
}
