package checks

import (
	"fmt"
	"hash"
	"strings"
	"sync"
	"sync/atomic"
	"unicode/utf8"

	_ "unsafe" // go:linkname

	"github.com/ja7ad/otp"
	"github.com/ja7ad/otp/verifharness/ev"
	"github.com/ja7ad/otp/verifharness/ref"
)

// submissions builds the strings submitted to a window validator: the codes of all
// counters around the window (given), edits of some window codes, structural variants.
func submissions(around []string, window []string, d int) []string {
	seen := map[string]bool{}
	var out []string
	add := func(s string) {
		if !seen[s] {
			seen[s] = true
			out = append(out, s)
		}
	}
	for _, s := range around {
		add(s)
	}
	pick := []int{0, len(window) / 2, len(window) - 1}
	for n, wi := range pick {
		if n > 0 && wi == pick[n-1] {
			continue
		}
		x := window[wi]
		for j := 0; j < len(x); j++ {
			b := []byte(x)
			b[j] = '0' + (b[j]-'0'+1)%10
			add(string(b))
			if j == 0 || j == len(x)-1 {
				for k := byte(2); k <= 9; k++ {
					b[j] = '0' + (x[j]-'0'+k)%10
					add(string(b))
				}
			}
		}
	}
	x := window[len(window)/2]
	if len(x) > 0 {
		add(x[1:])
		add(x[:len(x)-1])
		add("0" + x)
		add(x + "0")
		add(x + x[len(x)-1:])
		add(" " + x)
		add(x + "\n")
		add(" " + x[1:])
		add(x[:len(x)-1] + " ")
		add(x + x)
		add(x + "\x00")
		add(strings.Map(func(r rune) rune { return r - '0' + '０' }, x)) // full-width digits
		add(strings.Map(func(r rune) rune { return r - '0' + '٠' }, x)) // Arabic-Indic digits
		// a Unicode digit string whose BYTE length equals d (when possible)
		if d >= 3 {
			add("０" + x[3:])
		}
	}
	// same BYTE length, but k digits replaced by ONE multi-byte character whose code point has the first replaced
	// digit as its low byte (U+0130 for "0x", U+2030 for "0xx" ...), and byte-level look-alikes: same low nibble,
	// bit 7 / bit 6 flipped (pairs) - a comparison over runes, low bytes, nibbles or sums equates them
	if len(x) > 0 {
		for j := 0; j < len(x); j++ {
			for _, base := range []rune{0x100, 0x2000, 0x10000} {
				r := base + rune(x[j])
				k := utf8.RuneLen(r)
				if j+k <= len(x) {
					add(x[:j] + string(r) + x[j+k:])
				}
			}
			b := []byte(x)
			b[j] = x[j]&0x0F | 0x40
			add(string(b)) // same low nibble ('G' for '7')
			b[j] = x[j] | 0x80
			add(string(b))
			if j+1 < len(x) {
				b[j+1] = x[j+1] | 0x80
				add(string(b)) // two bytes with bit 7 set: their XORs sum to 0 mod 256
				b[j], b[j+1] = x[j]^0x40, x[j+1]^0x40
				add(string(b))
			}
		}
	}
	// strings that a lenient NUMERIC comparison would equate with a window code: a sign or
	// blank in place of a leading zero, and values that differ by a multiple of 2^31 / 2^32
	// (wrap-around of 32-bit integer comparisons) rendered with the same number of digits
	for _, w := range window {
		if len(w) > 1 && w[0] == '0' {
			add("+" + w[1:])
			add("-" + w[1:])
			add(" " + w[1:])
		}
		if len(w) >= 10 {
			var v uint64
			fmt.Sscan(w, &v)
			for _, k := range []uint64{1 << 31, 1 << 32, 3 << 31, 1 << 33} {
				if s := fmt.Sprint(v + k); len(s) == len(w) {
					add(s)
				}
			}
		}
		if len(w) >= 2 {
			add(w[:len(w)-1] + ".")
			add("0x" + w[2:])
		}
	}
	// extensions whose LENGTH is congruent to the right one modulo 2^8 / 2^16 (narrowed length checks)
	if len(x) > 0 {
		for _, n := range []int{256, 512, 65536} {
			add(x + strings.Repeat("0", n))
			add(x + strings.Repeat(x[len(x)-1:], n))
		}
		add(strings.Repeat("0", 256) + x)
	}
	add("")
	add(strings.Repeat("0", d))
	add(strings.Repeat("9", d))
	return out
}

func inSet(s string, set []string) bool {
	for _, x := range set {
		if x == s {
			return true
		}
	}
	return false
}

// derivation counting through the HMAC-constructor seam (sequential use only).
var hmacCtorCalls, derivBase atomic.Int64

// ---- work fuse: a breaker for every validation call of C03/C04 in the parallel enumerations (plain build) ----
//
// All HMAC objects come from the constructor seam.  With the fuse installed the seam counts constructions per
// processor (P), try() re-arms the count of the P it starts on, and a call that drives a P's count beyond
// fuseBudget is cut off with a recognisable panic.  The per-P count is only a TRIGGER (a goroutine may migrate):
// the cut-off case is put on a suspect list and decided afterwards, sequentially and exactly, by
// countDerivations (a window of s <= 10 holds at most 2s+1 <= 21 candidates).  Without the fuse a validation
// loop that never ends would wedge the whole check instead of being reported.
const fuseBudget = 5000
const fuseMsg = "verif-fuse: cut off after more than 5000 HMAC computations on one processor"

//go:linkname procPin runtime.procPin
func procPin() int

//go:linkname procUnpin runtime.procUnpin
func procUnpin()

var (
	fuseOn  atomic.Bool
	fuseCnt [1024]struct {
		n int64
		_ [56]byte
	}
	suspectMu sync.Mutex
	suspects  []any
)

func fuseArm() {
	if !fuseOn.Load() {
		return
	}
	p := procPin()
	fuseCnt[p%1024].n = 0
	procUnpin()
}

func addSuspect(c any) {
	ev.Impatient.Store(true)
	suspectMu.Lock()
	if len(suspects) < 64 {
		suspects = append(suspects, c)
	}
	suspectMu.Unlock()
}

func takeSuspects() []any {
	suspectMu.Lock()
	defer suspectMu.Unlock()
	s := suspects
	suspects = nil
	return s
}

// installFuse replaces the three HMAC constructors by counting ones for the rest of the process.
func installFuse() {
	if fuseOn.Swap(true) {
		return
	}
	for a := 0; a < 3; a++ {
		std := ref.NewHMAC(a)
		otp.VerifSetHMAC(otp.Algorithm(a), func(key []byte) hash.Hash {
			p := procPin()
			fuseCnt[p%1024].n++
			over := fuseCnt[p%1024].n > fuseBudget
			if over {
				fuseCnt[p%1024].n = 0
			}
			procUnpin()
			if over {
				panic(fuseMsg)
			}
			return std(key)
		})
	}
}

// derivBudget bounds the derivations of one counted call: a deterministic breaker for loops over a client-chosen window.
const derivBudget = 500

func countDerivations(f func()) int64 {
	var restores []func()
	for a := 0; a < 3; a++ {
		std := ref.NewHMAC(a) // the standard constructor, plus a counter
		restores = append(restores, otp.VerifSetHMAC(otp.Algorithm(a), func(key []byte) hash.Hash {
			if hmacCtorCalls.Add(1)-derivBase.Load() > derivBudget {
				panic("verif: derivation budget exceeded (unbounded work)")
			}
			return std(key)
		}))
	}
	before := hmacCtorCalls.Load()
	derivBase.Store(before)
	func() {
		defer func() { recover() }() // budget sentinel (or a panic of the code under test, reported elsewhere)
		defer func() {
			for _, r := range restores {
				r()
			}
		}()
		f()
	}()
	return hmacCtorCalls.Load() - before
}

func skewSig(s uint64) string { return fmt.Sprintf("skew=%d", s) }
