// Package checks holds one bounded-exhaustive exploration per property.
package checks

import (
	"encoding/binary"
	"encoding/json"
	"fmt"
	"math/rand"
	"os"
	"path/filepath"
	"strings"
	"time"

	"github.com/ja7ad/otp/verifharness/ev"
	"github.com/ja7ad/otp/verifharness/ref"
)

// Registry maps a property id to its check.
var Registry = map[string]func(r *ev.Run){}

// Levels maps a property id to the evidence level it claims.
var Levels = map[string]string{}

func register(id, level string, f func(r *ev.Run)) {
	Registry[id] = f
	Levels[id] = level
}

// try runs f and reports a panic as text.
func try(f func()) (panicked string) {
	defer func() {
		if x := recover(); x != nil {
			panicked = fmt.Sprint(x)
			if panicked == "" {
				panicked = "panic"
			}
		}
	}()
	fuseArm()
	f()
	return ""
}

func unjson[T any](raw []byte) T {
	var v T
	_ = json.Unmarshal(raw, &v)
	return v
}

// filler returns n deterministic bytes derived from the seed and a tag.
func filler(seed int64, tag string, n int) []byte {
	rng := rand.New(rand.NewSource(seed ^ int64(ev.H(tag))))
	b := make([]byte, n)
	for i := range b {
		b[i] = byte(rng.Intn(256))
	}
	return b
}

// secretBytes is the byte-string alphabet for keys.
func secretContents(seed int64, n int) [][]byte {
	z := make([]byte, n)
	f := make([]byte, n)
	r := make([]byte, n)
	for i := 0; i < n; i++ {
		f[i] = 0xff
		r[i] = byte(i*7 + 1)
	}
	return [][]byte{z, f, r, filler(seed, fmt.Sprint("secret", n), n)}
}

var secretLens = []int{0, 1, 2, 3, 4, 5, 8, 10, 16, 19, 20, 21, 32, 63, 64, 65, 127, 128, 129, 200}

// spellings of one key: unpadded upper, canonical padded, lower-case unpadded, mixed case wrapped in white space.
func spellings(key []byte) []string {
	u := ref.B32Encode(key)
	p := u + strings.Repeat("=", ref.B32Pad(len(u)))
	l := strings.ToLower(u)
	mixed := []byte(u)
	for i := range mixed {
		if i%2 == 1 && mixed[i] >= 'A' && mixed[i] <= 'Z' {
			mixed[i] += 'a' - 'A'
		}
	}
	// (the first four keep their positions: several checks pick spellings by index)
	return []string{u, p, l, " \t" + string(mixed) + "\n", strings.ToLower(p) + " \t\n", "\n" + p + "\n",
		// blanks of different kinds in both orders at one end
		u + "\n \t", " \n\t \n" + l}
}

var counterAlphabet = func() []uint64 {
	var c []uint64
	for i := uint64(0); i <= 12; i++ {
		c = append(c, i)
	}
	for _, m := range []uint64{1 << 31, 1 << 32, 1 << 63} {
		c = append(c, m-1, m, m+1)
	}
	c = append(c, 1<<40, ^uint64(0)-1, ^uint64(0))
	return c
}()

func be8(v uint64) []byte {
	var b [8]byte
	binary.BigEndian.PutUint64(b[:], v)
	return b[:]
}

func errStr(err error) (s string) {
	if err == nil {
		return "<nil>"
	}
	// an error VALUE may be a typed nil pointer whose Error method dereferences it: that is the library's
	// defect (a non-nil error that cannot even be printed), never a reason for the check to crash
	defer func() {
		if p := recover(); p != nil {
			s = fmt.Sprintf("err:<non-nil error of type %T whose Error() panics: %v>", err, p)
		}
	}()
	return "err:" + err.Error()
}

// errText is err.Error() of an error the LIBRARY returned, safe against typed-nil values (see errStr).
func errText(err error) string { return strings.TrimPrefix(errStr(err), "err:") }

// ReplayOnly makes a check register its scenarios and return without exploring.
var ReplayOnly bool

func clone(b []byte) []byte {
	if b == nil {
		return nil
	}
	return append([]byte{}, b...)
}

// ---- liveness of supervised child processes ----
//
// A parent that hands the exploration to child processes records nothing itself until a child is done; so that the
// stall monitor does not mistake a long-running child for a wedge, a child rewrites its marker file as it makes
// progress and the parent turns every change of that file into a beat.  A child that stops making progress stops
// changing the file, and the parent's monitor ends the check as before.

// childBeat is called by a child after each unit of work; it rewrites the marker about once per second.
var childBeatN, childBeatLast int64

func childBeat() {
	childBeatN++
	if childBeatN&1023 != 0 {
		return
	}
	m := os.Getenv("VERIF_BEAT")
	if now := time.Now().Unix(); m != "" && now != childBeatLast {
		childBeatLast = now
		os.WriteFile(m, []byte(fmt.Sprint(childBeatN)), 0o644)
	}
}

// superviseBeat polls a child's marker until stop is closed and calls beat whenever its content changed.
func superviseBeat(marker string, beat func(), stop <-chan struct{}) {
	last := ""
	for {
		select {
		case <-stop:
			os.Remove(marker)
			return
		case <-time.After(2 * time.Second):
		}
		if b, err := os.ReadFile(marker); err == nil && string(b) != last {
			last = string(b)
			beat()
		}
	}
}

// beatMarker names a marker file for child k of this process (inside the per-run work directory).
func beatMarker(k int) string {
	dir := os.Getenv("VERIF_WORK")
	if dir == "" {
		dir = os.TempDir()
	}
	return filepath.Join(dir, fmt.Sprintf("beat.%d.%d", os.Getpid(), k))
}
