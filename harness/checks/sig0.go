package checks

import "syscall"

var syscallZero = syscall.Signal(0)
