//go:build instr

package checks

import (
	"bufio"
	"encoding/json"
	"fmt"
	"os"
	"os/exec"
	"sort"
	"strings"
	"sync"

	"github.com/ja7ad/otp/verifharness/ev"
	"github.com/ja7ad/otp/verifharness/irt"
	"github.com/ja7ad/otp/verifharness/sched"
	"github.com/ja7ad/otp/verifharness/xplore"
)

func init() { register("C11", "model_checking", c11) }

type c11Hist struct {
	Ops   []int    `json:"ops"`
	Names []string `json:"names,omitempty"`
}

type c11Sched struct {
	Scenario string `json:"scenario"`
	Choices  []int  `json:"choices"`
}

type scen struct {
	name    string
	warm    []string   // op names run sequentially first (pre-state)
	threads [][]string // op names per thread
	bound   [2]int     // preemption+deviation bound: quick, thorough
	coarse  bool       // scheduling points only at sync operations (unbounded exploration)
	paused  bool       // scheduling points in thread 0 only: one call paused anywhere while the others complete many calls
}

var c11Scens = []scen{
	{"hotp||hotp", []string{"hotp-c1"}, [][]string{{"hotp-c1"}, {"hotp-c2^40-sha256-8"}}, [2]int{2, 3}, false, false},
	{"hotp||hotp cold", nil, [][]string{{"hotp-10digits"}, {"hotp-1digit"}}, [2]int{2, 3}, false, false},
	{"hotp-gen||hotp-validate", []string{"hotp-c1"}, [][]string{{"hotp-c1"}, {"hotp-validate-hit(-1)"}}, [2]int{2, 3}, false, false},
	{"totp||hotp||adversary", []string{"hotp-c1"}, [][]string{{"totp-gen"}, {"hotp-c1"}, {"adversary-4226"}}, [2]int{1, 2}, false, false},
	{"ocra-short||ocra-long", []string{"ocra-short"}, [][]string{{"ocra-short"}, {"ocra-long"}}, [2]int{2, 3}, false, false},
	{"ocra-long||ocra-long", []string{"ocra-short"}, [][]string{{"ocra-long"}, {"ocra-long-2"}}, [2]int{1, 2}, false, false},
	{"ocra-gen||ocra-validate||adversary", []string{"ocra-short"}, [][]string{{"ocra-short"}, {"ocra-validate-hit"}, {"adversary-6287"}}, [2]int{1, 2}, false, false},
	{"suites", nil, [][]string{{"suite OCRA-1:HOTP-SHA256-8:C-QA10-PSHA256-S-T1"}, {"suite OCRA-1:HOTP-SHA256-7:QN10-T5M"}, {"list-suites"}}, [2]int{1, 2}, false, false},
	{"suite look-alikes after the originals", churnWarm(), [][]string{{"suite-lookalikes-refused"}, {"suite-parse-8", "suite-parse-15"}}, [2]int{1, 1}, false, false},
	{"suite-cache churn", churnWarm(), [][]string{{"suite-parse-40", "suite-parse-39", "suite-parse-37", "suite-parse-33", "suite-parse-25", "suite-parse-9"}, {"suite-parse-41", "suite-parse-42", "suite-parse-43"}}, [2]int{1, 2}, false, false},
	{"url||url", []string{"url-totp"}, [][]string{{"url-totp"}, {"url-hotp"}}, [2]int{1, 2}, false, false},
	{"url-hotp||url-hotp", nil, [][]string{{"url-hotp"}, {"url-hotp-2"}}, [2]int{1, 2}, false, false},
	{"url-totp||url-totp||url-hotp", []string{"url-hotp"}, [][]string{{"url-totp"}, {"url-totp-2"}, {"url-hotp-2"}}, [2]int{1, 2}, false, false},
	{"decode||decode||random", nil, [][]string{{"decode-secret-0", "decode-secret-bad"}, {"decode-secret-1", "decode-secret-2"}, {"random-secret-0"}}, [2]int{1, 2}, false, false},
	{"after refusals: totp||totp||totp-validate", []string{"refused-calls"}, [][]string{{"totp-gen"}, {"totp-gen-sha512-6-p60"}, {"totp-validate-hit"}}, [2]int{1, 2}, false, false},
	{"after refusals: hotp||hotp-validate||ocra", []string{"refused-calls", "refused-calls"}, [][]string{{"hotp-c2^40-sha256-8"}, {"hotp-validate-hit(-1)"}, {"ocra-short"}}, [2]int{1, 2}, false, false},
	{"refusals||totp||totp", nil, [][]string{{"refused-calls"}, {"totp-gen", "totp-gen-sha512-6-p60"}, {"totp-gen-sha512-6-p60", "totp-gen"}}, [2]int{1, 2}, false, false},
	{"refusals of a kind overlap: short||short", nil, [][]string{{"ocra-refused-short-2-of-8"}, {"ocra-refused-short-7-of-10"}}, [2]int{2, 3}, false, false},
	{"refusals of a kind overlap: long||long||counter", nil, [][]string{{"ocra-refused-long-200"}, {"ocra-refused-long-129"}, {"ocra-refused-counter-3", "ocra-refused-counter-9"}}, [2]int{1, 2}, false, false},
	{"refusals of a kind overlap: counter||counter", []string{"ocra-short"}, [][]string{{"ocra-refused-counter-3"}, {"ocra-refused-counter-9"}}, [2]int{2, 3}, false, false},
	{"wide hit then narrow miss: totp||totp||hotp", []string{"totp-validate-hit(+3)-skew3"}, [][]string{{"totp-validate-miss(+3)-skew1", "totp-validate-hit(-2)-skew3"}, {"totp-validate-miss(-2)-skew1"}, {"hotp-validate-hit(+3)-skew3", "hotp-validate-miss(+3)-skew1"}}, [2]int{1, 2}, false, false},
	{"helpers refused||short||a", nil, [][]string{{"helpers-refused", "helpers-short"}, {"helpers-short", "helpers-refused"}, {"helpers-a"}}, [2]int{1, 2}, false, false},
	{"helpers||helpers||random", nil, [][]string{{"helpers-a"}, {"helpers-b"}, {"random-secret-2", "random-secret-0"}}, [2]int{1, 2}, false, false},
	{"ocra 1||2", []string{"ocra-short"}, [][]string{{"ocra-short"}, {"ocra-long", "ocra-validate-hit"}}, [2]int{1, 2}, false, false},
	{"ocra 1||2 cold", nil, [][]string{{"ocra-long"}, {"ocra-short", "ocra-long-2"}}, [2]int{1, 2}, false, false},
	{"hotp 1||2", []string{"hotp-c1"}, [][]string{{"hotp-10digits"}, {"hotp-c2^40-sha256-8", "totp-gen"}}, [2]int{1, 2}, false, false},
	{"first use: list||list", nil, [][]string{{"list-suites"}, {"list-suites"}}, [2]int{2, 3}, false, false},
	{"first use: parse||parse||list", nil, [][]string{{"suite-parse-1"}, {"suite-parse-1"}, {"list-suites"}}, [2]int{1, 2}, false, false},
	{"first use: hotp||hotp same call", nil, [][]string{{"hotp-c1"}, {"hotp-c1"}}, [2]int{2, 3}, false, false},
	{"first use: ocra||ocra same call", nil, [][]string{{"ocra-short"}, {"ocra-short"}}, [2]int{2, 3}, false, false},
	{"first use: url||decode||random", nil, [][]string{{"url-totp"}, {"decode-secret-1"}, {"random-secret-0"}}, [2]int{1, 2}, false, false},
	{"random||random", nil, [][]string{{"random-stream-0"}, {"random-stream-0"}}, [2]int{2, 3}, false, false},
	{"random||random 64", []string{"random-stream-0"}, [][]string{{"random-stream-2"}, {"random-stream-0"}}, [2]int{2, 3}, false, false},
	{"random after refused algorithms: random||random", []string{"random-refused"}, [][]string{{"random-stream-0"}, {"random-stream-2"}}, [2]int{2, 3}, false, false},
	{"random refused||random||random", nil, [][]string{{"random-refused"}, {"random-stream-0", "random-stream-2"}, {"random-stream-2"}}, [2]int{1, 2}, false, false},
	{"random 1||2||decode", nil, [][]string{{"random-stream-0"}, {"random-stream-2", "random-stream-0"}, {"decode-secret-1"}}, [2]int{1, 2}, false, false},
	{"ocra fields in one shared buffer", nil, [][]string{{"ocra-arena-0"}, {"ocra-arena-1"}, {"ocra-arena-2"}}, [2]int{1, 2}, false, false},
	{"ocra fields in one shared buffer 1||2", []string{"ocra-short"}, [][]string{{"ocra-arena-1"}, {"ocra-arena-0", "ocra-arena-2"}}, [2]int{2, 3}, false, false},
	{"after a long message: ocra||ocra", []string{"ocra-long"}, [][]string{{"ocra-short"}, {"ocra-validate-hit"}}, [2]int{2, 3}, false, false},
	{"after two long messages: ocra||ocra||ocra", []string{"ocra-long", "ocra-long-2"}, [][]string{{"ocra-short"}, {"ocra-arena-0"}, {"ocra-validate-hit"}}, [2]int{1, 2}, false, false},
	{"decode-and-wipe||hotp||totp", []string{"hotp-c1"}, [][]string{{"decode-and-wipe", "decode-and-wipe"}, {"hotp-c1"}, {"totp-gen"}}, [2]int{1, 2}, false, false},
	{"3xhotp retained", []string{"hotp-c1"}, [][]string{{"hotp-c1", "hotp-1digit"}, {"hotp-c2^40-sha256-8"}, {"hotp-10digits"}}, [2]int{1, 2}, false, false},
	{"ocra suites that are prefixes of one another", []string{"ocra-short-ext-P"}, [][]string{{"ocra-short"}, {"ocra-short-ext-T"}, {"ocra-short-ext-P"}}, [2]int{1, 2}, false, false},
	{"hotp keys longer than the block: sha1||sha1", nil, [][]string{{"hotp-longkey-sha1-a"}, {"hotp-longkey-sha1-b"}}, [2]int{2, 3}, false, false},
	{"hotp keys longer than the block: sha512||sha512||sha1", []string{"hotp-c1"}, [][]string{{"hotp-longkey-sha512-a"}, {"hotp-longkey-sha512-b"}, {"hotp-longkey-sha1-a"}}, [2]int{1, 2}, false, false},
	{"one hotp paused while 90 others complete", []string{"hotp-c1"}, [][]string{{"hotp-c2^40-sha256-8"}, {"many-hotp-90"}}, [2]int{2, 3}, false, true},
	{"one totp validation paused while 105 steps are derived", nil, [][]string{{"totp-validate-hit"}, {"many-totp-validate-miss-x5"}}, [2]int{2, 3}, false, true},
	{"one ocra paused while 70 others complete", []string{"ocra-short"}, [][]string{{"ocra-short"}, {"many-ocra-70"}}, [2]int{2, 3}, false, true},
	{"one ocra validation paused while hotp and ocra threads complete many", nil, [][]string{{"ocra-validate-hit"}, {"many-hotp-90"}, {"many-ocra-70"}}, [2]int{2, 3}, false, true},
	{"one long ocra paused while 260 hotp complete", nil, [][]string{{"ocra-long"}, {"many-hotp-90", "many-hotp-90", "many-hotp-90"}}, [2]int{2, 3}, false, true},
	{"hotp||hotp||gc unbounded-at-pool-ops", []string{"hotp-c1"}, [][]string{{"hotp-c1", "totp-gen"}, {"hotp-c2^40-sha256-8", "hotp-1digit"}, {"gc"}}, [2]int{-1, -1}, true, false},
	{"ocra||ocra||adversary unbounded-at-pool-ops", []string{"ocra-short"}, [][]string{{"ocra-short", "ocra-long"}, {"ocra-validate-hit"}, {"adversary-6287"}}, [2]int{-1, -1}, true, false},
}

func churnWarm() []string {
	var w []string
	for k := 1; k <= 40; k++ {
		w = append(w, fmt.Sprintf("suite-parse-%d", k))
	}
	return w
}

type c11Env struct {
	ops    []hop
	byName map[string]int
	base   map[string]uint64 // non-pool globals at start
	snap   irt.Snapshot      // all package-level variables before the library was first used
}

func newC11Env() *c11Env {
	e := &c11Env{byName: map[string]int{}}
	e.snap = irt.SnapshotGlobals() // first thing: nothing of the library has run yet
	e.ops = append(buildOps(), advOps()...)
	posStream.install()
	for i, o := range e.ops {
		e.byName[o.name] = i
	}
	irt.ResetPools()
	e.base = nonPool(irt.Globals())
	return e
}

// protectedGlobals are the package-level variables that must only ever be read: the
// exported defaults, the registry and the lookup tables.  Any other package-level variable
// (pools, or state a change introduces) is part of the explored STATE but writing it is not
// by itself a violation - only its influence on results is.
var protectedGlobals = map[string]bool{"DefaultHOTPParam": true, "DefaultTOTPParam": true, "knownSuites": true, "algoStrMap": true, "mod10": true, "hmacPools": true, "TimeCounterFunc": true,
	"ErrUnsupportedAlgorithm": true, "ErrInvalidCodeLength": true, "ErrInvalidCode": true, "ErrIssuerRequired": true, "ErrAccountNameRequired": true, "ErrSecretRequired": true, "ErrInvalidSkew": true, "ErrInvalidRawSuite": true}

func nonPool(g map[string]uint64) map[string]uint64 {
	out := map[string]uint64{}
	for n, v := range g {
		if protectedGlobals[n] && !irt.IsPoolVar(n) {
			out[n] = v
		}
	}
	return out
}

// runHistory replays a sequence of operations from reset pools and checks every step.
func (e *c11Env) runHistory(path []int) (obs, bad string) {
	e.snap.Restore()
	irt.ResetPools()
	posStream.reset()
	var kept []retained
	for step, i := range path {
		o := e.ops[i]
		var got string
		var ret []string
		if p := try(func() { got, ret = o.run() }); p != "" {
			return obs + "panic", fmt.Sprintf("step %d (%s) panicked: %s", step, o.name, p)
		}
		obs += got + ";"
		if got != o.want {
			return obs, fmt.Sprintf("step %d (%s) returned %q, stateless reference %q", step, o.name, got, o.want)
		}
		retain(&kept, fmt.Sprintf("step %d (%s)", step, o.name), ret)
		if c := retainedChanged(kept); c != "" {
			return obs, c
		}
		if d := irt.DiffGlobals(e.base, nonPool(irt.Globals())); len(d) > 0 {
			return obs, fmt.Sprintf("step %d (%s) modified read-only package-level variable(s) %v", step, o.name, d)
		}
	}
	return obs, ""
}

// runSchedule executes one interleaving of a scenario.
func (e *c11Env) runSchedule(sc scen, x *xplore.X) (outcome, pattern, bad string) {
	// every execution starts from the state of a process that has never used the library:
	// first-use interleavings (lazily built tables, "initialised" flags) are explored like any other
	e.snap.Restore()
	irt.ResetPools()
	posStream.reset()
	for _, w := range sc.warm {
		e.ops[e.byName[w]].run()
	}
	type slot struct {
		op   hop
		got  string
		ret  []string
		done bool
	}
	var slots [][]*slot
	var bodies []func()
	for _, th := range sc.threads {
		var ss []*slot
		for _, n := range th {
			ss = append(ss, &slot{op: e.ops[e.byName[n]]})
		}
		slots = append(slots, ss)
		bodies = append(bodies, func() {
			for _, s := range ss {
				s.got, s.ret = s.op.run()
				s.done = true
			}
		})
	}
	var res = irt.RunThreads
	if sc.coarse {
		res = irt.RunThreadsCoarse
	}
	if sc.paused {
		res = func(x *xplore.X, horizon int, _ bool, bodies []func()) sched.Result {
			return irt.RunThreadsPaused(x, horizon, bodies)
		}
	}
	rr := res(x, 50000, true, bodies)
	pattern = string(irt.SyncPattern)
	for _, p := range rr.Panics {
		if strings.Contains(p, "replay diverged") || strings.Contains(p, "no alternatives") {
			return "", pattern, "NONDETERMINISM: " + p
		}
	}
	if rr.Deadlock {
		return "deadlock", pattern, "deadlock"
	}
	if rr.Overrun {
		return "overrun", pattern, "execution exceeded its horizon of scheduling points (livelock / unbounded work)"
	}
	if len(rr.Panics) > 0 {
		return "panic", pattern, "panic: " + strings.Join(rr.Panics, "; ")
	}
	var kept []retained
	for ti, ss := range slots {
		for _, s := range ss {
			outcome += s.got + ";"
			if !s.done {
				return outcome, pattern, fmt.Sprintf("thread %d did not finish %s", ti, s.op.name)
			}
			if s.got != s.op.want {
				return outcome, pattern, fmt.Sprintf("thread %d: %s returned %q, alone it returns %q", ti, s.op.name, s.got, s.op.want)
			}
			retain(&kept, fmt.Sprintf("thread %d (%s)", ti, s.op.name), s.ret)
		}
	}
	if c := retainedChanged(kept); c != "" {
		return outcome, pattern, c
	}
	if d := irt.DiffGlobals(e.base, nonPool(irt.Globals())); len(d) > 0 {
		return outcome, pattern, fmt.Sprintf("read-only package-level variable(s) %v modified", d)
	}
	return outcome, pattern, ""
}

type shardResult struct {
	Scenario   string   `json:"scenario"`
	Executions int64    `json:"executions"`
	Points     int64    `json:"points"`
	MaxPoints  int      `json:"max_points"`
	ByCost     []int64  `json:"by_cost"`
	Outcomes   []uint64 `json:"outcomes"`
	Patterns   []uint64 `json:"patterns"`
	Capped     bool     `json:"capped"`
	Fails      []struct {
		Choices []int  `json:"choices"`
		Bad     string `json:"bad"`
		Obs     string `json:"obs"`
	} `json:"fails"`
	Broken string `json:"broken,omitempty"`
}

func (e *c11Env) exploreShard(sc scen, bound, shard, shards int, maxExec int64) shardResult {
	out := shardResult{Scenario: sc.name}
	outcomes, patterns := map[uint64]bool{}, map[uint64]bool{}
	var lastBad, lastObs string
	st := xplore.Explore(xplore.Options{Bound: bound, Shard: shard, Shards: shards, MaxExec: maxExec}, func(x *xplore.X) {
		o, p, bad := e.runSchedule(sc, x)
		childBeat()
		outcomes[ev.H(o)] = true
		patterns[ev.H(p)] = true
		lastBad, lastObs = bad, o
	}, func(x *xplore.X) bool {
		if lastBad != "" {
			if strings.HasPrefix(lastBad, "NONDETERMINISM") {
				out.Broken = lastBad
				return false
			}
			out.Fails = append(out.Fails, struct {
				Choices []int  `json:"choices"`
				Bad     string `json:"bad"`
				Obs     string `json:"obs"`
			}{x.Choices(), lastBad, lastObs})
			return len(out.Fails) < 3
		}
		return true
	})
	out.Executions, out.Points, out.MaxPoints, out.ByCost, out.Capped = st.Executions, st.Points, st.MaxPoints, st.ByCost, st.Capped
	for k := range outcomes {
		out.Outcomes = append(out.Outcomes, k)
	}
	for k := range patterns {
		out.Patterns = append(out.Patterns, k)
	}
	return out
}

func c11(r *ev.Run) {
	e := newC11Env()
	r.Scenario("history", func(raw []byte) (string, string) { return e.runHistory(unjson[c11Hist](raw).Ops) })
	r.Scenario("schedule", func(raw []byte) (string, string) {
		c := unjson[c11Sched](raw)
		for _, sc := range c11Scens {
			if sc.name == c.Scenario {
				var o, bad string
				xplore.Run(c.Choices, func(x *xplore.X) { o, _, bad = e.runSchedule(sc, x) })
				return o, bad
			}
		}
		return "", "unknown scenario"
	})
	r.Scenario("race-monitor", func(raw []byte) (string, string) { return raceMonitor(r) })
	if ReplayOnly {
		return
	}
	// child mode: explore one shard and print the result
	if ch := os.Getenv("VERIF_CHILD"); ch != "" {
		var name string
		var bound, shard, shards int
		var maxExec int64
		parts := strings.Split(ch, "\t")
		name = parts[0]
		fmt.Sscan(parts[1], &bound)
		fmt.Sscan(parts[2], &shard)
		fmt.Sscan(parts[3], &shards)
		fmt.Sscan(parts[4], &maxExec)
		for _, sc := range c11Scens {
			if sc.name == name {
				b, _ := json.Marshal(e.exploreShard(sc, bound, shard, shards, maxExec))
				fmt.Println("SHARD-RESULT " + string(b))
				os.Exit(0)
			}
		}
		os.Exit(3)
	}

	// ---- 1. sequential histories to closure
	root := irt.Digest(true)
	seen := map[string]bool{root: true}
	frontier := [][]int{{}}
	var transitions int64
	maxDepth, capStates := 0, 4000
	names := func(p []int) []string {
		var n []string
		for _, i := range p {
			n = append(n, e.ops[i].name)
		}
		return n
	}
	closed := true
	for len(frontier) > 0 {
		path := frontier[0]
		frontier = frontier[1:]
		for i := range e.ops {
			if strings.HasPrefix(e.ops[i].name, "suite-parse-") && e.ops[i].name != "suite-parse-1" && e.ops[i].name != "suite-parse-2" {
				continue // the churn family is represented by two members in the history search
			}
			if strings.HasPrefix(e.ops[i].name, "many-") && len(path) > 1 {
				continue // the composite operations (dozens of calls) only at the first two levels of the history search
			}
			np := append(append([]int{}, path...), i)
			obs, bad := e.runHistory(np)
			transitions++
			if bad != "" {
				r.Fail("history", "history "+strings.Join(names(np), " -> ")+": "+bad, c11Hist{np, names(np)}, "every step equals the stateless reference; retained strings and package variables unchanged", obs+" "+bad)
				continue
			}
			k := irt.Digest(true)
			if !seen[k] {
				if len(seen) >= capStates {
					closed = false
					continue
				}
				seen[k] = true
				frontier = append(frontier, np)
				if len(np) > maxDepth {
					maxDepth = len(np)
				}
			}
		}
		if r.Violations() > 5 {
			break
		}
	}
	if !closed {
		r.NotExhaustive(fmt.Sprintf("history search stopped at %d states (state space did not close)", capStates))
	}
	r.State(int64(len(seen)))
	r.Transition(transitions)
	r.Eval(transitions)
	r.Trace(transitions)
	r.Set("history_search", map[string]any{"states": len(seen), "transitions": transitions, "max_depth": maxDepth, "closed": closed, "operations": len(e.ops)})
	r.Sample(map[string]any{"history": names([]int{e.byName["ocra-long"], e.byName["adversary-6287"], e.byName["ocra-short"], e.byName["hotp-c1"]}), "oracle": "each result == stateless reference; earlier results unchanged; non-pool globals unchanged"})

	// ---- 2. interleavings
	tier := 0
	if r.Thorough() {
		tier = 1
	}
	type job struct {
		sc            scen
		bound         int
		shard, shards int
	}
	var jobs []job
	shardsPer := 4
	if r.Thorough() {
		shardsPer = 16
	}
	for _, sc := range c11Scens {
		for s := 0; s < shardsPer; s++ {
			jobs = append(jobs, job{sc, sc.bound[tier], s, shardsPer})
		}
	}
	maxExec := int64(400000)
	if r.Thorough() {
		maxExec = 6000000
	}
	results := make([]shardResult, len(jobs))
	var wg sync.WaitGroup
	sem := make(chan struct{}, 16)
	self, _ := os.Executable()
	for i, j := range jobs {
		wg.Add(1)
		sem <- struct{}{}
		go func(i int, j job) {
			defer wg.Done()
			defer func() { <-sem }()
			cmd := exec.Command(self, "C11")
			bm := beatMarker(i)
			cmd.Env = append(os.Environ(), fmt.Sprintf("VERIF_CHILD=%s\t%d\t%d\t%d\t%d", j.sc.name, j.bound, j.shard, j.shards, maxExec), "GOMAXPROCS=2", "VERIF_BEAT="+bm)
			stopBeat := make(chan struct{})
			go superviseBeat(bm, r.Beat, stopBeat)
			outp, err := cmd.Output()
			close(stopBeat)
			res := shardResult{Scenario: j.sc.name, Broken: "worker produced no result"}
			sc := bufio.NewScanner(strings.NewReader(string(outp)))
			sc.Buffer(make([]byte, 1<<20), 1<<26)
			for sc.Scan() {
				if l := sc.Text(); strings.HasPrefix(l, "SHARD-RESULT ") {
					res = shardResult{}
					if json.Unmarshal([]byte(l[13:]), &res) != nil {
						res.Broken = "unreadable worker result"
					}
				}
			}
			if err != nil && res.Broken == "" {
				res.Broken = "worker failed: " + err.Error()
			}
			results[i] = res
		}(i, j)
	}
	wg.Wait()
	per := map[string]map[string]any{}
	for i, res := range results {
		j := jobs[i]
		if res.Broken != "" {
			r.Broken = append(r.Broken, fmt.Sprintf("scenario %q shard %d: %s", j.sc.name, j.shard, res.Broken))
			continue
		}
		m := per[j.sc.name]
		if m == nil {
			m = map[string]any{"bound": j.bound, "threads": j.sc.threads, "executions": int64(0), "points": int64(0), "max_points": 0, "outcomes": map[uint64]bool{}, "patterns": map[uint64]bool{}, "by_cost": []int64{}, "granularity": map[bool]string{false: "every statement + pool operations", true: "pool operations only"}[j.sc.coarse] + map[bool]string{false: "", true: " (thread 0 only; the other threads run to completion once scheduled)"}[j.sc.paused]}
			per[j.sc.name] = m
		}
		m["executions"] = m["executions"].(int64) + res.Executions
		m["points"] = m["points"].(int64) + res.Points
		if res.MaxPoints > m["max_points"].(int) {
			m["max_points"] = res.MaxPoints
		}
		bc := m["by_cost"].([]int64)
		for k, v := range res.ByCost {
			for len(bc) <= k {
				bc = append(bc, 0)
			}
			bc[k] += v
		}
		m["by_cost"] = bc
		for _, o := range res.Outcomes {
			m["outcomes"].(map[uint64]bool)[o] = true
		}
		for _, o := range res.Patterns {
			m["patterns"].(map[uint64]bool)[o] = true
		}
		if res.Capped {
			r.NotExhaustive(fmt.Sprintf("scenario %q shard %d stopped at the execution cap %d", j.sc.name, j.shard, maxExec))
		}
		for _, f := range res.Fails {
			r.Fail("schedule", j.sc.name+": "+f.Bad, c11Sched{j.sc.name, f.Choices}, "every result equals the result of the call alone; no panic/deadlock; retained strings and package variables unchanged", f.Obs+" "+f.Bad)
		}
		r.Eval(res.Executions)
		r.State(res.Executions)
		r.Transition(res.Points)
		r.Trace(res.Executions)
	}
	var snames []string
	for n := range per {
		snames = append(snames, n)
	}
	sort.Strings(snames)
	for _, n := range snames {
		m := per[n]
		no, np := len(m["outcomes"].(map[uint64]bool)), len(m["patterns"].(map[uint64]bool))
		m["distinct_final_observations"], m["distinct_pool_handover_patterns"] = no, np
		delete(m, "outcomes")
		delete(m, "patterns")
		r.DistinctS(fmt.Sprint(n, np))
		for k := 0; k < np && k < 200000; k++ {
			r.Distinct(ev.H(fmt.Sprint(n, k)))
		}
		if np < 2 && m["max_points"].(int) > 0 && !strings.HasPrefix(n, "url") && (strings.Contains(n, "hotp") || strings.Contains(n, "ocra")) {
			r.NotExhaustive(fmt.Sprintf("scenario %q: only %d pool-handover pattern observed (threads did not collide)", n, np))
		}
	}
	r.Set("interleavings", per)
	r.Sample(map[string]any{"scenario": c11Scens[0].name, "threads": c11Scens[0].threads, "pre-state": c11Scens[0].warm, "choice_vector_example": []int{0, 0, 1, 0, 2}, "meaning": "entry k = which enabled thread continues at scheduling point k (0 = the running one) / which pooled buffer Get returns"})

	// ---- 3. free-running race monitor (auxiliary; can only add alarms)
	if obs, bad := raceMonitor(r); bad != "" {
		r.Fail("race-monitor", "race-monitor: "+firstLine(bad), map[string]string{"cmd": os.Getenv("VERIF_RACEMON")}, "no data race, every concurrent result equals the reference", obs+"\n"+bad)
	}
	r.Rule("(1) explicit-state search over operation histories on the instrumented library: state = digest of ALL package-level variables incl. full capacity of pooled buffers, transition = one real call, run to a fixed point; (2) stateless exploration of all interleavings of 2-3 threads within a preemption+deviation bound, scheduling points at every statement of package otp and around every pool operation, Pool.Get answers (any pooled item / fresh) explored; unbounded at pool-operation granularity for two 3-thread scenarios; distinct = pool-handover patterns observed; (3) free-running -race monitor (auxiliary)")
	r.Assume("sequentially consistent interleaving at statement granularity; <= 3 threads; sub-statement races are left to the free-running race monitor", "sync.Pool modelled by its documented contract (Get returns any pooled item or a new one)")
}

func firstLine(s string) string {
	if i := strings.IndexByte(s, '\n'); i >= 0 {
		return s[:i]
	}
	return s
}

// raceMonitor runs the free-running -race build of the same kinds of calls.
func raceMonitor(r *ev.Run) (obs, bad string) {
	bin := os.Getenv("VERIF_RACEMON")
	if bin == "" {
		r.Set("race_monitor", "not built")
		return "not built", ""
	}
	iters := "300"
	if r.Thorough() {
		iters = "3000"
	}
	total := ""
	for _, procs := range []string{"1", "2", "4", "16"} {
		cmd := exec.Command(bin, iters)
		cmd.Env = append(os.Environ(), "GOMAXPROCS="+procs, "GORACE=halt_on_error=1 exitcode=66")
		out, err := cmd.CombinedOutput()
		if err != nil {
			return total, fmt.Sprintf("race monitor (GOMAXPROCS=%s) failed: %v\n%s", procs, err, lastLines(string(out), 30))
		}
		total += strings.TrimSpace(string(out)) + "; "
	}
	r.Set("race_monitor", total)
	return total, ""
}

func lastLines(s string, n int) string {
	l := strings.Split(strings.TrimSpace(s), "\n")
	if len(l) > n {
		l = l[:n]
	}
	return strings.Join(l, "\n")
}
