package checks

import (
	"fmt"
	"sync"

	"github.com/ja7ad/otp"
	"github.com/ja7ad/otp/verifharness/ev"
	"github.com/ja7ad/otp/verifharness/ref"
)

func init() {
	register("C03", "exploration", func(r *ev.Run) { c03(r, false) })
}

type c03Case struct {
	Secret  string `json:"secret"`
	Code    string `json:"code"`
	Counter uint64 `json:"counter"`
	Skew    uint64 `json:"skew"`
	Digits  int    `json:"digits"`
	Algo    int    `json:"algo"`
	Nil     bool   `json:"nil_param"`
	AppDef  int    `json:"application_assigned_defaults,omitempty"` // k > 0: the exported defaults hold variant k while the call runs
}

func hotpWindow(key []byte, c uint64, s uint64, d, a int) []string {
	var w []string
	lo := uint64(0)
	if c >= s {
		lo = c - s
	}
	for x := lo; ; x++ {
		w = append(w, ref.HOTP(key, x, d, a))
		if x == c+s {
			break
		}
	}
	return w
}

// c03Defaults: (HOTP default, TOTP default) pairs an application may have assigned; a nil Param follows ITS default.
var c03Defaults = [][2]otp.Param{
	{{Digits: 8, Algorithm: otp.SHA256, Skew: 1}, {Digits: 7, Algorithm: otp.SHA512, Period: 60, Skew: 3}},
	{{Digits: 10, Algorithm: otp.SHA512, Skew: 0}, {Digits: 6, Algorithm: otp.SHA1, Period: 30, Skew: 10}},
	{{Digits: 6, Algorithm: otp.SHA1, Skew: 10}, {Digits: 9, Algorithm: otp.SHA256, Period: 1, Skew: 0}},
}

func callValidateHOTP(c c03Case) (ok bool, err error, panicked string) {
	if c.AppDef > 0 {
		sh, st := *otp.DefaultHOTPParam, *otp.DefaultTOTPParam
		v := c03Defaults[(c.AppDef-1)%len(c03Defaults)]
		*otp.DefaultHOTPParam, *otp.DefaultTOTPParam = v[0], v[1]
		defer func() { *otp.DefaultHOTPParam, *otp.DefaultTOTPParam = sh, st }()
	}
	panicked = try(func() {
		if c.Nil {
			ok, err = otp.ValidateHOTP(c.Secret, c.Code, c.Counter, nil)
		} else {
			ok, err = otp.ValidateHOTP(c.Secret, c.Code, c.Counter, &otp.Param{Digits: otp.Digits(c.Digits), Algorithm: otp.Algorithm(c.Algo), Skew: uint(c.Skew)})
		}
	})
	return
}

// pairShape is C13's first clause.
func pairShape(ok bool, err error) string {
	if ok && err != nil {
		return "(true, error)"
	}
	if !ok && err == nil {
		return "(false, nil)"
	}
	return ""
}

// hotpValidate evaluates one validation; window is the reference window (nil => compute).
func hotpValidate(c c03Case, key []byte, window []string, pairMode bool) (obs, bad string) {
	ok, err, p := callValidateHOTP(c)
	if p == fuseMsg {
		addSuspect(c) // decided sequentially by hotpSuspects
		return "cut-off", ""
	}
	if p != "" {
		return "panic:" + p, "panicked: " + p
	}
	obs = fmt.Sprint(ok, "|", errStr(err))
	d, a, s := c.Digits, c.Algo, c.Skew
	if c.Nil {
		d, a, s = 6, 0, 2
		if c.AppDef > 0 {
			v := c03Defaults[(c.AppDef-1)%len(c03Defaults)][0]
			d, a, s = int(v.Digits), int(v.Algorithm), uint64(v.Skew)
		}
	}
	if pairMode {
		if ps := pairShape(ok, err); ps != "" {
			return obs, "ambiguous verdict " + ps
		}
		if err != nil {
			if l := leaks(errText(err), c.Secret, key, window); l != "" {
				return obs, "error text discloses " + l
			}
		}
		return obs, ""
	}
	if s > 10 {
		if ok || err == nil {
			return obs, "a window larger than 10 must be refused with (false, error)"
		}
		return obs, ""
	}
	if window == nil {
		window = hotpWindow(key, c.Counter, s, d, a)
	}
	want := inSet(c.Code, window)
	if ok != want {
		return obs, fmt.Sprintf("want %v (window of %d codes)", want, len(window))
	}
	return obs, ""
}

var hotpValCounters = func() []uint64 {
	var c []uint64
	for i := uint64(0); i <= 13; i++ {
		c = append(c, i)
	}
	for _, m := range []uint64{1 << 31, 1 << 32} {
		for d := uint64(0); d <= 2; d++ {
			c = append(c, m-1-d, m+d)
		}
	}
	for d := uint64(0); d <= 13; d++ {
		c = append(c, 1<<63-1-d, 1<<63+d)
	}
	return c
}()

// hotpSuspects decides the cut-off calls exactly: sequentially, counting derivations at the constructor seam.
func hotpSuspects(r *ev.Run) {
	for _, x := range takeSuspects() {
		c, ok := x.(c03Case)
		if !ok {
			continue
		}
		n := countDerivations(func() { callValidateHOTP(c) })
		s := c.Skew
		if c.Nil {
			s = 2
		}
		lim := int64(2*s + 1)
		if s > 10 {
			lim = 0
		}
		if n > lim {
			r.Fail("hotp-validate-work", fmt.Sprintf("skew=%d counter=%d code=%q: validation does not end within %d derivations (the window holds %d candidates)", s, c.Counter, trunc80(c.Code), n, lim), c, fmt.Sprintf("at most %d derivations and a verdict", lim), fmt.Sprint(n, " derivations"))
		}
	}
}

func c03(r *ev.Run, pairMode bool) {
	installFuse()
	defer hotpSuspects(r)
	r.OnWedge(func() { hotpSuspects(r) })
	scen := "hotp-validate"
	r.Scenario(scen, func(raw []byte) (string, string) {
		c := unjson[c03Case](raw)
		v, key := ref.B32Classify(c.Secret)
		if v != ref.MustAccept {
			return "", ""
		}
		return hotpValidate(c, key, nil, pairMode)
	})
	r.Scenario("hotp-validate-history", func(raw []byte) (string, string) {
		emptySyncPools()
		obs := ""
		for k, c := range unjson[[]c03Case](raw) {
			v, key := ref.B32Classify(c.Secret)
			if v != ref.MustAccept {
				return "", ""
			}
			o, bad := hotpValidate(c, key, nil, pairMode)
			obs += o + ";"
			if bad != "" {
				return obs, fmt.Sprintf("step %d: %s", k, bad)
			}
		}
		return obs, ""
	})
	r.Scenario("hotp-validate-work", func(raw []byte) (string, string) {
		c := unjson[c03Case](raw)
		n := countDerivations(func() { callValidateHOTP(c) })
		lim := int64(2*c.Skew + 1)
		if c.Skew > 10 {
			lim = 0
		}
		if n > lim {
			return fmt.Sprint(n), fmt.Sprintf("%d derivations, bound %d", n, lim)
		}
		return fmt.Sprint(n), ""
	})
	{
		k := []byte("12345678901234567890")
		sp := ref.B32Encode(k)
		var cs []c03Case
		for _, ctr := range []uint64{5, 1 << 32} {
			for dist := int64(-3); dist <= 3; dist++ {
				cs = append(cs, c03Case{sp, ref.HOTP(k, uint64(int64(ctr)+dist), 6, 0), ctr, 2, 6, 0, false, 0})
			}
			cs = append(cs, c03Case{sp, ref.HOTP(k, ctr, 8, 2), ctr, 0, 8, 2, false, 0}, c03Case{sp, "000000", ctr, 10, 6, 0, false, 0}, c03Case{Secret: sp, Code: ref.HOTP(k, ctr+2, 6, 0), Counter: ctr, Nil: true})
		}
		// application-assigned defaults: ValidateHOTP(nil) uses the HOTP default's digits, hash and window
		for v := 1; v <= len(c03Defaults); v++ {
			dv := c03Defaults[v-1][0]
			for dist := int64(-11); dist <= 11; dist++ {
				if dist < -2 && dist > -10 || dist > 2 && dist < 10 {
					continue
				}
				cs = append(cs, c03Case{Secret: sp, Code: ref.HOTP(k, uint64(40+dist), int(dv.Digits), int(dv.Algorithm)), Counter: 40, Nil: true, AppDef: v})
			}
			cs = append(cs, c03Case{Secret: sp, Code: ref.HOTP(k, 41, 6, 0), Counter: 40, Skew: 1, Digits: 6, Algo: 0, AppDef: v})
		}
		afterWarmups(r, "hotp-validate-after-other-operations", cs, func(c c03Case) (string, string) { return hotpValidate(c, k, nil, pairMode) })
	}
	volume(r, "hotp-validate-volume", 1100, func(k int) c03Case {
		key := []byte(fmt.Sprintf("volume-key-%04d-0123456789abcdefghij", k/2))[:10+(k/2*7)%27]
		return c03Case{ref.B32Encode(key), ref.HOTP(key, uint64(k)+uint64(k%5), 6, k%3), uint64(k), uint64(k % 4), 6, k % 3, false, 0}
	}, func(c c03Case) (string, string) {
		_, key := ref.B32Classify(c.Secret)
		return hotpValidate(c, key, nil, pairMode)
	})
	if ReplayOnly {
		return
	}
	keys := [][]byte{filler(r.Seed, "c03", 10), []byte("12345678901234567890")}
	if r.Thorough() {
		keys = append(keys, filler(r.Seed, "c03b", 65))
	}
	type cfg struct {
		key  []byte
		sec  string
		c, s uint64
		d, a int
	}
	var cfgs []cfg
	for ki, key := range keys {
		sec := spellings(key)[ki%3]
		for s := uint64(0); s <= 10; s++ {
			for _, c := range hotpValCounters {
				for a := 0; a < 3; a++ {
					for d := 1; d <= 10; d++ {
						if !r.Thorough() && (int(c%7)+d+a+int(s))%2 == 1 && c > 13 && c < 1<<62 {
							continue // quick: thin out the 2^31/2^32 boundary band
						}
						cfgs = append(cfgs, cfg{key, sec, c, s, d, a})
					}
				}
			}
		}
		// windows straddling every binary carry of the counter (2^k-1 | 2^k, k = 1..63)
		if ki == 0 {
			for k := uint(1); k <= 63; k++ {
				for _, s := range []uint64{0, 1, 2, 5, 10} {
					for _, c := range []uint64{1<<k - 1, 1 << k} {
						cfgs = append(cfgs, cfg{key, sec, c, s, 6, int(k % 3)})
					}
				}
			}
		}
		// counters at the very top: c+s = 2^64-1 exactly
		for s := uint64(0); s <= 10; s++ {
			for back := uint64(0); back <= 1; back++ {
				cfgs = append(cfgs, cfg{key, sec, ^uint64(0) - s - back, s, 6, 0})
			}
		}
	}
	// key-length sweep: every key length 1..140 bytes (below, at and above the block sizes 64 / 128 of the three
	// hashes) x hash x windows 0, 1, 3, 10: the window codes are accepted, the codes next to the window are not
	{
		var n int64
		type kl struct{ L, a int }
		var kls []kl
		for L := 1; L <= 140; L++ {
			for a := 0; a < 3; a++ {
				kls = append(kls, kl{L, a})
			}
		}
		var mu sync.Mutex
		ev.Par(len(kls), func(i int) {
			L, a := kls[i].L, kls[i].a
			key := patt(L, byte(3*L+a))
			sec := ref.B32Encode(key)
			var local int64
			for _, sk := range []uint64{0, 1, 3, 10} {
				for _, ctr := range []uint64{17, 1 << 33} {
					window := hotpWindow(key, ctr, sk, 6, a)
					subs := append([]string{ref.HOTP(key, ctr-sk-1, 6, a), ref.HOTP(key, ctr+sk+1, 6, a)}, window...)
					for _, code := range subs {
						c := c03Case{sec, code, ctr, sk, 6, a, false, 0}
						obs, bad := hotpValidate(c, key, window, pairMode)
						local++
						if bad != "" {
							r.Fail(scen, fmt.Sprintf("key-length sweep: %d-byte key algo=%d skew=%d counter=%d %s", L, a, sk, ctr, bad), c, bad, obs)
						}
					}
				}
			}
			mu.Lock()
			n += local
			mu.Unlock()
		})
		r.Eval(n)
		r.Set("key_length_sweep", map[string]any{"lengths": "1..140", "hashes": 3, "windows": []int{0, 1, 3, 10}, "validations": n})
	}
	r.Set("configs", len(cfgs))
	ev.Par(len(cfgs), func(i int) {
		g := cfgs[i]
		window := hotpWindow(g.key, g.c, g.s, g.d, g.a)
		var around []string
		for dist := -int64(g.s + 3); dist <= int64(g.s+3); dist++ {
			var x uint64
			if dist < 0 {
				if g.c < uint64(-dist) {
					continue
				}
				x = g.c - uint64(-dist)
			} else {
				x = g.c + uint64(dist)
				if x < g.c {
					continue
				}
			}
			around = append(around, ref.HOTP(g.key, x, g.d, g.a))
		}
		var local int64
		for _, code := range submissions(around, window, g.d) {
			c := c03Case{g.sec, code, g.c, g.s, g.d, g.a, false, 0}
			obs, bad := hotpValidate(c, g.key, window, pairMode)
			local++
			if bad != "" {
				r.Fail(scen, fmt.Sprintf("skew=%d digits=%d algo=%d counter=%d %s", g.s, g.d, g.a, g.c, bad), c, bad, obs)
			}
			if g.d == 6 {
				r.DistinctS(fmt.Sprint(g.c, g.s, g.a, code, obs))
			}
		}
		r.Eval(local)
	})
	// complete code space for small code lengths
	maxd := 4
	type sp struct {
		key  []byte
		sec  string
		c, s uint64
		d, a int
	}
	var sps []sp
	for d := 1; d <= maxd; d++ {
		for _, s := range []uint64{0, 1, 2, 5, 10} {
			for _, c := range []uint64{0, 1, 4, 1 << 32, 1<<63 + 1} {
				for a := 0; a < 3; a++ {
					if d == 4 && !r.Thorough() && (a != int(c%3) || s == 5) {
						continue
					}
					sps = append(sps, sp{keys[1], spellings(keys[1])[0], c, s, d, a})
				}
			}
		}
	}
	if r.Thorough() {
		for _, d := range []int{5, 6} {
			for _, s := range []uint64{0, 2, 10} {
				for _, c := range []uint64{1, 1 << 63} {
					sps = append(sps, sp{keys[1], spellings(keys[1])[0], c, s, d, int(s % 3)})
				}
			}
		}
		maxd = 6
	}
	ev.Par(len(sps), func(i int) {
		g := sps[i]
		window := hotpWindow(g.key, g.c, g.s, g.d, g.a)
		n := int(ref.Pow10(g.d))
		var local int64
		acc := 0
		for v := 0; v < n; v++ {
			code := fmt.Sprintf("%0*d", g.d, v)
			c := c03Case{g.sec, code, g.c, g.s, g.d, g.a, false, 0}
			obs, bad := hotpValidate(c, g.key, window, pairMode)
			local++
			if bad != "" {
				r.Fail(scen, fmt.Sprintf("codespace skew=%d digits=%d algo=%d counter=%d %s", g.s, g.d, g.a, g.c, bad), c, bad, obs)
			}
			if obs[0] == 't' {
				acc++
			}
		}
		r.Eval(local)
		r.DistinctS(fmt.Sprint("space", g.c, g.s, g.d, g.a, acc))
	})
	r.Set("complete_code_space_configs", len(sps))
	r.Set("complete_code_space_max_digits", maxd)
	// neighbouring-call histories on one goroutine: calls that differ in exactly one argument, all ordered
	// pairs A, B, A — a verdict must never be answered from what an earlier call left behind
	{
		k0, k1 := keys[1], keys[0]
		s0, s1 := spellings(k0)[0], spellings(k1)[0]
		base := c03Case{s0, ref.HOTP(k0, 7, 6, 0), 7, 1, 6, 0, false, 0}
		fam := []struct {
			c   c03Case
			key []byte
		}{{base, k0}}
		add := func(f func(c *c03Case) []byte) {
			c := base
			key := f(&c)
			if key == nil {
				key = k0
			}
			fam = append(fam, struct {
				c   c03Case
				key []byte
			}{c, key})
		}
		add(func(c *c03Case) []byte { c.Counter = 9; return nil })                                // same code, counter moved out of reach
		add(func(c *c03Case) []byte { c.Counter = 8; return nil })                                // still in the window
		add(func(c *c03Case) []byte { c.Skew = 0; c.Counter = 8; return nil })                    // window shrunk
		add(func(c *c03Case) []byte { c.Algo = 1; return nil })                                   // other hash, same code
		add(func(c *c03Case) []byte { c.Digits = 8; c.Code = ref.HOTP(k0, 7, 8, 0); return nil }) // other length
		add(func(c *c03Case) []byte { c.Secret = s1; return k1 })                                 // other secret, same code
		add(func(c *c03Case) []byte { c.Code = ref.HOTP(k0, 8, 6, 0); return nil })               // neighbour's code
		add(func(c *c03Case) []byte { c.Code = "000000"; return nil })
		add(func(c *c03Case) []byte { c.Nil = true; c.Counter = 5; return nil }) // defaults: window 2
		var hn int64
		for i := range fam {
			for j := range fam {
				emptySyncPools()
				steps := []int{i, j, i}
				var cs []c03Case
				obs := ""
				for k, ix := range steps {
					cs = append(cs, fam[ix].c)
					o, bad := hotpValidate(fam[ix].c, fam[ix].key, nil, pairMode)
					obs += o + ";"
					hn++
					if bad != "" {
						r.Fail("hotp-validate-history", fmt.Sprintf("step %d of the history (calls %d, %d, %d of the family): %s", k, i, j, i, bad), cs, "each call judged on its own arguments", obs)
						break
					}
				}
			}
		}
		r.Eval(hn)
		r.Set("neighbouring_call_history_steps", hn)
	}
	// refused windows and nil parameters; work bound via the HMAC-constructor seam (sequential)
	var wn int64
	for _, s := range []uint64{11, 12, 255, 1 << 32, 1 << 63, ^uint64(0)} {
		for _, c := range []uint64{0, 5, 1 << 63} {
			for _, code := range []string{"000000", ref.HOTP(keys[1], c, 6, 0), ""} {
				cs := c03Case{spellings(keys[1])[0], code, c, s, 6, 0, false, 0}
				n := countDerivations(func() { callValidateHOTP(cs) })
				wn++
				if n != 0 {
					r.Fail("hotp-validate-work", "refused-skew-derives "+skewSig(s), cs, "0 derivations", fmt.Sprint(n))
					continue // do not run an unbounded window without the budget
				}
				if len(code) != 6 {
					continue
				}
				obs, bad := hotpValidate(cs, keys[1], nil, pairMode)
				wn++
				if bad != "" {
					r.Fail(scen, "refused "+skewSig(s), cs, bad, obs)
				}
			}
		}
	}
	for s := uint64(0); s <= 10; s++ {
		for _, d := range []int{1, 6, 10} {
			cs := c03Case{spellings(keys[1])[0], ref.Format(0, d)[:d-1] + "x", 20, s, d, 1, false, 0}
			n := countDerivations(func() { callValidateHOTP(cs) })
			wn++
			if n > int64(2*s+1) {
				r.Fail("hotp-validate-work", "work-bound "+skewSig(s), cs, fmt.Sprintf("<= %d derivations", 2*s+1), fmt.Sprint(n))
			}
		}
	}
	// nil parameters mean 6 digits, SHA-1, window 2
	for _, c := range []uint64{0, 1, 2, 3, 7, 1 << 63} {
		for dist := int64(-4); dist <= 4; dist++ {
			if dist < 0 && c < uint64(-dist) {
				continue
			}
			x := c + uint64(dist)
			for _, d := range []int{6, 8} {
				for a := 0; a < 2; a++ {
					cs := c03Case{spellings(keys[1])[0], ref.HOTP(keys[1], x, d, a), c, 0, 0, 0, true, 0}
					obs, bad := hotpValidate(cs, keys[1], nil, pairMode)
					wn++
					if bad != "" {
						r.Fail(scen, fmt.Sprintf("nil-param counter=%d dist=%d", c, dist), cs, bad, obs)
					}
				}
			}
		}
	}
	r.Eval(wn)
	if !pairMode {
		r.Sample(map[string]any{"case": c03Case{spellings(keys[1])[0], ref.HOTP(keys[1], 1<<63-1, 6, 0), 1 << 63, 2, 6, 0, false, 0}, "want": true, "note": "neighbour below a counter >= 2^63"})
		r.Sample(map[string]any{"case": c03Case{spellings(keys[1])[0], ref.HOTP(keys[1], 3, 6, 0), 0, 2, 6, 0, false, 0}, "want": inSet(ref.HOTP(keys[1], 3, 6, 0), hotpWindow(keys[1], 0, 2, 6, 0)), "note": "just outside the window"})
		r.Set("alphabet", map[string]any{"skew": "0..10 and refused 11,12,255,2^32,2^63,2^64-1", "counters": hotpValCounters, "digits": "1..10", "hash": "0..2", "submitted": "codes at distance -(s+3)..+(s+3); single-digit edits of first/middle/last window code (all 9 alternatives at first and last position); drop/extend/whitespace/NUL/full-width/Arabic-Indic/empty/doubled variants; complete code space for digits <= 4 (thorough: <= 6)"})
		r.Rule("every (secret, skew, counter, digits, hash) configuration x every submitted string through ValidateHOTP; oracle = exact membership of the string in the reference window set {HOTP(c') : max(0,c-s)<=c'<=c+s}; refused windows must return (false, error) with zero derivations (counted at the HMAC constructor seam); distinct = distinct (config, string, verdict) tuples at 6 digits plus acceptance counts of complete code spaces")
		r.Assume("crypto/hmac; window arithmetic restricted to c+s <= 2^64-1 as the property states")
	}
}
