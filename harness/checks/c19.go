//go:build instr

package checks

import (
	"bufio"
	"encoding/json"
	"fmt"
	"github.com/ja7ad/otp/internal/app/api"
	"net/http"
	"os"
	"os/exec"
	"path/filepath"
	"reflect"
	"runtime"
	"sort"
	"strings"
	"sync"
	"sync/atomic"
	"time"
	"unsafe"

	"github.com/ja7ad/otp/verifharness/ev"
	"github.com/ja7ad/otp/verifharness/irt"
	"github.com/ja7ad/otp/verifharness/ref"
	"github.com/ja7ad/otp/verifharness/xplore"
	"github.com/valyala/fasthttp"
)

func init() { register("C19", "model_checking", c19) }

// fault is one adversarial request class.  MustFail: the request is invalid by construction
// (broken JSON, wrong type, missing required field, wrong method, unknown path), so a success
// status would not distinguish success from failure.
type fault struct {
	Name     string `json:"name"`
	Req      rreq   `json:"request"`
	MustFail bool   `json:"must_fail"`
}

type c19Case struct {
	Faults []fault `json:"faults"` // each is followed by a probe
	Probes []int   `json:"probes"`
	Reuse  bool    `json:"reuse_ctx"`
}

const c19Budget = 2_000_000

// c19AllocBudget bounds the heap allocation of the whole process while ONE request (at most 1 MiB) is handled
// in-process: the unchanged service needs < 100 MiB for its most expensive request; see max_alloc in the evidence.
const c19AllocBudget = 2 << 30

var c19MaxAlloc atomic.Uint64
var c19MaxSteps atomic.Int64

// c19MaxWait bounds the waiting (time.Sleep, timers) the handling of one request may ASK for; it equals the
// server's own write timeout.  The quantity is the sum of the requested durations, not elapsed time.
const c19MaxWait = 10 * time.Second

// seriesFaults are request series of length 40: the same request (or a rotation of three) over and over, ended
// by a well-formed one for the same secret - anything that keeps a tally per client, secret or path (throttles,
// lock-outs, growing tables) shows its worst case only after many repetitions.
func seriesFaults() [][]fault {
	s2 := ref.B32Encode([]byte("series-secret-0123456789"))
	k2 := []byte("series-secret-0123456789")
	wrongH := fault{"POST /hotp/validate wrong code (series)", rawReq("POST", "/hotp/validate", fmt.Sprintf(`{"secret":%q,"counter":5,"code":%q}`, s2, ref.HOTP(k2, 77, 6, 0))), false}
	wrongT := fault{"POST /totp/validate wrong code (series)", rawReq("POST", "/totp/validate", fmt.Sprintf(`{"secret":%q,"timestamp":59,"code":%q}`, s2, ref.HOTP(k2, 77, 6, 0))), false}
	wrongO := fault{"POST /ocra/validate wrong code (series)", rawReq("POST", "/ocra/validate", fmt.Sprintf(`{"secret":%q,"raw_suite":"OCRA-1:HOTP-SHA1-6:QN08","input":{"challenge_hex":"3132333435363738"},"code":"000001"}`, s2)), false}
	rightH := fault{"POST /hotp/validate right code (series end)", rawReq("POST", "/hotp/validate", fmt.Sprintf(`{"secret":%q,"counter":5,"code":%q}`, s2, ref.HOTP(k2, 5, 6, 0))), false}
	badSec := fault{"POST /hotp/validate undecodable secret (series)", rawReq("POST", "/hotp/validate", `{"secret":"!!!","counter":5,"code":"000000"}`), false} // a validation: the service may answer valid:false
	broken := fault{"POST /totp/generate broken JSON (series)", rawReq("POST", "/totp/generate", `{"secret":`), true}
	nope := fault{"GET /nope (series)", rawReq("GET", "/nope", ""), true}
	badSuite := fault{"POST /ocra/suite unknown suite (series)", rawReq("POST", "/ocra/suite", `{"raw_suite":"OCRA-1:HOTP-SHA1-6:QN99"}`), true}
	gen := fault{"POST /hotp/generate (series)", rawReq("POST", "/hotp/generate", fmt.Sprintf(`{"secret":%q,"counter":5}`, s2)), false}
	rep := func(end fault, fs ...fault) []fault {
		var out []fault
		for i := 0; i < 40; i++ {
			out = append(out, fs[i%len(fs)])
		}
		return append(out, end)
	}
	return [][]fault{rep(rightH, wrongH), rep(rightH, wrongT), rep(rightH, wrongO), rep(rightH, wrongH, wrongT, wrongO), rep(rightH, badSec), rep(gen, broken), rep(gen, nope), rep(gen, badSuite), rep(rightH, gen)}
}

func rawReq(method, path, body string) rreq {
	b := body
	return rreq{Method: method, Path: path, Raw: &b}
}

var postEndpoints = map[string][]string{ // endpoint -> fields (s: string, n: number, o: object)
	"/totp/generate": {"s:secret", "n:timestamp", "s:digits", "n:period", "s:algorithm"},
	"/totp/validate": {"s:secret", "s:code", "n:timestamp", "s:digits", "n:period", "n:skew", "s:algorithm"},
	"/hotp/generate": {"s:secret", "n:counter", "s:digits", "s:algorithm"},
	"/hotp/validate": {"s:secret", "s:code", "n:counter", "s:digits", "n:skew", "s:algorithm"},
	"/ocra/generate": {"s:secret", "s:raw_suite", "o:suite", "o:input"},
	"/ocra/validate": {"s:secret", "s:code", "s:raw_suite", "o:suite", "o:input"},
	"/ocra/suite":    {"s:raw_suite"},
	"/otp/url":       {"s:type", "s:secret", "s:issuer", "s:account_name", "n:period", "s:digits", "s:algorithm"},
}

func validBody(path string) map[string]string {
	u := ref.B32Encode(restKey)
	// optional fields carry NON-default values, so that anything a rejected request leaves behind shows in a later minimal probe
	m := map[string]string{"secret": `"` + u + `"`, "code": `"123456"`, "timestamp": "1111111109", "counter": "5", "digits": `"8"`, "period": "7", "skew": "10", "algorithm": `"SHA512"`,
		"raw_suite": `"OCRA-1:HOTP-SHA1-6:QN08"`, "input": `{"challenge_hex":"3132333435363738"}`, "type": `"totp"`, "issuer": `"Iss"`, "account_name": `"acc"`}
	out := map[string]string{}
	for _, f := range postEndpoints[path] {
		n := f[2:]
		if v, ok := m[n]; ok {
			out[n] = v
		}
	}
	return out
}

func bodyOf(m map[string]string) string {
	var ks []string
	for k := range m {
		ks = append(ks, k)
	}
	sort.Strings(ks)
	var parts []string
	for _, k := range ks {
		parts = append(parts, fmt.Sprintf("%q:%s", k, m[k]))
	}
	return "{" + strings.Join(parts, ",") + "}"
}

func faultList() []fault {
	var out []fault
	var paths []string
	for p := range postEndpoints {
		paths = append(paths, p)
	}
	sort.Strings(paths)
	big := strings.Repeat("[", 1<<20)
	mib := `"` + strings.Repeat("A", 1<<20-4096) + `"` // the whole body stays under the 1 MiB limit
	for _, p := range paths {
		good := bodyOf(validBody(p))
		// syntactically broken JSON
		for i, b := range []string{"", "{", `{"secret":`, good + "garbage", good[:len(good)-1] + ",}", "[]", `"str"`, "123", "null", "true", big, strings.Repeat(`{"a":`, 12000), "\xff\xfe\x00", good[:len(good)/2], "{}"} {
			out = append(out, fault{fmt.Sprintf("%s broken-json#%d", p, i), rawReq("POST", p, b), true})
		}
		// every field with every JSON type
		for _, f := range postEndpoints[p] {
			kind, name := f[0], f[2:]
			for _, tv := range []string{"null", "true", "123", `"str"`, "[]", "{}", "[1,2]", `{"x":1}`} {
				m := validBody(p)
				m[name] = tv
				wrong := true
				switch {
				case tv == "null":
					wrong = false // null leaves the field at its zero value: judged like an absent field
				case kind == 's' && tv == `"str"`, kind == 'n' && tv == "123", kind == 'o' && (tv == "{}" || tv == `{"x":1}`):
					wrong = false
				}
				out = append(out, fault{fmt.Sprintf("%s %s=%s", p, name, tv), rawReq("POST", p, bodyOf(m)), wrong})
			}
			if kind == 'n' {
				for _, nv := range []string{"-1", "1e30", "9223372036854775807", "9223372036854775808", "18446744073709551615", "18446744073709551616", "1.5", "-0", "1e400", "4294967296", "0",
					// legal JSON numbers whose TEXT is extreme although their value is not: zero mantissa with a huge exponent,
					// huge negative exponents, long fractions, long runs of zeros (hand-written number parsing loops over these)
					"0e18446744073709551615", "0E+999999999999", "0.0e99999999", "-0e9223372036854775807", "1e-99999999999", "5e-324", "0e-18446744073709551615",
					"0." + strings.Repeat("0", 70000) + "1", "1" + strings.Repeat("0", 70000), strings.Repeat("1", 400) + "e-399", "1e0000000000000000000000000000000000000001", "3e00"} {
					m := validBody(p)
					m[name] = nv
					out = append(out, fault{fmt.Sprintf("%s %s=%s", p, name, nv), rawReq("POST", p, bodyOf(m)), false})
				}
			}
			if kind == 's' {
				for i, sv := range []string{`""`, `" "`, `"\u0000"`, `"\ud800"`, mib, `"` + strings.Repeat("-", 70000) + `"`,
					// long texts that ALTERNATE between classes (a cleaning loop that handles one separator at a time
					// does its worst on these): 100 KB and ~1 MiB
					`"` + strings.Repeat("A-", 50000) + `"`, `"` + strings.Repeat("A ", 50000) + `"`, `"` + strings.Repeat("A-B C=", 87000) + `"`,
					`"` + strings.Repeat("A-", 1<<19-4096) + `"`, `"` + strings.Repeat(" A", 1<<19-4096) + `"`, `"` + strings.Repeat("7=", 1<<19-4096) + `"`} {
					m := validBody(p)
					m[name] = sv
					out = append(out, fault{fmt.Sprintf("%s %s=string#%d", p, name, i), rawReq("POST", p, bodyOf(m)), false})
				}
			}
		}
		// missing required fields
		for _, f := range postEndpoints[p] {
			name := f[2:]
			if name == "secret" || name == "code" || name == "type" || name == "issuer" || name == "account_name" || (name == "raw_suite" && p == "/ocra/suite") || name == "input" {
				m := validBody(p)
				delete(m, name)
				out = append(out, fault{fmt.Sprintf("%s without %s", p, name), rawReq("POST", p, bodyOf(m)), true})
			}
		}
		for _, m := range []string{"GET", "PUT", "DELETE", "HEAD", "PATCH", "OPTIONS"} {
			out = append(out, fault{p + " method " + m, rawReq(m, p, good), true})
		}
	}
	// request HEADERS: everything so far varied the request line and the body only.  Header values a client (or a proxy
	// in front of the service) may send, on a well-formed request, a refused one and a bodiless one
	{
		long := strings.Repeat("h", 7000)
		hv := map[string][]string{
			"User-Agent":       {"", " ", "probe", "fasthttp", strings.Repeat("a", 40), "a/b", "Mozilla/5.0 (X11; Linux x86_64) Gecko/20100101", "x;y", "(", "/", "\xc3\xa9t\xc3\xa9", long},
			"Accept":           {"", "*/*", "text/html", "application/json;q=0.9,*/*;q=0.1", ";;;", long},
			"Accept-Encoding":  {"gzip", "br, gzip, deflate", "identity;q=0", "", "x"},
			"Content-Type":     {"", "text/plain", "application/json; charset=utf-8", "application/x-www-form-urlencoded", "multipart/form-data; boundary=", "APPLICATION/JSON", ";"},
			"Content-Encoding": {"gzip", "identity", "br"},
			"X-Forwarded-For":  {"1.2.3.4", "garbage", "::1", "1.2.3.4, 5.6.7.8, " + strings.Repeat("9.9.9.9, ", 300), ""},
			"X-Request-Id":     {"", "1", long},
			"Authorization":    {"", "Bearer", "Bearer x", "Basic !!!", "Basic " + strings.Repeat("QQ", 2000)},
			"Cookie":           {"", "a", "a=b; c", "=", strings.Repeat("k=v; ", 1000)},
			"Connection":       {"close", "keep-alive", "upgrade", "x"},
			"Upgrade":          {"websocket", "h2c"},
			"Expect":           {"100-continue", "x"},
			"Range":            {"bytes=0-1", "bytes=-1", "x"},
			"If-None-Match":    {"*", "\"x\""},
			"Origin":           {"null", "https://example.com", "x"},
			"Referer":          {"", "http://" + strings.Repeat("r", 3000)},
			"Host":             {"", "x", "x:y", "[::1]", strings.Repeat("h", 300)},
		}
		var names []string
		for n := range hv {
			names = append(names, n)
		}
		sort.Strings(names)
		good := bodyOf(validBody("/hotp/generate"))
		for _, n := range names {
			for i, v := range hv[n] {
				h := map[string]string{n: v}
				q1 := rawReq("POST", "/hotp/generate", good)
				q1.Headers = h
				q2 := rawReq("GET", "/ocra/suites", "")
				q2.Headers = h
				q3 := rawReq("PUT", "/totp/validate", good)
				q3.Headers = h
				out = append(out, fault{fmt.Sprintf("POST /hotp/generate with header %s #%d", n, i), q1, false}, fault{fmt.Sprintf("GET /ocra/suites with header %s #%d", n, i), q2, false}, fault{fmt.Sprintf("PUT /totp/validate with header %s #%d", n, i), q3, true})
			}
		}
	}
	// COMPRESSED bodies: the 1 MiB body limit bounds the bytes on the wire; a service that inflates what a client
	// declares as gzip / deflate must bound what comes out as well (half a GiB of blanks packs into half a MiB)
	{
		vb := bodyOf(validBody("/hotp/generate"))
		head, tail := vb[:len(vb)-1], vb[len(vb)-1:]
		for _, enc := range []string{"gzip", "deflate"} {
			for _, blanks := range []int{0, 1 << 16, 512 << 20} {
				for _, path := range []string{"/hotp/generate", "/ocra/validate"} {
					q := rreq{Method: "POST", Path: path, Headers: map[string]string{"Content-Encoding": enc}, Packed: &packed{Encoding: enc, Head: head, Blanks: blanks, Tail: tail}}
					out = append(out, fault{fmt.Sprintf("%s body declared and sent as %s, inflating to %d blanks inside the JSON object", path, enc, blanks), q, false})
				}
			}
			// the declaration without the substance, and the substance without the declaration
			q := rawReq("POST", "/hotp/generate", vb)
			q.Headers = map[string]string{"Content-Encoding": enc}
			out = append(out, fault{"plain body declared as " + enc, q, false})
			out = append(out, fault{enc + " body without the declaration", rreq{Method: "POST", Path: "/hotp/generate", Packed: &packed{Encoding: enc, Head: head, Blanks: 1 << 16, Tail: tail}}, false})
		}
	}
	// skew / period / counter / timestamp extremes in combination
	u := ref.B32Encode(restKey)
	for _, sk := range []string{"11", "255", "3000000", "4294967295", "4294967296", "9223372036854775807", "9223372036854775808", "18446744073709551615"} {
		for _, p := range []string{"/totp/validate", "/hotp/validate"} {
			for _, code := range []string{"123456", "12345", "1234567"} {
				out = append(out, fault{fmt.Sprintf("%s skew=%s code=%s", p, sk, code), rawReq("POST", p, fmt.Sprintf(`{"secret":%q,"code":%q,"timestamp":59,"counter":5,"skew":%s}`, u, code, sk)), false})
			}
		}
	}
	for _, per := range []string{"0", "1", "4294967295", "4294967296", "18446744073709551615"} {
		for _, ts := range []string{"0", "-1", "1", "9223372036854775807", "4611686018427387904"} {
			out = append(out, fault{fmt.Sprintf("/totp/generate period=%s timestamp=%s", per, ts), rawReq("POST", "/totp/generate", fmt.Sprintf(`{"secret":%q,"period":%s,"timestamp":%s}`, u, per, ts)), false})
			out = append(out, fault{fmt.Sprintf("/totp/validate period=%s timestamp=%s", per, ts), rawReq("POST", "/totp/validate", fmt.Sprintf(`{"secret":%q,"code":"123456","period":%s,"timestamp":%s,"skew":10}`, u, per, ts)), false})
		}
	}
	// unknown and contradictory suites
	in := `{"challenge_hex":"3132333435363738"}`
	su := `{"hash_function":"SHA1","code_digits":6,"challenge_format":1,"include_challenge":true}`
	for i, b := range []string{
		fmt.Sprintf(`{"secret":%q,"raw_suite":"OCRA-1:HOTP-SHA1-6:QN99","input":%s}`, u, in),
		fmt.Sprintf(`{"secret":%q,"raw_suite":" ","suite":%s,"input":%s}`, u, su, in),
		fmt.Sprintf(`{"secret":%q,"raw_suite":"","input":%s}`, u, in),
		fmt.Sprintf(`{"secret":%q,"raw_suite":"OCRA-1:HOTP-SHA1-6:QN08","suite":{"code_digits":-1},"input":%s}`, u, in),
		fmt.Sprintf(`{"secret":%q,"raw_suite":"OCRA-1:HOTP-SHA256-8:C-QA10","suite":%s,"input":%s}`, u, su, in),
		fmt.Sprintf(`{"secret":%q,"suite":{"hash_function":"MD5","code_digits":2147483648,"challenge_format":99,"include_challenge":true,"include_password":true,"password_hash":-3},"input":%s}`, u, in),
		fmt.Sprintf(`{"secret":%q,"suite":{"code_digits":-9223372036854775808,"challenge_format":-1,"include_timestamp":true,"timestep":-1},"input":%s}`, u, in),
		fmt.Sprintf(`{"secret":%q,"suite":%s,"input":{"challenge_hex":"%s"}}`, u, su, strings.Repeat("ab", 70000)),
		fmt.Sprintf(`{"secret":%q,"suite":%s,"input":{"challenge_hex":"zz","counter_hex":"0"}}`, u, su),
		fmt.Sprintf(`{"secret":%q,"suite":%s,"input":null}`, u, su),
		fmt.Sprintf(`{"secret":%q,"suite":null,"input":%s}`, u, in),
		fmt.Sprintf(`{"secret":%q,"suite":%s,"input":%s,"raw_suite":"%s"}`, u, su, in, strings.Repeat(":", 40000)),
	} {
		mf := i == 0 || i == 2 || i == 9 || i == 10
		out = append(out, fault{fmt.Sprintf("/ocra/generate suite-fault#%d", i), rawReq("POST", "/ocra/generate", b), mf})
		bv := `{"code":"123456",` + b[1:]
		out = append(out, fault{fmt.Sprintf("/ocra/validate suite-fault#%d", i), rawReq("POST", "/ocra/validate", bv), mf})
	}
	// GET endpoints, unknown paths, docs
	for _, m := range []string{"POST", "PUT", "DELETE", "HEAD"} {
		for _, p := range []string{"/ocra/suites", "/otp/secret", "/"} {
			out = append(out, fault{p + " method " + m, rawReq(m, p, "{}"), m != "HEAD" || true})
		}
	}
	for _, p := range []string{"/x", "/hotp/generate/", "/HOTP/GENERATE", "/hotp", "/hotp/generate/../validate", "/%2e%2e/etc/passwd", "/otp/secret/x", strings.Repeat("/a", 3000)} {
		out = append(out, fault{"unknown path " + trunc80(p), rawReq("GET", p, ""), true}, fault{"unknown path POST " + trunc80(p), rawReq("POST", p, "{}"), true})
	}
	// every first byte of a body, alone / doubled / in front of a well-formed body, and the byte-order-mark look-alikes:
	// whatever a layer strips or skips in front of the JSON must end
	{
		good := bodyOf(validBody("/hotp/generate"))
		for b := 0; b < 256; b++ {
			ch := string([]byte{byte(b)})
			out = append(out, fault{fmt.Sprintf("/hotp/generate body = byte %#02x", b), rawReq("POST", "/hotp/generate", ch), true},
				fault{fmt.Sprintf("/hotp/generate body = byte %#02x twice", b), rawReq("POST", "/hotp/generate", ch+ch), true},
				fault{fmt.Sprintf("/ocra/validate body = byte %#02x + well-formed body", b), rawReq("POST", "/ocra/validate", ch+bodyOf(validBody("/ocra/validate"))), b != ' ' && b != '\t' && b != '\n' && b != '\r'})
		}
		for i, pre := range []string{"\xef", "\xef\xbb", "\xef\xbb\xbf", "\xef\xbb\xbf\xef", "\xef\xbb\xbf \xef\xbb", "\xfe\xff", "\xff\xfe", "\x00\x00\xfe\xff", " \xef", "\xef\xbf\xbd", "\xc2\xa0", "\xe2\x80\xa8", "/*", "//", "<!--", "#"} {
			out = append(out, fault{fmt.Sprintf("/hotp/generate body prefix#%d alone", i), rawReq("POST", "/hotp/generate", pre), true},
				fault{fmt.Sprintf("/hotp/generate body prefix#%d + well-formed body", i), rawReq("POST", "/hotp/generate", pre+good), false},
				fault{fmt.Sprintf("/totp/validate body prefix#%d + blanks", i), rawReq("POST", "/totp/validate", pre+"   "), true})
		}
	}
	// request paths of every length class around 64 / 128 / 256 / 1024 bytes in several byte contents (ASCII, multi-byte
	// UTF-8 at the end / across the boundary / throughout, continuation bytes only, a truncated sequence, 0xFF,
	// escaped slashes and NULs): whatever a layer does with the path (logging, metrics labels, routing) must not fail
	esc := func(b []byte) string {
		var sb strings.Builder
		for _, c := range b {
			if c >= 'a' && c <= 'z' || c == '/' {
				sb.WriteByte(c)
			} else {
				fmt.Fprintf(&sb, "%%%02X", c)
			}
		}
		return sb.String()
	}
	var plens []int
	for n := 58; n <= 72; n++ {
		plens = append(plens, n)
	}
	plens = append(plens, 126, 127, 128, 129, 130, 254, 255, 256, 257, 258, 1023, 1024, 1025)
	for _, n := range plens {
		fill := func(unit string) []byte { return []byte(strings.Repeat(unit, n/len(unit)+1))[:n-1] }
		as := fill("a")
		contents := map[string][]byte{
			"ascii":              as,
			"2-byte-char-at-end": append(append([]byte{}, as[:n-3]...), 0xC3, 0xA9),
			"3-byte-char-at-end": append(append([]byte{}, as[:n-4]...), 0xE2, 0x82, 0xAC),
			"4-byte-char-at-end": append(append([]byte{}, as[:n-5]...), 0xF0, 0x9F, 0x98, 0x80),
			"2-byte-chars":       fill("\u00e9"),
			"3-byte-chars":       fill("\u20ac"),
			"continuation-bytes": fill("\x80\xbf"),
			"truncated-sequence": append(append([]byte{}, as[:n-2]...), 0xE2),
			"ff":                 fill("\xff"),
			"nul-and-slash":      fill("a\x00%2f"),
		}
		var names []string
		for k := range contents {
			names = append(names, k)
		}
		sort.Strings(names)
		for _, k := range names {
			p := "/" + esc(contents[k])
			out = append(out, fault{fmt.Sprintf("unknown path of %d bytes (%s)", n, k), rawReq("GET", p, ""), true})
			if n%2 == 0 {
				out = append(out, fault{fmt.Sprintf("unknown path of %d bytes (%s) POST", n, k), rawReq("POST", p, "{}"), true})
			}
		}
	}
	for _, p := range []string{"/docs", "/docs/", "/docs/index.html", "/docs/doc.json", "/docs/nonexistent", "/docs/../x"} {
		out = append(out, fault{"docs " + p, rawReq("GET", p, ""), false})
	}
	out = append(out, fault{"/otp/secret algorithm=1MiB", rreq{Method: "GET", Path: "/otp/secret", Query: "algorithm=" + strings.Repeat("A", 4000)}, false})
	return out
}

func probes() []rreq {
	u := ref.B32Encode(restKey)
	sh := shape{Hash: 0, Digits: 6, Q: true, QF: 1}
	return []rreq{
		{Method: "POST", Path: "/hotp/generate", Fields: map[string]any{"secret": u, "counter": 3, "digits": "8", "algorithm": "SHA512"}},
		{Method: "POST", Path: "/totp/validate", Fields: map[string]any{"secret": u, "timestamp": 59, "code": ref.HOTP(restKey, 2, 6, 0), "skew": 1}},
		{Method: "POST", Path: "/ocra/generate", Fields: map[string]any{"secret": u, "raw_suite": "OCRA-1:HOTP-SHA1-6:QN08", "input": ocraInputFor(sh, 2)}},
		{Method: "GET", Path: "/ocra/suites"},
		{Method: "POST", Path: "/totp/generate", Fields: map[string]any{"secret": u, "timestamp": 1111111109, "digits": "10", "algorithm": "SHA256", "period": 60}},
		{Method: "POST", Path: "/hotp/validate", Fields: map[string]any{"secret": u, "counter": 7, "code": ref.HOTP(restKey, 9, 6, 0), "skew": 1}},
		// minimal probes: every optional field omitted, the answer differs between the documented default and a left-over value
		{Method: "POST", Path: "/hotp/validate", Fields: map[string]any{"secret": u, "code": ref.HOTP(restKey, 7, 6, 0), "counter": 5}},
		{Method: "POST", Path: "/hotp/validate", Fields: map[string]any{"secret": u, "code": ref.HOTP(restKey, 5, 6, 0), "counter": 5}},
		{Method: "POST", Path: "/hotp/validate", Fields: map[string]any{"secret": u, "code": ref.HOTP(restKey, 0, 6, 0)}},
		{Method: "POST", Path: "/totp/validate", Fields: map[string]any{"secret": u, "code": ref.HOTP(restKey, ref.Step(1111111109, 30)+1, 6, 0), "timestamp": 1111111109}},
		{Method: "POST", Path: "/totp/validate", Fields: map[string]any{"secret": u, "code": ref.HOTP(restKey, ref.Step(1111111109, 30), 6, 0), "timestamp": 1111111109}},
		{Method: "POST", Path: "/hotp/generate", Fields: map[string]any{"secret": u}},
		{Method: "POST", Path: "/totp/generate", Fields: map[string]any{"secret": u, "timestamp": 59}},
		{Method: "POST", Path: "/otp/url", Fields: map[string]any{"type": "totp", "secret": "JBSWY3DPEHPK3PXP", "issuer": "I", "account_name": "a"}},
		{Method: "POST", Path: "/ocra/generate", Fields: map[string]any{"secret": u, "suite": structuredSuite(sh), "input": ocraInputFor(sh, 1)}},
	}
}

// judge checks one response to a fault request.
func judge(f fault, resp restResp) string {
	if resp.Status < 100 || resp.Status > 599 {
		return fmt.Sprintf("status %d is not an HTTP status", resp.Status)
	}
	if f.MustFail && resp.Status < 400 {
		return fmt.Sprintf("invalid request answered with status %d (%s): success and failure are not distinguishable", resp.Status, trunc80(resp.Body))
	}
	if resp.Status >= 200 && resp.Status < 300 && strings.Contains(resp.CT, "json") {
		var v any
		if err := json.Unmarshal([]byte(resp.Body), &v); err != nil {
			return "2xx response with a body that is not JSON: " + trunc80(resp.Body)
		}
	}
	if resp.Status >= 400 && strings.Contains(resp.CT, "json") {
		var v map[string]any
		if err := json.Unmarshal([]byte(resp.Body), &v); err != nil {
			return "error response with a body that is not JSON: " + trunc80(resp.Body)
		}
		if _, hasCode := v["code"].(string); hasCode && len(v) == 1 {
			return "" // error envelope
		}
		if _, ok := v["valid"]; ok {
			return "failure status with a verdict body"
		}
	}
	return ""
}

// runFaults executes f1, probe, f2, probe ... and checks everything.
func runFaults(c c19Case, base map[string]uint64) (obs, bad string) {
	restInit()
	irt.ResetPools()
	pr := probes()
	var shared *fasthttp.RequestCtx
	if c.Reuse {
		shared = &fasthttp.RequestCtx{}
	}
	// on fresh contexts every response stays in flight (not yet written out) while later requests are handled
	type inflight struct {
		ctx  *fasthttp.RequestCtx
		body string
		what string
	}
	var held []inflight
	stillThere := func(after string) string {
		for _, h := range held {
			if now := string(h.ctx.Response.Body()); now != h.body {
				return fmt.Sprintf("the response to %s changed while %s was handled (before it was written out): was %s, now %s", h.what, after, trunc80(h.body), trunc80(now))
			}
		}
		return ""
	}
	for i, f := range c.Faults {
		ctx := shared
		if ctx == nil {
			ctx = &fasthttp.RequestCtx{}
		}
		var resp restResp
		irt.SetBudget(c19Budget)
		irt.ArmAlloc(c19AllocBudget)
		irt.VirtualTime(true)
		irt.ResetWaited()
		var pv any
		blocked := false
		func() {
			defer func() { pv = recover() }()
			blocked = !irt.RunGuarded(func() { resp = restDo(ctx, f.Req.Method, f.Req.uri(), f.Req.body(), f.Req.Headers) })
		}()
		if blocked {
			irt.SetBudget(0)
			return obs, fmt.Sprintf("fault %d (%s): no response: the handler is blocked (no statement executed for %d s)", i, f.Name, irt.StallSeconds)
		}
		steps := irt.StepCount()
		irt.SetBudget(0)
		allocated := irt.Allocated()
		if allocated > c19MaxAlloc.Load() {
			c19MaxAlloc.Store(allocated)
		}
		irt.ArmAlloc(0)
		if _, cut := irt.AllocExceeded(pv); !cut && allocated > c19AllocBudget {
			return obs, fmt.Sprintf("fault %d (%s): %d MiB allocated for one request of %d bytes (budget %d MiB: work unbounded in a request parameter)", i, f.Name, allocated>>20, len(f.Req.body()), c19AllocBudget>>20)
		}
		if int64(steps) > c19MaxSteps.Load() {
			c19MaxSteps.Store(int64(steps))
		}
		if w := irt.Waited(); w > c19MaxWait {
			return obs, fmt.Sprintf("fault %d (%s): the handling of ONE request asks to wait %v in total (sleeps / timers; more than %v is not a bounded response time)", i, f.Name, w, c19MaxWait)
		}
		if pv != nil {
			if a, ok := irt.AllocExceeded(pv); ok {
				return obs, fmt.Sprintf("fault %d (%s): more than %d MiB allocated for one request of %d bytes (%d MiB when it was cut off: work unbounded in a request parameter)", i, f.Name, c19AllocBudget>>20, len(f.Req.body()), a>>20)
			}
			if irt.IsBudget(pv) {
				return obs, fmt.Sprintf("fault %d (%s): more than %d statements of work for one request (work unbounded in a request parameter)", i, f.Name, int64(c19Budget))
			}
			return obs, fmt.Sprintf("fault %d (%s): panic escaped the handler chain: %v", i, f.Name, pv)
		}
		obs += fmt.Sprintf("[%d|%d steps]", resp.Status, steps)
		if d := judge(f, resp); d != "" {
			return obs, fmt.Sprintf("fault %d (%s): %s", i, f.Name, d)
		}
		if shared == nil {
			held = append(held, inflight{ctx, resp.Body, "fault " + f.Name})
			// a second, different rejected request while the first answer is still in flight
			other := &fasthttp.RequestCtx{}
			oresp := restDo(other, "PUT", "/totp/generate", []byte("{"))
			held = append(held, inflight{other, oresp.Body, "a rejected PUT /totp/generate"})
			if d := stillThere("a rejected PUT /totp/generate"); d != "" {
				return obs, d
			}
		}
		q := pr[c.Probes[i]%len(pr)]
		pctx := shared
		if pctx == nil {
			pctx = &fasthttp.RequestCtx{}
		}
		irt.ResetWaited()
		presp, d := doInProc(pctx, q)
		if w := irt.Waited(); w > c19MaxWait {
			return obs, fmt.Sprintf("probe %s after fault %d (%s): the handling of the probe asks to wait %v in total", q.Path, i, f.Name, w)
		}
		obs += fmt.Sprintf("(%d)", presp.Status)
		if d != "" {
			return obs, fmt.Sprintf("probe %s after fault %d (%s): %s", q.Path, i, f.Name, d)
		}
		if d := stillThere("probe " + q.Path); d != "" {
			return obs, d
		}
	}
	if base != nil {
		if d := irt.DiffGlobals(base, nonPool(irt.Globals())); len(d) > 0 {
			return obs, fmt.Sprintf("read-only package-level variable(s) %v modified", d)
		}
	}
	return obs, ""
}

type c19ChildFail struct {
	Scenario, Sig, Want, Got string
	Case                     c19Case
	Sched                    *c19Sched `json:",omitempty"`
}

// c19Sched is one interleaving of overlapping refused requests.
type c19Sched struct {
	Faults  []fault `json:"overlapping_requests"`
	Choices []int   `json:"choices"`
}

// schedFaults are the refused-request classes whose handling is explored under overlap.
func schedFaults() []fault {
	good := bodyOf(validBody("/hotp/generate"))
	return []fault{
		{"GET /totp/generate (wrong method)", rawReq("GET", "/totp/generate", ""), true},
		{"POST /otp/secret (wrong method)", rawReq("POST", "/otp/secret", "{}"), true},
		{"PUT /hotp/generate (wrong method, valid body)", rawReq("PUT", "/hotp/generate", good), true},
		{"GET /nope (unknown path)", rawReq("GET", "/nope", ""), true},
		{"POST /hotp/generate broken JSON", rawReq("POST", "/hotp/generate", `{"secret":`), true},
		{"POST /hotp/validate missing code", rawReq("POST", "/hotp/validate", `{"secret":"GEZDGNBVGY3TQOJQ"}`), true},
		{"POST /ocra/generate unknown suite", rawReq("POST", "/ocra/generate", `{"secret":"GEZDGNBVGY3TQOJQ","raw_suite":"OCRA-1:HOTP-SHA1-6:QN99","input":{"challenge_hex":"3132333435363738"}}`), true},
	}
}

// runFaultSchedule runs the given refused requests as logical threads under the cooperative scheduler; every
// response must be exactly the response the same request gets alone (status and body).
// c19Snap is the state of all package-level variables (library and REST package) before the first request of the
// process; restoring it makes every execution a "first use" (lazily filled caches are cold again).
var c19Snap irt.Snapshot

func runFaultSchedule(fs []fault, x *xplore.X) (obs, bad string) {
	restInit()
	if c19Snap == nil {
		c19Snap = irt.SnapshotGlobals()
	}
	c19Snap.Restore()
	irt.ResetPools()
	alone := make([]restResp, len(fs))
	stable := make([]bool, len(fs))
	for i, f := range fs {
		a1 := restDo(nil, f.Req.Method, f.Req.uri(), f.Req.body())
		a2 := restDo(nil, f.Req.Method, f.Req.uri(), f.Req.body())
		a1.Body, a2.Body = canonJSON(a1.Body), canonJSON(a2.Body)
		alone[i], stable[i] = a1, a1 == a2
	}
	c19Snap.Restore() // the answers "alone" have warmed whatever is filled lazily: cold again for the overlap
	irt.ResetPools()
	got := make([]restResp, len(fs))
	var bodies []func()
	for i := range fs {
		i := i
		bodies = append(bodies, func() {
			got[i] = restDo(nil, fs[i].Req.Method, fs[i].Req.uri(), fs[i].Req.body())
		})
	}
	res := irt.RunThreads(x, 100000, true, bodies)
	for _, p := range res.Panics {
		if strings.Contains(p, "replay diverged") {
			return "", "NONDETERMINISM: " + p
		}
	}
	if res.Deadlock || res.Overrun || len(res.Panics) > 0 {
		return "abnormal", fmt.Sprintf("overlapping refused requests: deadlock=%v overrun=%v panics=%v", res.Deadlock, res.Overrun, res.Panics)
	}
	for i := range fs {
		got[i].Body = canonJSON(got[i].Body)
		obs += fmt.Sprintf("[%d %s]", got[i].Status, trunc80(got[i].Body))
		if got[i].Status != alone[i].Status || (stable[i] && got[i].Body != alone[i].Body) {
			return obs, fmt.Sprintf("request %d (%s) overlapping with the other(s) is answered %d %s, alone it is answered %d %s", i, fs[i].Name, got[i].Status, trunc80(got[i].Body), alone[i].Status, trunc80(alone[i].Body))
		}
	}
	return obs, ""
}

type c19ChildResult struct {
	Sched            int64
	StateKeys        []uint64
	N, States, Trans int64
	Core             int
	Statuses         map[int]int
	Distinct         []uint64
	Fails            []c19ChildFail
	MaxAlloc         uint64
	MaxSteps         int64
}

func faultNames(fs []fault) []string {
	var out []string
	for _, f := range fs {
		out = append(out, f.Name)
	}
	return out
}

// c19InProc is the in-process exploration (child side): it leaves a marker naming the sequence in
// flight before each one, and prints its result at the end.
func c19InProc(r *ev.Run, fl []fault, base map[string]uint64) {
	marker := os.Getenv("VERIF_MARKER")
	out := c19ChildResult{Statuses: map[int]int{}}
	states := map[string]bool{}
	dist := map[uint64]bool{}
	run := func(c c19Case, idx string) {
		if marker != "" {
			os.WriteFile(marker, []byte(idx), 0o644)
		}
		obs, bad := runFaults(c, base)
		out.N++
		out.Trans += int64(2 * len(c.Faults))
		states[irt.Digest(true)] = true
		if bad != "" && len(out.Fails) < 30 {
			out.Fails = append(out.Fails, c19ChildFail{Scenario: "fault-sequence", Sig: bad, Want: "complete response, consistent status, probes exact, bounded work", Got: obs + " " + bad, Case: c})
		}
		var st int
		fmt.Sscanf(obs, "[%d|", &st)
		out.Statuses[st]++
		dist[ev.H(obs)] = true
	}
	shard, shards := 0, 1
	fmt.Sscanf(os.Getenv("VERIF_SHARD"), "%d %d", &shard, &shards)
	if shards < 1 {
		shards = 1
	}
	seq := 0
	mine := func() bool { seq++; return seq%shards == shard }
	if one := os.Getenv("VERIF_ONE"); one != "" {
		// replay of a single sequence given by indices
		c, ok := c19CaseOf(fl, one)
		if ok {
			run(c, one)
		}
	} else {
		np := len(probes())
		for i, f := range fl {
			for pi := 0; pi < np; pi++ {
				if len(f.Req.body()) > 100000 && pi%5 != i%5 {
					continue // the few huge bodies meet a rotating fifth of the probes
				}
				if !mine() {
					continue
				}
				run(c19Case{[]fault{f}, []int{pi}, (i+pi)%2 == 0}, fmt.Sprintf("1 %d %d %v", i, pi, (i+pi)%2 == 0))
			}
			if len(out.Fails) >= 30 {
				break
			}
		}
		var core []int
		if r.Thorough() {
			for i := range fl {
				core = append(core, i)
			}
		} else {
			step := len(fl) / 60
			for i := 0; i < len(fl); i += step {
				core = append(core, i)
			}
		}
		out.Core = len(core)
		for _, i := range core {
			for _, j := range core {
				a, b := fl[i], fl[j]
				if r.Thorough() && len(a.Req.body()) > 100000 && len(b.Req.body()) > 100000 {
					continue
				}
				if !mine() {
					continue
				}
				run(c19Case{[]fault{a, b}, []int{i + j, i + 2*j + 1}, true}, fmt.Sprintf("2 %d %d %d %d", i, j, i+j, i+2*j+1))
			}
			if len(out.Fails) >= 30 {
				break
			}
		}
	}
	if os.Getenv("VERIF_ONE") == "" {
		for k, fs := range seriesFaults() {
			for _, reuse := range []bool{true, false} {
				if !mine() {
					continue
				}
				probesIx := make([]int, len(fs))
				for i := range probesIx {
					probesIx[i] = k + 3*i
				}
				run(c19Case{fs, probesIx, reuse}, fmt.Sprintf("3 %d %v", k, reuse))
			}
		}
	}
	if shard == 0 && os.Getenv("VERIF_ONE") == "" {
		// overlapping refused requests: all interleavings of every pair (and one triple) of classes, preemption-bounded
		sf := schedFaults()
		var combos [][]fault
		for i := range sf {
			for j := i; j < len(sf); j++ {
				combos = append(combos, []fault{sf[i], sf[j]})
			}
		}
		combos = append(combos, []fault{sf[0], sf[1], sf[3]})
		// well-formed requests meeting for the first time in the process: the same request twice, and two of a kind
		u := ref.B32Encode(restKey)
		ok := func(name, method, path, body string) fault { return fault{name, rawReq(method, path, body), false} }
		suiteA := ok("POST /ocra/suite A", "POST", "/ocra/suite", `{"raw_suite":"OCRA-1:HOTP-SHA512-8:C-QH10-PSHA512-S-T1"}`)
		suiteB := ok("POST /ocra/suite B", "POST", "/ocra/suite", `{"raw_suite":"OCRA-1:HOTP-SHA1-6:QN08"}`)
		hg := ok("POST /hotp/generate", "POST", "/hotp/generate", fmt.Sprintf(`{"secret":%q,"counter":9,"digits":"8","algorithm":"SHA256"}`, u))
		tv := ok("POST /totp/validate", "POST", "/totp/validate", fmt.Sprintf(`{"secret":%q,"timestamp":59,"code":%q,"skew":1}`, u, ref.HOTP(restKey, 2, 6, 0)))
		og := ok("POST /ocra/generate", "POST", "/ocra/generate", fmt.Sprintf(`{"secret":%q,"raw_suite":"OCRA-1:HOTP-SHA1-6:QN08","input":{"challenge_hex":"3132333435363738"}}`, u))
		ou := ok("POST /otp/url", "POST", "/otp/url", fmt.Sprintf(`{"type":"totp","secret":%q,"issuer":"I","account_name":"a"}`, u))
		ls := ok("GET /ocra/suites", "GET", "/ocra/suites", "")
		hm := ok("GET /", "GET", "/", "")
		combos = append(combos, []fault{suiteA, suiteA}, []fault{suiteA, suiteB}, []fault{hg, hg}, []fault{tv, tv}, []fault{og, og}, []fault{ou, ou}, []fault{ls, ls}, []fault{hm, hm}, []fault{og, suiteB}, []fault{hg, tv}, []fault{ls, suiteA}, []fault{suiteA, suiteA, suiteA})
		bound := 1
		if r.Thorough() {
			bound = 2
		}
		for _, fs := range combos {
			var lastBad, lastObs string
			nf := 0
			st := xplore.Explore(xplore.Options{Bound: bound, MaxExec: 200000}, func(x *xplore.X) {
				lastObs, lastBad = runFaultSchedule(fs, x)
			}, func(x *xplore.X) bool {
				if lastBad != "" && nf < 2 && len(out.Fails) < 30 {
					nf++
					out.Fails = append(out.Fails, c19ChildFail{Scenario: "fault-schedule", Sig: strings.Join(faultNames(fs), " || ") + ": " + lastBad, Want: "each overlapping request answered exactly as it is answered alone", Got: lastObs + " " + lastBad, Sched: &c19Sched{fs, x.Choices()}})
				}
				return nf < 2
			})
			out.N += st.Executions
			out.Trans += st.Executions
			out.Sched += st.Executions
		}
	}
	out.MaxAlloc, out.MaxSteps = c19MaxAlloc.Load(), c19MaxSteps.Load()
	out.States = int64(len(states))
	for k := range states {
		out.StateKeys = append(out.StateKeys, ev.H(k))
	}
	for h := range dist {
		out.Distinct = append(out.Distinct, h)
	}
	b, _ := json.Marshal(out)
	fmt.Println("SHARD-RESULT " + string(b))
	os.Exit(0)
}

// c19CaseOf rebuilds a sequence from its marker.
func c19CaseOf(fl []fault, idx string) (c19Case, bool) {
	var kind, i, j, p1, p2 int
	var reuse bool
	if n, _ := fmt.Sscanf(idx, "3 %d %v", &i, &reuse); n == 2 && i < len(seriesFaults()) {
		fs := seriesFaults()[i]
		probesIx := make([]int, len(fs))
		for k := range probesIx {
			probesIx[k] = i + 3*k
		}
		return c19Case{fs, probesIx, reuse}, true
	}
	if n, _ := fmt.Sscanf(idx, "1 %d %d %v", &i, &p1, &reuse); n == 3 && i < len(fl) {
		return c19Case{[]fault{fl[i]}, []int{p1}, reuse}, true
	}
	if n, _ := fmt.Sscanf(idx, "%d %d %d %d %d", &kind, &i, &j, &p1, &p2); n == 5 && kind == 2 && i < len(fl) && j < len(fl) {
		return c19Case{[]fault{fl[i], fl[j]}, []int{p1, p2}, true}, true
	}
	return c19Case{}, false
}

// c19RunChild runs the in-process exploration in a child process and returns its result; if the
// child died, it also returns the sequence that was in flight.
func c19RunChild(r *ev.Run) (res c19ChildResult, crashed *c19Case, note string) {
	n := runtime.GOMAXPROCS(0)
	if n > 16 {
		n = 16
	}
	if !r.Thorough() && n > 4 {
		n = 4
	}
	type part struct {
		res     c19ChildResult
		crashed *c19Case
		note    string
	}
	parts := make([]part, n)
	var wg sync.WaitGroup
	for k := 0; k < n; k++ {
		wg.Add(1)
		go func(k int) {
			defer wg.Done()
			parts[k].res, parts[k].crashed, parts[k].note = c19SpawnShard("", k, n)
		}(k)
	}
	wg.Wait()
	res.Statuses = map[int]int{}
	states, dist := map[uint64]bool{}, map[uint64]bool{}
	for _, p := range parts {
		res.N += p.res.N
		res.Sched += p.res.Sched
		res.Trans += p.res.Trans
		if p.res.Core > res.Core {
			res.Core = p.res.Core
		}
		if p.res.MaxAlloc > res.MaxAlloc {
			res.MaxAlloc = p.res.MaxAlloc
		}
		if p.res.MaxSteps > res.MaxSteps {
			res.MaxSteps = p.res.MaxSteps
		}
		for st, c := range p.res.Statuses {
			res.Statuses[st] += c
		}
		for _, k := range p.res.StateKeys {
			states[k] = true
		}
		for _, h := range p.res.Distinct {
			dist[h] = true
		}
		res.Fails = append(res.Fails, p.res.Fails...)
		if p.crashed != nil && crashed == nil {
			crashed, note = p.crashed, p.note
		}
	}
	res.States = int64(len(states))
	for h := range dist {
		res.Distinct = append(res.Distinct, h)
	}
	sort.Slice(res.Distinct, func(i, j int) bool { return res.Distinct[i] < res.Distinct[j] })
	return res, crashed, note
}

func c19Spawn(one string) (res c19ChildResult, crashed *c19Case, note string) {
	return c19SpawnShard(one, 0, 1)
}

// c19Beat is called while the supervised child makes progress (its marker file changes).
var c19Beat func()

func c19SpawnShard(one string, shard, shards int) (res c19ChildResult, crashed *c19Case, note string) {
	res.Statuses = map[int]int{}
	self, _ := os.Executable()
	marker := filepath.Join(os.Getenv("VERIF_WORK"), fmt.Sprintf("c19marker.%d.%d", os.Getpid(), shard))
	if os.Getenv("VERIF_WORK") == "" {
		marker = filepath.Join(os.TempDir(), fmt.Sprintf("c19marker.%d.%d", os.Getpid(), shard))
	}
	defer os.Remove(marker)
	cmd := exec.Command(self, "C19")
	cmd.Env = append(os.Environ(), "VERIF_CHILD=inproc", "VERIF_MARKER="+marker, "VERIF_ONE="+one, fmt.Sprintf("VERIF_SHARD=%d %d", shard, shards), "GOMAXPROCS=2")
	var errb strings.Builder
	cmd.Stderr = &errb
	stopBeat := make(chan struct{})
	go func() {
		last := ""
		for {
			select {
			case <-stopBeat:
				return
			case <-time.After(2 * time.Second):
			}
			if mb, err := os.ReadFile(marker); err == nil && string(mb) != last {
				last = string(mb)
				if c19Beat != nil {
					c19Beat()
				}
			}
		}
	}()
	outp, err := cmd.Output()
	close(stopBeat)
	got := false
	sc := bufio.NewScanner(strings.NewReader(string(outp)))
	sc.Buffer(make([]byte, 1<<20), 1<<28)
	for sc.Scan() {
		if l := sc.Text(); strings.HasPrefix(l, "SHARD-RESULT ") {
			got = json.Unmarshal([]byte(l[13:]), &res) == nil
		}
	}
	if got {
		return res, nil, ""
	}
	// the child died: which sequence was in flight?
	mb, _ := os.ReadFile(marker)
	c, ok := c19CaseOf(faultList(), string(mb))
	note = fmt.Sprintf("child exited abnormally (%v): %s", err, lastLines(errb.String(), 6))
	if !ok {
		return res, &c19Case{}, note
	}
	return res, &c, note
}

func c19(r *ev.Run) {
	c19Beat = r.Beat
	restInit()
	base := nonPool(irt.Globals())
	r.Scenario("fault-sequence", func(raw []byte) (string, string) { return runFaults(unjson[c19Case](raw), base) })
	r.Scenario("service-crash", func(raw []byte) (string, string) {
		c := unjson[c19Case](raw)
		// find the sequence among the fault classes by name and run it alone in a child
		fl := faultList()
		idx := map[string]int{}
		for i, f := range fl {
			idx[f.Name] = i
		}
		var one string
		switch len(c.Faults) {
		case 1:
			one = fmt.Sprintf("1 %d %d %v", idx[c.Faults[0].Name], c.Probes[0], c.Reuse)
		case 2:
			one = fmt.Sprintf("2 %d %d %d %d", idx[c.Faults[0].Name], idx[c.Faults[1].Name], c.Probes[0], c.Probes[1])
		default:
			return "", ""
		}
		_, crashed, note := c19Spawn(one)
		if crashed != nil {
			return "process died", "the process serving the request died: " + firstLine(note)
		}
		return "survived", ""
	})
	r.Scenario("fault-schedule", func(raw []byte) (string, string) {
		c := unjson[c19Sched](raw)
		var o, bad string
		xplore.Run(c.Choices, func(x *xplore.X) { o, bad = runFaultSchedule(c.Faults, x) })
		return o, bad
	})
	r.Scenario("held-connections", func(raw []byte) (string, string) {
		srv, err := startServer()
		if err != nil {
			return "", ""
		}
		defer srv.stop()
		n, bad := heldConnections(srv.addr, unjson[map[string]int](raw)["held"])
		return fmt.Sprint(n), bad
	})
	r.Scenario("wire-sequence", func(raw []byte) (string, string) {
		srv, err := startServer()
		if err != nil {
			return "", ""
		}
		defer srv.stop()
		return wireRun(srv.addr, unjson[wireCase](raw))
	})
	r.Scenario("live-server", func(raw []byte) (string, string) {
		c := unjson[c19Case](raw)
		if len(c.Faults) == 0 {
			return "", ""
		}
		srv, err := startServer()
		if err != nil {
			return "", ""
		}
		defer srv.stop()
		cl := &http.Client{Timeout: 10 * time.Second, Transport: &http.Transport{DisableKeepAlives: !c.Reuse}}
		resp, err := srv.do(cl, c.Faults[0].Req)
		if err != nil {
			return "no response", "no complete response: " + firstLine(err.Error())
		}
		return fmt.Sprint(resp.Status), judge(c.Faults[0], resp)
	})
	if ReplayOnly {
		return
	}
	fl := faultList()
	r.Set("fault_classes", len(fl))
	// The in-process exploration runs in a CHILD process: a request that kills the process
	// (fatal runtime error such as a stack overflow - not a panic, so no middleware can catch it)
	// must not take the check down with it; the parent reports it as a violation.
	if os.Getenv("VERIF_CHILD") == "inproc" {
		c19InProc(r, fl, base)
		return
	}
	res, crashed, crashNote := c19RunChild(r)
	for _, f := range res.Fails {
		if f.Sched != nil {
			r.Fail(f.Scenario, f.Sig, *f.Sched, f.Want, f.Got)
			continue
		}
		r.Fail(f.Scenario, f.Sig, f.Case, f.Want, f.Got)
	}
	r.Set("overlapping_refused_request_schedules", res.Sched)
	r.Eval(res.N)
	r.State(res.States)
	r.Transition(res.Trans)
	r.Trace(res.Trans)
	for _, h := range res.Distinct {
		r.Distinct(h)
	}
	r.Set("depth2_core_classes", res.Core)
	r.Set("per_request_maxima", map[string]any{"statements": res.MaxSteps, "statement_budget": int64(c19Budget), "allocated_bytes": res.MaxAlloc, "allocation_budget": uint64(c19AllocBudget), "requested_wait_budget": c19MaxWait.String()})
	r.Set("first_fault_status_histogram", res.Statuses)
	if crashed != nil {
		r.Fail("service-crash", "the process serving the requests died while handling: "+strings.Join(faultNames(crashed.Faults), " ; ")+" — "+firstLine(crashNote), *crashed, "a complete response and a live process", crashNote)
	}
	// the fault list against the real binary
	srv, err := startServer()
	if r.Violations() > 0 {
		// the in-process exploration already decided; do not keep a possibly wedged server busy
		if err == nil {
			srv.stop()
		}
		r.NotExhaustive("loopback pass skipped: the in-process exploration already reported violations")
	} else if err != nil {
		r.NotExhaustive("real server binary unavailable: " + err.Error())
	} else {
		defer srv.stop()
		pr := probes()
		var live int64
		slow := 0
		for _, mode := range []bool{true, false} {
			if slow >= 3 {
				break
			}
			cl := &http.Client{Timeout: 10 * time.Second, Transport: &http.Transport{DisableKeepAlives: !mode, MaxIdleConnsPerHost: 1}}
			for i, f := range fl {
				if len(f.Req.uri()) > 4000 || strings.ContainsAny(f.Req.uri(), " \x00") {
					continue // not a request an HTTP client can put on the wire
				}
				resp, err := srv.do(cl, f.Req)
				live++
				if err != nil {
					if strings.Contains(err.Error(), "Timeout") || strings.Contains(err.Error(), "deadline") {
						slow++
						r.NotExhaustive(fmt.Sprintf("live request %q hit the 10 s guard (reported as a cap, the statement budget decides)", f.Name))
						if slow >= 3 {
							break // a wedged server would cost 10 s per remaining request
						}
						continue
					}
					if f.Req.Method == "HEAD" || strings.Contains(err.Error(), "malformed") || strings.Contains(err.Error(), "EOF") && len(f.Req.body()) > 1<<20-1000 {
						continue // the Go client / the server's body limit closed the exchange: a complete refusal
					}
					r.Fail("live-server", "live: no complete response to "+f.Name, c19Case{[]fault{f}, []int{i}, mode}, "a complete HTTP response", err.Error())
					continue
				}
				if d := judge(f, resp); d != "" && f.Req.Method != "HEAD" {
					r.Fail("live-server", "live "+f.Name+": "+d, c19Case{[]fault{f}, []int{i}, mode}, "consistent status", fmt.Sprint(resp.Status, " ", trunc80(resp.Body)))
				}
				if i%5 == 0 {
					q := pr[i%len(pr)]
					now0 := time.Now().Unix()
					presp, err := srv.do(cl, q)
					live++
					if err != nil {
						r.Fail("fault-sequence", "live: probe unanswered after "+f.Name, c19Case{[]fault{f}, []int{i}, mode}, "probe answered", err.Error())
					} else if d := compareResp(q, restExpect(q, now0, time.Now().Unix()), presp, nil); d != "" {
						r.Fail("fault-sequence", "live: probe wrong after "+f.Name+": "+d, c19Case{[]fault{f}, []int{i}, mode}, "reference answer", trunc80(presp.Body))
					}
				}
			}
		}
		// wire level: refused requests carrying bodies of every size class, then probes on the SAME connection
		// (sequentially and pipelined), written and read byte for byte
		var wn int64
		wf := append(protoFaults(), wireFaults()...)
		for i, f := range wf {
			for _, pl := range []bool{false, true} {
				if slow >= 3 || f.Proto != "" && pl {
					break
				}
				wc := wireCase{f, i, pl}
				obs, bad := wireRun(srv.addr, wc)
				wn++
				if bad != "" {
					if strings.Contains(bad, "i/o timeout") {
						slow++
						r.NotExhaustive(fmt.Sprintf("wire request %q hit the 10 s guard (reported as a cap)", f.Name))
						continue
					}
					r.Fail("wire-sequence", f.Name+fmt.Sprintf(" pipelined=%v: %s", pl, bad), wc, "every probe answered as the reference says", obs+" "+bad)
				}
				r.DistinctS("wire:" + obs)
			}
		}
		r.Eval(wn)
		r.Set("wire_level_sequences", wn)
		// held connections: a client pool opens connections, gets one well-formed request answered on each and
		// leaves them idle; every one of them - up to the service's own limit per client address, minus a margin for
		// connections this check may still hold - and a further fresh connection must be served
		if slow < 3 {
			perIP, conc := serverLimits()
			n := 40
			if perIP > 12 {
				n = perIP - 10
			}
			if n > 120 {
				n = 120
			}
			nheld, bad := heldConnections(srv.addr, n)
			r.Eval(int64(nheld))
			r.Set("held_connections", map[string]any{"held": n, "then_fresh": 1, "service_limit_per_address": perIP, "service_worker_limit": conc})
			if bad != "" {
				r.Fail("held-connections", bad, map[string]int{"held": n}, "every connection below the service's own per-address limit is served", bad)
			}
		}
		if !srv.alive() {
			r.Fail("fault-sequence", "live: server process died", c19Case{}, "process alive", "exited")
		}
		r.Eval(live)
		r.Set("live_requests_against_real_binary", live)
	}
	r.Sample(c19Case{[]fault{fl[3]}, []int{0}, true})
	r.Sample(map[string]any{"sequence": []string{fl[len(fl)/2].Name, "probe", fl[len(fl)/3].Name, "probe"}, "oracle": "every response complete with a consistent status; probes answer exactly as the reference says; <= 2*10^6 statements per request"})
	r.Rule("fault alphabet = endpoints x {15 broken-JSON forms incl. 1 MiB of '[' and 12000-deep nesting; every field x 8 JSON types; numeric fields at and beyond 64-bit limits; empty/blank/NUL/lone-surrogate/1 MiB strings; missing required fields; 6 wrong methods} + skew/period/timestamp extremes + unknown/contradictory suites + unknown paths + /docs paths; explored as sequences fault,probe (depth 1, all classes, fresh and reused ctx) and fault,probe,fault,probe (depth 2 over a core; thorough: all pairs) in-process on the instrumented handler chain with a per-request statement budget; then the whole list against the real binary on loopback (keep-alive and fresh connections) with interleaved probes; state = digest of package-level state, transition = one request; distinct = distinct (status, work) observations")
	r.Assume("a 500 produced by the recovery middleware is a complete failure response", "the 10 s guard of the loopback pass never yields a violation by itself (reported as a cap); work bounds are decided by the statement budget", "fasthttp's connection handling beyond keep-alive vs fresh is trusted")
}

// heldConnections opens n+1 connections one after the other, has one well-formed request answered on each and keeps
// them all open; returns how many were opened and what went wrong (if anything).
func heldConnections(addr string, n int) (opened int, bad string) {
	pr := probes()
	var held []*wireConn
	defer func() {
		for _, w := range held {
			w.close()
		}
	}()
	for k := 0; k <= n; k++ {
		q := pr[k%len(pr)]
		w, err := dialWire(addr)
		if err != nil {
			return len(held), fmt.Sprintf("connection %d of %d could not be opened while the others are idle: %s", k, n, strings.ReplaceAll(err.Error(), addr, "<server>"))
		}
		held = append(held, w)
		now0 := time.Now().Unix()
		if err := w.send(q); err != nil {
			return len(held), fmt.Sprintf("connection %d of %d: request could not be written while %d connections are idle", k, n, k)
		}
		p, _, err := w.recv(q.Method)
		if err != nil {
			return len(held), fmt.Sprintf("connection %d of %d: a well-formed request got no complete response while %d connections (each served once) are idle (%v)", k, n, k, err)
		}
		if d := compareResp(q, restExpect(q, now0, time.Now().Unix()), p, nil); d != "" {
			return len(held), fmt.Sprintf("connection %d of %d: a well-formed request is answered wrongly while %d connections are idle: %s (status %d, body %s)", k, n, k, d, p.Status, trunc80(p.Body))
		}
	}
	return len(held), ""
}

// serverLimits reads the connection limits the service configures for itself (0, 0 when they cannot be read).
func serverLimits() (perIP, concurrency int) {
	defer func() { recover() }()
	s, err := api.NewServer()
	if err != nil || s == nil {
		return 0, 0
	}
	f := reflect.ValueOf(s).Elem().FieldByName("srv")
	if !f.IsValid() || f.Kind() != reflect.Pointer || f.IsNil() {
		return 0, 0
	}
	fs := (*fasthttp.Server)(unsafe.Pointer(f.Pointer()))
	return fs.MaxConnsPerIP, fs.Concurrency
}

// canonJSON re-renders a JSON body with object keys sorted and every array of strings sorted (lists the service
// fills from a map come in no particular order); a body that is not JSON is returned as it is.
func canonJSON(body string) string {
	var v any
	if json.Unmarshal([]byte(body), &v) != nil {
		return body
	}
	var norm func(x any) any
	norm = func(x any) any {
		switch t := x.(type) {
		case map[string]any:
			for k, e := range t {
				t[k] = norm(e)
			}
		case []any:
			allStr := true
			for i, e := range t {
				t[i] = norm(e)
				if _, ok := t[i].(string); !ok {
					allStr = false
				}
			}
			if allStr {
				sort.Slice(t, func(i, j int) bool { return t[i].(string) < t[j].(string) })
			}
		}
		return x
	}
	b, err := json.Marshal(norm(v))
	if err != nil {
		return body
	}
	return string(b)
}
