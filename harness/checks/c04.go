package checks

import (
	"fmt"
	"sync"

	"github.com/ja7ad/otp"
	"github.com/ja7ad/otp/verifharness/ev"
	"github.com/ja7ad/otp/verifharness/ref"
)

func init() {
	register("C04", "exploration", func(r *ev.Run) { c04(r, false) })
}

type c04Case struct {
	Secret string `json:"secret"`
	Code   string `json:"code"`
	Unix   int64  `json:"unix"`
	Var    int    `json:"instant_variant"` // nsec x zone x monotonic variant, see C02
	Period uint64 `json:"period"`
	Skew   uint64 `json:"skew"`
	Digits int    `json:"digits"`
	Algo   int    `json:"algo"`
	Nil    bool   `json:"nil_param"`
	AppDef int    `json:"application_assigned_defaults,omitempty"` // see C03
}

func callValidateTOTP(c c04Case) (ok bool, err error, panicked string) {
	if c.AppDef > 0 {
		sh, st := *otp.DefaultHOTPParam, *otp.DefaultTOTPParam
		v := c03Defaults[(c.AppDef-1)%len(c03Defaults)]
		*otp.DefaultHOTPParam, *otp.DefaultTOTPParam = v[0], v[1]
		defer func() { *otp.DefaultHOTPParam, *otp.DefaultTOTPParam = sh, st }()
	}
	nsecs := []int64{0, 1, 500000000, 999999999}
	ic := c02Case{Unix: c.Unix, Nsec: nsecs[c.Var%4], Loc: (c.Var / 4) % 4, Mono: c.Var >= 16}
	if c.Var >= 100 { // 100+i: the instant carried in zone i of c02Locs (real zones with daylight saving)
		ic = c02Case{Unix: c.Unix, Loc: (c.Var - 100) % len(c02Locs)}
	}
	t, good := ic.instant()
	if !good {
		ic.Mono = false
		t, _ = ic.instant()
	}
	panicked = try(func() {
		if c.Nil {
			ok, err = otp.ValidateTOTP(c.Secret, c.Code, t, nil)
		} else {
			ok, err = otp.ValidateTOTP(c.Secret, c.Code, t, &otp.Param{Digits: otp.Digits(c.Digits), Algorithm: otp.Algorithm(c.Algo), Period: uint(c.Period), Skew: uint(c.Skew)})
		}
	})
	return
}

func totpWindow(key []byte, step, s uint64, d, a int) []string {
	var w []string
	for x := step - s; ; x++ {
		w = append(w, ref.HOTP(key, x, d, a))
		if x == step+s {
			break
		}
	}
	return w
}

func totpValidate(c c04Case, key []byte, window []string, pairMode bool) (obs, bad string) {
	ok, err, p := callValidateTOTP(c)
	if p == fuseMsg {
		addSuspect(c) // decided sequentially by totpSuspects
		return "cut-off", ""
	}
	if p != "" {
		return "panic:" + p, "panicked: " + p
	}
	obs = fmt.Sprint(ok, "|", errStr(err))
	d, a, s, per := c.Digits, c.Algo, c.Skew, c.Period
	if c.Nil {
		d, a, s, per = 6, 0, 0, 30
		if c.AppDef > 0 {
			v := c03Defaults[(c.AppDef-1)%len(c03Defaults)][1]
			d, a, s, per = int(v.Digits), int(v.Algorithm), uint64(v.Skew), uint64(v.Period)
		}
	}
	if pairMode {
		if ps := pairShape(ok, err); ps != "" {
			return obs, "ambiguous verdict " + ps
		}
		if err != nil {
			if l := leaks(errText(err), c.Secret, key, window); l != "" {
				return obs, "error text discloses " + l
			}
		}
		return obs, ""
	}
	if s > 10 {
		if ok || err == nil {
			return obs, "a skew larger than 10 must be refused with (false, error)"
		}
		return obs, ""
	}
	if window == nil {
		window = totpWindow(key, ref.Step(c.Unix, per), s, d, a)
	}
	want := inSet(c.Code, window)
	if ok != want {
		return obs, fmt.Sprintf("want %v (window of %d codes)", want, len(window))
	}
	return obs, ""
}

// totpSuspects decides the cut-off calls exactly (see hotpSuspects).
func totpSuspects(r *ev.Run) {
	for _, x := range takeSuspects() {
		c, ok := x.(c04Case)
		if !ok {
			continue
		}
		n := countDerivations(func() { callValidateTOTP(c) })
		s := c.Skew
		if c.Nil {
			s = 0
		}
		lim := int64(2*s + 1)
		if s > 10 {
			lim = 0
		}
		if n > lim {
			r.Fail("totp-validate-work", fmt.Sprintf("skew=%d period=%d t=%d code=%q: validation does not end within %d derivations (the window holds %d candidates)", s, c.Period, c.Unix, trunc80(c.Code), n, lim), c, fmt.Sprintf("at most %d derivations and a verdict", lim), fmt.Sprint(n, " derivations"))
		}
	}
}

func c04(r *ev.Run, pairMode bool) {
	installFuse()
	defer totpSuspects(r)
	r.OnWedge(func() { totpSuspects(r) })
	scen := "totp-validate"
	r.Scenario(scen, func(raw []byte) (string, string) {
		c := unjson[c04Case](raw)
		v, key := ref.B32Classify(c.Secret)
		if v != ref.MustAccept {
			return "", ""
		}
		return totpValidate(c, key, nil, pairMode)
	})
	r.Scenario("totp-validate-history", func(raw []byte) (string, string) {
		emptySyncPools()
		obs := ""
		for k, c := range unjson[[]c04Case](raw) {
			v, key := ref.B32Classify(c.Secret)
			if v != ref.MustAccept {
				return "", ""
			}
			o, bad := totpValidate(c, key, nil, pairMode)
			obs += o + ";"
			if bad != "" {
				return obs, fmt.Sprintf("step %d: %s", k, bad)
			}
		}
		return obs, ""
	})
	r.Scenario("totp-validate-work", func(raw []byte) (string, string) {
		c := unjson[c04Case](raw)
		n := countDerivations(func() { callValidateTOTP(c) })
		lim := int64(2*c.Skew + 1)
		if c.Skew > 10 {
			lim = 0
		}
		if n > lim {
			return fmt.Sprint(n), fmt.Sprintf("%d derivations, bound %d", n, lim)
		}
		return fmt.Sprint(n), ""
	})
	{
		k := []byte("12345678901234567890")
		sp := ref.B32Encode(k)
		var cs []c04Case
		for _, t := range []int64{1111111109, 20000000000} {
			for dist := int64(-3); dist <= 3; dist++ {
				cs = append(cs, c04Case{sp, ref.HOTP(k, ref.Step(t+30*dist, 30), 6, 0), t, 0, 30, 2, 6, 0, false, 0})
			}
			cs = append(cs, c04Case{sp, ref.HOTP(k, ref.Step(t, 60), 8, 1), t, 1, 60, 0, 8, 1, false, 0}, c04Case{sp, "000000", t, 0, 0, 10, 6, 0, false, 0}, c04Case{Secret: sp, Code: ref.HOTP(k, ref.Step(t, 30), 6, 0), Unix: t, Nil: true})
		}
		// application-assigned defaults: ValidateTOTP(nil) uses the TOTP default's digits, hash, period and window
		for v := 1; v <= len(c03Defaults); v++ {
			dv := c03Defaults[v-1][1]
			t := int64(1111111109)
			for dist := int64(-11); dist <= 11; dist++ {
				if dist < -4 && dist > -10 || dist > 4 && dist < 10 {
					continue
				}
				cs = append(cs, c04Case{Secret: sp, Code: ref.HOTP(k, uint64(int64(ref.Step(t, uint64(dv.Period)))+dist), int(dv.Digits), int(dv.Algorithm)), Unix: t, Nil: true, AppDef: v})
			}
			cs = append(cs, c04Case{Secret: sp, Code: ref.HOTP(k, ref.Step(t, 30)+1, 6, 0), Unix: t, Period: 30, Skew: 1, Digits: 6, Algo: 0, AppDef: v})
		}
		afterWarmups(r, "totp-validate-after-other-operations", cs, func(c c04Case) (string, string) { return totpValidate(c, k, nil, pairMode) })
	}
	volume(r, "totp-validate-volume", 1100, func(k int) c04Case {
		key := []byte(fmt.Sprintf("volume-key-%04d-0123456789abcdefghij", k/2))[:10+(k/2*7)%27]
		t := int64(1111111109 + k*31)
		return c04Case{ref.B32Encode(key), ref.HOTP(key, ref.Step(t, 30)+uint64(k%4), 6, k%3), t, 0, 30, uint64(k % 3), 6, k % 3, false, 0}
	}, func(c c04Case) (string, string) {
		_, key := ref.B32Classify(c.Secret)
		return totpValidate(c, key, nil, pairMode)
	})
	if ReplayOnly {
		return
	}
	keys := [][]byte{[]byte("12345678901234567890"), filler(r.Seed, "c04", 7)}
	if r.Thorough() {
		keys = append(keys, filler(r.Seed, "c04b", 64))
	}
	const max62 = uint64(1)<<62 - 1
	type cfg struct {
		key     []byte
		sec     string
		t       int64
		p, s    uint64
		d, a, v int
	}
	var cfgs []cfg
	digs := []int{1, 4, 6, 8, 10}
	if r.Thorough() {
		digs = []int{1, 2, 3, 4, 5, 6, 7, 8, 9, 10}
	}
	for ki, key := range keys {
		sec := spellings(key)[(ki+1)%3]
		for _, p := range []uint64{0, 1, 29, 30, 31, 3600, 1 << 32} {
			m := p
			if m == 0 {
				m = 30
			}
			for s := uint64(0); s <= 10; s++ {
				for _, n := range []uint64{s, s + 1, s + 3, 1000000, max62/m - s} {
					for _, rr := range []uint64{0, 1, m - 1} {
						t := n*m + rr
						if t > max62 || (rr == 1 && m == 1) {
							continue
						}
						for _, d := range digs {
							for a := 0; a < 3; a++ {
								if !r.Thorough() && (int(n+rr)+d+a)%2 == 1 && d != 6 {
									continue
								}
								cfgs = append(cfgs, cfg{key, sec, int64(t), p, s, d, a, int(t+uint64(d)) % 32})
							}
						}
					}
				}
			}
		}
	}
	// windows straddling every binary carry of the step number (2^k-1 | 2^k) that is reachable below t = 2^62
	for k := uint(1); k <= 61; k++ {
		for _, p := range []uint64{1, 0, 30, 60} {
			m := p
			if m == 0 {
				m = 30
			}
			for _, s := range []uint64{0, 1, 2, 10} {
				for _, n := range []uint64{1<<k - 1, 1 << k} {
					if n < s || (n+1)*m-1 > max62 {
						continue
					}
					for _, rr := range []uint64{0, m - 1} {
						cfgs = append(cfgs, cfg{keys[0], spellings(keys[0])[0], int64(n*m + rr), p, s, 6, int(k % 3), int(k) % 32})
					}
				}
			}
		}
	}
	// key-length sweep: every key length 1..140 bytes x hash x windows 0, 1, 3, 10 (see C03)
	{
		var n int64
		type kl struct{ L, a int }
		var kls []kl
		for L := 1; L <= 140; L++ {
			for a := 0; a < 3; a++ {
				kls = append(kls, kl{L, a})
			}
		}
		var mu sync.Mutex
		ev.Par(len(kls), func(i int) {
			L, a := kls[i].L, kls[i].a
			key := patt(L, byte(5*L+a))
			sec := ref.B32Encode(key)
			var local int64
			for _, sk := range []uint64{0, 1, 3, 10} {
				for _, t := range []int64{1111111109, 1 << 40} {
					step := ref.Step(t, 30)
					window := totpWindow(key, step, sk, 6, a)
					subs := append([]string{ref.HOTP(key, step-sk-1, 6, a), ref.HOTP(key, step+sk+1, 6, a)}, window...)
					for _, code := range subs {
						c := c04Case{sec, code, t, L % 4, 30, sk, 6, a, false, 0}
						obs, bad := totpValidate(c, key, window, pairMode)
						local++
						if bad != "" {
							r.Fail(scen, fmt.Sprintf("key-length sweep: %d-byte key algo=%d skew=%d t=%d %s", L, a, sk, t, bad), c, bad, obs)
						}
					}
				}
			}
			mu.Lock()
			n += local
			mu.Unlock()
		})
		r.Eval(n)
		r.Set("key_length_sweep", map[string]any{"lengths": "1..140", "hashes": 3, "windows": []int{0, 1, 3, 10}, "validations": n})
	}
	r.Set("configs", len(cfgs))
	ev.Par(len(cfgs), func(i int) {
		g := cfgs[i]
		step := ref.Step(g.t, g.p)
		window := totpWindow(g.key, step, g.s, g.d, g.a)
		var around []string
		for dist := -int64(g.s + 3); dist <= int64(g.s+3); dist++ {
			if dist < 0 && step < uint64(-dist) {
				continue
			}
			around = append(around, ref.HOTP(g.key, step+uint64(dist), g.d, g.a))
		}
		var local int64
		for _, code := range submissions(around, window, g.d) {
			c := c04Case{g.sec, code, g.t, g.v, g.p, g.s, g.d, g.a, false, 0}
			obs, bad := totpValidate(c, g.key, window, pairMode)
			local++
			if bad != "" {
				r.Fail(scen, fmt.Sprintf("skew=%d period=%d digits=%d algo=%d t=%d %s", g.s, g.p, g.d, g.a, g.t, bad), c, bad, obs)
			}
			if g.d == 6 {
				r.DistinctS(fmt.Sprint(g.t, g.p, g.s, g.a, code, obs))
			}
		}
		r.Eval(local)
	})
	// real time zones: every half hour of a year in each zone (across daylight-saving transitions): the code of
	// the instant's own step validates, the code two steps away does not
	{
		key := keys[0]
		sec := spellings(key)[0]
		ev.Par(len(c02Locs), func(li int) {
			var local int64
			for t := int64(1672531200); t < 1672531200+366*86400; t += 1800 { // from 2023-01-01 UTC
				for k, dist := range []uint64{0, 2} {
					c := c04Case{sec, ref.HOTP(key, ref.Step(t, 30)+dist, 6, 0), t, 100 + li, 30, 1, 6, 0, false, 0}
					obs, bad := totpValidate(c, key, nil, pairMode)
					local++
					if bad != "" {
						r.Fail(scen, fmt.Sprintf("zone %s t=%d (code of step %+d): %s", c02Locs[li], t, k*2, bad), c, bad, obs)
						return
					}
				}
			}
			r.Eval(local)
		})
	}
	// complete code space for small code lengths
	var sps []cfg
	for d := 1; d <= 4; d++ {
		for _, s := range []uint64{0, 1, 3, 10} {
			for _, p := range []uint64{0, 1, 30, 3600} {
				for a := 0; a < 3; a++ {
					if d == 4 && !r.Thorough() && a != int((p+s)%3) {
						continue
					}
					m := p
					if m == 0 {
						m = 30
					}
					sps = append(sps, cfg{keys[0], spellings(keys[0])[0], int64((s+2)*m + m/2), p, s, d, a, int(s)})
				}
			}
		}
	}
	if r.Thorough() {
		for _, d := range []int{5, 6} {
			for _, s := range []uint64{0, 2, 10} {
				sps = append(sps, cfg{keys[0], spellings(keys[0])[0], 1111111109, 30, s, d, int(s % 3), 0})
			}
		}
	}
	ev.Par(len(sps), func(i int) {
		g := sps[i]
		window := totpWindow(g.key, ref.Step(g.t, g.p), g.s, g.d, g.a)
		n := int(ref.Pow10(g.d))
		var local int64
		acc := 0
		for v := 0; v < n; v++ {
			c := c04Case{g.sec, fmt.Sprintf("%0*d", g.d, v), g.t, g.v, g.p, g.s, g.d, g.a, false, 0}
			obs, bad := totpValidate(c, g.key, window, pairMode)
			local++
			if bad != "" {
				r.Fail(scen, fmt.Sprintf("codespace skew=%d period=%d digits=%d algo=%d %s", g.s, g.p, g.d, g.a, bad), c, bad, obs)
			}
			if obs[0] == 't' {
				acc++
			}
		}
		r.Eval(local)
		r.DistinctS(fmt.Sprint("space", g.t, g.p, g.s, g.d, g.a, acc))
	})
	r.Set("complete_code_space_configs", len(sps))
	// neighbouring-call histories on one goroutine (see C03): all ordered pairs A, B, A over calls differing in one argument
	{
		k0, k1 := keys[0], keys[1]
		s0, s1 := spellings(k0)[0], spellings(k1)[0]
		base := c04Case{s0, ref.HOTP(k0, ref.Step(1111111109, 30), 6, 0), 1111111109, 0, 30, 1, 6, 0, false, 0}
		fam := []struct {
			c   c04Case
			key []byte
		}{{base, k0}}
		add := func(f func(c *c04Case) []byte) {
			c := base
			key := f(&c)
			if key == nil {
				key = k0
			}
			fam = append(fam, struct {
				c   c04Case
				key []byte
			}{c, key})
		}
		add(func(c *c04Case) []byte { c.Unix += 60; return nil }) // same code, two steps later: out of reach
		add(func(c *c04Case) []byte { c.Unix -= 30; return nil }) // one step earlier: still in the window
		add(func(c *c04Case) []byte { c.Unix -= 90; return nil }) // EARLIER instant after a later one
		add(func(c *c04Case) []byte { c.Skew = 0; c.Unix += 30; return nil })
		add(func(c *c04Case) []byte { c.Period = 60; return nil })
		add(func(c *c04Case) []byte { c.Period = 0; return nil })
		add(func(c *c04Case) []byte { c.Algo = 2; return nil })
		add(func(c *c04Case) []byte {
			c.Digits = 8
			c.Code = ref.HOTP(k0, ref.Step(1111111109, 30), 8, 0)
			return nil
		})
		add(func(c *c04Case) []byte { c.Secret = s1; return k1 })
		add(func(c *c04Case) []byte { c.Code = "999999"; return nil })
		add(func(c *c04Case) []byte { c.Nil = true; return nil })
		var hn int64
		for i := range fam {
			for j := range fam {
				emptySyncPools()
				var cs []c04Case
				obs := ""
				for k, ix := range []int{i, j, i} {
					cs = append(cs, fam[ix].c)
					o, bad := totpValidate(fam[ix].c, fam[ix].key, nil, pairMode)
					obs += o + ";"
					hn++
					if bad != "" {
						r.Fail("totp-validate-history", fmt.Sprintf("step %d of the history (calls %d, %d, %d of the family): %s", k, i, j, i, bad), cs, "each call judged on its own arguments", obs)
						break
					}
				}
			}
		}
		r.Eval(hn)
		r.Set("neighbouring_call_history_steps", hn)
	}
	// refused skews: (false, error), zero derivations; accepted skews: <= 2s+1 derivations
	var wn int64
	sec0 := spellings(keys[0])[0]
	for _, s := range []uint64{11, 12, 255, 1 << 32, 1 << 63, ^uint64(0)} {
		for _, p := range []uint64{0, 30, 1} {
			for _, code := range []string{"000000", ref.HOTP(keys[0], ref.Step(1000000, p), 6, 0), ref.HOTP(keys[0], ref.Step(1000000, p)+11, 6, 0)} {
				cs := c04Case{sec0, code, 1000000, 0, p, s, 6, 0, false, 0}
				n := countDerivations(func() { callValidateTOTP(cs) })
				wn++
				if n != 0 {
					r.Fail("totp-validate-work", "refused-skew-derives "+skewSig(s), cs, "0 derivations", fmt.Sprint(n))
					continue // do not run an unbounded window without the budget
				}
				obs, bad := totpValidate(cs, keys[0], nil, pairMode)
				wn++
				if bad != "" {
					r.Fail(scen, "refused "+skewSig(s), cs, bad, obs)
				}
			}
		}
	}
	for s := uint64(0); s <= 10; s++ {
		for _, d := range []int{1, 6, 10} {
			cs := c04Case{sec0, ref.Format(0, d)[:d-1] + "x", 5000, 0, 30, s, d, 2, false, 0}
			n := countDerivations(func() { callValidateTOTP(cs) })
			wn++
			if n > int64(2*s+1) {
				r.Fail("totp-validate-work", "work-bound "+skewSig(s), cs, fmt.Sprintf("<= %d derivations", 2*s+1), fmt.Sprint(n))
			}
		}
	}
	// nil parameters mean 6 digits, SHA-1, 30 s, skew 0
	for _, t := range []int64{30, 59, 60, 89, 1111111109, 1 << 32} {
		for dist := int64(-2); dist <= 2; dist++ {
			for _, d := range []int{6, 8} {
				for a := 0; a < 2; a++ {
					cs := c04Case{sec0, ref.HOTP(keys[0], uint64(t/30+dist), d, a), t, int(t % 32), 0, 0, 0, 0, true, 0}
					obs, bad := totpValidate(cs, keys[0], nil, pairMode)
					wn++
					if bad != "" {
						r.Fail(scen, fmt.Sprintf("nil-param t=%d dist=%d", t, dist), cs, bad, obs)
					}
				}
			}
		}
	}
	r.Eval(wn)
	if !pairMode {
		r.Sample(map[string]any{"case": c04Case{sec0, ref.HOTP(keys[0], ref.Step(1000000, 30)+11, 6, 0), 1000000, 0, 30, 11, 6, 0, false, 0}, "want": "(false, error), zero derivations"})
		r.Sample(map[string]any{"case": c04Case{sec0, ref.HOTP(keys[0], 4, 8, 1), 89, 5, 0, 2, 8, 1, false, 0}, "want": true, "note": "period 0 = 30; step 2, window 0..4"})
		r.Set("alphabet", map[string]any{"periods": "0,1,29,30,31,3600,2^32", "steps": "s, s+1, s+3, 10^6, top-s; offsets 0,1,p-1 inside the step", "skew": "0..10 and refused 11,12,255,2^32,2^63,2^64-1", "digits": digs, "hash": "0..2", "submitted": "as C03 with distances in time steps; complete code space for digits <= 4 (thorough: 5, 6 too)"})
		r.Rule("every (secret, period, instant, skew, digits, hash) configuration x every submitted string through ValidateTOTP; oracle = exact membership in the reference step-window set; refused skews: (false, error) and zero derivations; accepted: <= 2s+1 derivations (counted at the HMAC constructor seam); distinct = distinct (config, string, verdict) tuples at 6 digits plus acceptance counts of complete code spaces")
		r.Assume("crypto/hmac; windows lie at or after step 0 and below 2^62 as the property states")
	}
}
