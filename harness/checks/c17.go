package checks

import (
	"bytes"
	"encoding/binary"
	"fmt"
	"math/big"
	"sort"
	"strings"

	"github.com/ja7ad/otp"
	"github.com/ja7ad/otp/verifharness/ev"
	"github.com/ja7ad/otp/verifharness/ref"
)

func init() { register("C17", "exploration", c17) }

type c17Case struct {
	Helper string   `json:"helper"`
	Args   []string `json:"args"`
	N      uint64   `json:"n,omitempty"`
}

func isDec(s string) bool {
	if s == "" {
		return false
	}
	for i := 0; i < len(s); i++ {
		if s[i] < '0' || s[i] > '9' {
			return false
		}
	}
	return true
}

func isHex(s string) bool {
	for i := 0; i < len(s); i++ {
		c := s[i]
		if !(c >= '0' && c <= '9' || c >= 'a' && c <= 'f' || c >= 'A' && c <= 'F') {
			return false
		}
	}
	return true
}

func hexBytes(s string) []byte { // s: even-length valid hex
	out := make([]byte, len(s)/2)
	for i := range out {
		var v byte
		fmt.Sscanf(s[2*i:2*i+2], "%02x", &v)
		out[i] = v
	}
	return out
}

// decU64 returns the value of a plain decimal string if it fits 64 bits.
func decU64(s string) (uint64, bool) {
	n, ok := new(big.Int).SetString(s, 10)
	if !ok || n.Sign() < 0 || n.BitLen() > 64 {
		return 0, false
	}
	return n.Uint64(), true
}

func helperCase(c c17Case) (obs, bad string) {
	switch c.Helper {
	case "To8ByteBigEndian":
		var got []byte
		if p := try(func() { got = otp.To8ByteBigEndian(c.N) }); p != "" {
			return "panic:" + p, "panicked"
		}
		var w [8]byte
		binary.BigEndian.PutUint64(w[:], c.N)
		if !bytes.Equal(got, w[:]) {
			return fmt.Sprintf("%x", got), fmt.Sprintf("want %x", w)
		}
		return fmt.Sprintf("%x", got), ""
	case "ParseDecimalToBigEndian8", "ParseDecimal64BigEndian":
		s := c.Args[0]
		var got []byte
		var err error
		if p := try(func() {
			if c.Helper == "ParseDecimalToBigEndian8" {
				got, err = otp.ParseDecimalToBigEndian8(s)
			} else {
				got, err = otp.ParseDecimal64BigEndian(s)
			}
		}); p != "" {
			return "panic:" + p, "panicked"
		}
		obs = fmt.Sprintf("%x|%s", got, errStr(err))
		if strings.HasPrefix(s, "+") && isDec(s[1:]) {
			if err == nil {
				if v, ok := decU64(s[1:]); !ok || !bytes.Equal(got, be8(v)) {
					return obs, "accepted a '+' number with the wrong value"
				}
			}
			return obs, "" // documentation is silent about a leading '+'
		}
		v, fits := decU64(s)
		if isDec(s) && fits {
			if err != nil || !bytes.Equal(got, be8(v)) {
				return obs, fmt.Sprintf("want %x", be8(v))
			}
			return obs, ""
		}
		if err == nil {
			return obs, "malformed or overlong decimal text must be rejected"
		}
		return obs, ""
	case "LeftPadHex":
		s := c.Args[0]
		w := int(c.N)
		var got string
		if p := try(func() { got = otp.LeftPadHex(s, w) }); p != "" {
			return "panic:" + p, "panicked"
		}
		want := s
		if len(s) >= w {
			want = s[len(s)-w:]
		} else {
			want = strings.Repeat("0", w-len(s)) + s
		}
		if got != want {
			return got, "want " + want
		}
		return got, ""
	case "MustHexPadLeft":
		s := c.Args[0]
		size := int(c.N)
		var got []byte
		p := try(func() { got = otp.MustHexPadLeft(s, size) })
		obs = fmt.Sprintf("%x|%s", got, p)
		if !isHex(s) {
			return obs, "" // documented to panic on bad hex
		}
		padded := s
		if len(s) >= 2*size {
			padded = s[len(s)-2*size:]
		} else {
			padded = strings.Repeat("0", 2*size-len(s)) + s
		}
		if p != "" || !bytes.Equal(got, hexBytes(padded)) {
			return obs, fmt.Sprintf("want %x", hexBytes(padded))
		}
		return obs, ""
	case "ParseHexTimestamp":
		s := c.Args[0]
		var got []byte
		var err error
		if p := try(func() { got, err = otp.ParseHexTimestamp(s) }); p != "" {
			return "panic:" + p, "panicked"
		}
		obs = fmt.Sprintf("%x|%s", got, errStr(err))
		if !isHex(s) {
			if err == nil {
				return obs, "non-hex text must be rejected"
			}
			return obs, ""
		}
		if len(s) <= 16 {
			want := hexBytes(strings.Repeat("0", 16-len(s)) + s)
			if err != nil || !bytes.Equal(got, want) {
				return obs, fmt.Sprintf("want %x", want)
			}
		} else if err == nil && !bytes.Equal(got, hexBytes(s)) && len(s)%2 == 0 {
			return obs, "accepted an overlong timestamp with bytes that are not its hex value"
		}
		return obs, ""
	case "HexInputToOCRA":
		var got otp.OCRAInput
		var err error
		if p := try(func() { got, err = otp.HexInputToOCRA(c.Args[0], c.Args[1], c.Args[2], c.Args[3], c.Args[4]) }); p != "" {
			return "panic:" + p, "panicked"
		}
		obs = fmt.Sprintf("%x|%x|%x|%x|%x|%s", got.Counter, got.Challenge, got.Password, got.SessionInfo, got.Timestamp, errStr(err))
		valid := true
		for _, a := range c.Args {
			if !isHex(a) || len(a)%2 != 0 {
				valid = false
			}
		}
		if !valid {
			if err == nil {
				return obs, "a malformed field must be rejected"
			}
			if got.Counter != nil || got.Challenge != nil || got.Password != nil || got.SessionInfo != nil || got.Timestamp != nil {
				return obs, "an error must come with an empty input"
			}
			return obs, ""
		}
		if err != nil {
			return obs, "all fields valid: want no error"
		}
		gf := [][]byte{got.Counter, got.Challenge, got.Password, got.SessionInfo, got.Timestamp}
		for i, a := range c.Args {
			if a == "" {
				if len(gf[i]) != 0 {
					return obs, fmt.Sprintf("field %d: empty text must give an empty field", i)
				}
			} else if !bytes.Equal(gf[i], hexBytes(a)) {
				return obs, fmt.Sprintf("field %d: want %x", i, hexBytes(a))
			}
		}
		return obs, ""
	case "ParseDecimalChallengeRFC6287":
		s := c.Args[0]
		var got []byte
		var err error
		if p := try(func() { got, err = otp.ParseDecimalChallengeRFC6287(s) }); p != "" {
			return "panic:" + p, "panicked"
		}
		obs = fmt.Sprintf("%x|%s", got, errStr(err))
		if strings.HasPrefix(s, "+") && isDec(s[1:]) {
			if err == nil {
				if w, ok := ref.DecimalQuestion(s[1:]); ok && !bytes.Equal(got, w) {
					return obs, "accepted a '+' question with the wrong value"
				}
			}
			return obs, ""
		}
		if strings.HasPrefix(s, "-") && isDec(s[1:]) && strings.Trim(s[1:], "0") == "" {
			// "-0": numerically zero; whether a sign on zero is "malformed" is not decided by the
			// documentation (same treatment as a leading '+'); if accepted it must be the value 0
			if err == nil {
				if w, _ := ref.DecimalQuestion("0"); !bytes.Equal(got, w) {
					return obs, "accepted \"-0\" with a value other than zero"
				}
			}
			return obs, ""
		}
		want, ok := ref.DecimalQuestion(s)
		if !isDec(s) {
			if err == nil {
				return obs, "text that is not a decimal number must be rejected"
			}
			return obs, ""
		}
		if !ok {
			return obs, "" // more than 256 hex digits: outside the property
		}
		if err != nil || !bytes.Equal(got, want) {
			return obs, fmt.Sprintf("want %x…", want[:12])
		}
		return obs, ""
	case "question-e2e":
		// Args: suite name or "", question; N encodes hash*100+digits for hand-built numeric suites
		q := c.Args[1]
		want, ok := ref.DecimalQuestion(q)
		if !ok {
			return "", ""
		}
		var su otp.Suite
		var rs ref.OCRASuite
		var err error
		key := ocraKeys[int(c.N/100)%3+1]
		if c.Args[0] != "" {
			su, err = otp.NewRawSuite(c.Args[0])
			rs, _ = ref.ParseSuite(c.Args[0])
		} else {
			sh := shape{Text: "OCRA-1:HOTP-x:QN08", Hash: int(c.N / 100), Digits: int(c.N % 100), Q: true, QF: 1 + int(c.N/100)%2}
			su, rs = sh.lib(), sh.ref()
		}
		if err != nil {
			return "nosuite", ""
		}
		var code string
		if p := try(func() {
			var ch []byte
			ch, err = otp.ParseDecimalChallengeRFC6287(q)
			if err != nil {
				return
			}
			in := otp.OCRAInput{Challenge: ch}
			if rs.C {
				in.Counter = otp.To8ByteBigEndian(5)
			}
			if rs.P {
				in.Password = patt(ref.PLen(rs.PHash), 9)
			}
			if rs.T {
				in.Timestamp, err = otp.ParseHexTimestamp("132d0b6")
				if err != nil {
					return
				}
			}
			code, err = otp.GenerateOCRA(ref.B32Encode(key), su, in)
		}); p != "" {
			return "panic:" + p, "panicked"
		}
		rin := ref.OCRAIn{Challenge: want}
		if rs.C {
			rin.Counter = be8(5)
		}
		if rs.P {
			rin.Password = patt(ref.PLen(rs.PHash), 9)
		}
		if rs.T {
			rin.Timestamp = be8(0x132d0b6)
		}
		w := ref.OCRA(key, rs, rin)
		obs = code + "|" + errStr(err)
		if err != nil || code != w {
			return obs, "want " + w
		}
		return obs, ""
	}
	return "", "unknown helper"
}

func stringsOver(alpha string, maxLen int) []string {
	out := []string{""}
	level := []string{""}
	for l := 1; l <= maxLen; l++ {
		var next []string
		for _, p := range level {
			for i := 0; i < len(alpha); i++ {
				next = append(next, p+alpha[i:i+1])
			}
		}
		out = append(out, next...)
		level = next
	}
	return out
}

func c17(r *ev.Run) {
	r.Scenario("helper", func(raw []byte) (string, string) { return helperCase(unjson[c17Case](raw)) })
	{
		cs := []c17Case{{Helper: "To8ByteBigEndian", N: 0x0102030405060708}, {Helper: "To8ByteBigEndian", N: 1<<64 - 1}}
		for _, s := range []string{"0", "1", "255", "256", "65536", "4294967296", "18446744073709551615", "18446744073709551616", "010", "-1", "1e3", ""} {
			cs = append(cs, c17Case{Helper: "ParseDecimalToBigEndian8", Args: []string{s}}, c17Case{Helper: "ParseDecimal64BigEndian", Args: []string{s}})
		}
		for _, s := range []string{"132d0b6", "0", "ffffffffffffffff", "zz", "", "0132D0B6"} {
			cs = append(cs, c17Case{Helper: "ParseHexTimestamp", Args: []string{s}}, c17Case{Helper: "LeftPadHex", Args: []string{s}, N: 16}, c17Case{Helper: "MustHexPadLeft", Args: []string{s}, N: 8})
		}
		for _, q := range []string{"0", "7", "12345678", "99999999", "4096", "1234567890", "123456789012345678901234567890", "12a4", "-1"} {
			cs = append(cs, c17Case{Helper: "ParseDecimalChallengeRFC6287", Args: []string{q}})
		}
		cs = append(cs, c17Case{Helper: "HexInputToOCRA", Args: []string{"0000000000000001", "3132333435363738", "7110eda4d09e062aa5e4a390b0a572ac0d2c0220", "abcdef", "000000000132d0b6"}}, c17Case{Helper: "HexInputToOCRA", Args: []string{"", "a98ac7", "", "", ""}}, c17Case{Helper: "HexInputToOCRA", Args: []string{"zz", "a98ac7", "", "", ""}})
		afterWarmups(r, "helper-after-other-operations", cs, helperCase)
	}
	if ReplayOnly {
		return
	}
	var cases []c17Case
	// 64-bit values
	vals := append([]uint64{}, counterAlphabet...)
	for i := 0; i < 64; i++ {
		vals = append(vals, 1<<uint(i), 1<<uint(i)-1)
	}
	for i, b := range filler(r.Seed, "c17", 64*8) {
		if i%8 == 0 {
			vals = append(vals, 0)
		}
		vals[len(vals)-1] = vals[len(vals)-1]<<8 | uint64(b)
	}
	for _, v := range vals {
		cases = append(cases, c17Case{Helper: "To8ByteBigEndian", N: v})
		for _, h := range []string{"ParseDecimalToBigEndian8", "ParseDecimal64BigEndian"} {
			cases = append(cases, c17Case{Helper: h, Args: []string{fmt.Sprint(v)}})
			cases = append(cases, c17Case{Helper: h, Args: []string{strings.Repeat("0", int(v%300)) + fmt.Sprint(v)}})
		}
	}
	decLen, hexLen, qDigits := 4, 3, 5
	if r.Thorough() {
		decLen, hexLen, qDigits = 5, 5, 6
	}
	decStrs := stringsOver("0123456789+- a_xX.", decLen)
	decStrs = append(decStrs, "18446744073709551614", "18446744073709551615", "18446744073709551616", "18446744073709551625", "99999999999999999999", "100000000000000000000", "184467440737095516150",
		"-1", "-0", "+0", "1e3", "0x10", "1_000", "１２", "٣", "1\n", "\t1", "1.0", strings.Repeat("0", 300), strings.Repeat("0", 299)+"7", strings.Repeat("9", 300))
	for _, s := range decStrs {
		cases = append(cases, c17Case{Helper: "ParseDecimalToBigEndian8", Args: []string{s}}, c17Case{Helper: "ParseDecimal64BigEndian", Args: []string{s}})
	}
	hexStrs := stringsOver("09aFgx ", hexLen)
	for l := 0; l <= 40; l++ {
		hexStrs = append(hexStrs, strings.Repeat("c", l), strings.Repeat("1", l)+"F")
	}
	hexStrs = append(hexStrs, "132d0b6", "0132D0B6", "ffffffffffffffff", "0ffffffffffffffff", "zz", " 1", "1 ", "0x1", "-1", "+1")
	for _, s := range hexStrs {
		cases = append(cases, c17Case{Helper: "ParseHexTimestamp", Args: []string{s}})
		ws := []int{63, 64, 65, 126, 127, 128, 129, 130, 131, 132, 200, 254, 255, 256, 257, 258, 259, 260, 300, 511, 512, 513, 1000, 1024, 4096, 65536}
		for w := 0; w <= 40; w++ {
			ws = append(ws, w)
		}
		for _, w := range ws {
			if len(s) > 3 && w%3 != len(s)%3 {
				continue
			}
			if w > 40 && len(s) > 3 && len(s) != 7 && len(s) != 16 {
				continue // the wide fields meet the short texts and two longer ones
			}
			cases = append(cases, c17Case{Helper: "LeftPadHex", Args: []string{s}, N: uint64(w)})
			if w <= 20 {
				cases = append(cases, c17Case{Helper: "MustHexPadLeft", Args: []string{s}, N: uint64(w)})
			}
		}
	}
	// every 7-bit byte value substituted at every position of well-formed texts (a digit test that folds or masks
	// bytes accepts a foreign one somewhere): hex helpers, the five hex fields, the decimal helpers
	for _, base := range []string{"132d0b6", "0132D0B6", "aF", "7"} {
		for i := 0; i < len(base); i++ {
			for v := 0; v < 128; v++ {
				t := base[:i] + string(rune(v)) + base[i+1:]
				if t == base {
					continue
				}
				cases = append(cases, c17Case{Helper: "ParseHexTimestamp", Args: []string{t}}, c17Case{Helper: "LeftPadHex", Args: []string{t}, N: 16}, c17Case{Helper: "MustHexPadLeft", Args: []string{t}, N: 8})
				if len(base) == 8 {
					for f := 0; f < 5; f++ {
						args := []string{"0000000000000001", "3132333435363738", "7110eda4d09e062aa5e4a390b0a572ac0d2c0220", "abcdef", "000000000132d0b6"}
						args[f] = t + t
						cases = append(cases, c17Case{Helper: "HexInputToOCRA", Args: args})
					}
				}
			}
		}
	}
	for _, base := range []string{"12345", "90", "18446744073709551615"} {
		for i := 0; i < len(base); i++ {
			for v := 0; v < 128; v++ {
				t := base[:i] + string(rune(v)) + base[i+1:]
				if t == base {
					continue
				}
				cases = append(cases, c17Case{Helper: "ParseDecimalToBigEndian8", Args: []string{t}}, c17Case{Helper: "ParseDecimal64BigEndian", Args: []string{t}}, c17Case{Helper: "ParseDecimalChallengeRFC6287", Args: []string{t}})
			}
		}
	}
	// HexInputToOCRA: every field at every even text length 0..300 (and a few odd ones): the helper converts, it
	// does not judge lengths (admission is OCRAInput.Validate's business, C14)
	for f := 0; f < 5; f++ {
		for n := 0; n <= 300; n++ {
			if n%2 == 1 && n%31 != 0 {
				continue
			}
			args := []string{"0000000000000001", "3132333435363738", "7110eda4d09e062aa5e4a390b0a572ac0d2c0220", "abcdef", "000000000132d0b6"}
			args[f] = strings.Repeat("0123456789abcdefABCDEF", 14)[:n]
			cases = append(cases, c17Case{Helper: "HexInputToOCRA", Args: args})
		}
	}
	// HexInputToOCRA: all 3^5 combinations of {valid, invalid, empty} x two contents
	valid := [][]string{{"0000000000000001", "FFfFffFFFFffFFFF"}, {"3132333435363738", "a98ac7"}, {"7110eda4d09e062aa5e4a390b0a572ac0d2c0220", "00"}, {"abcdef", "00112233445566778899"}, {"000000000132d0b6", "ff"}}
	invalid := []string{"0", "zz", "abc", "0x12", "12 "}
	for m := 0; m < 243; m++ {
		for k := 0; k < 2; k++ {
			args := make([]string, 5)
			x := m
			for f := 0; f < 5; f++ {
				switch x % 3 {
				case 0:
					args[f] = valid[f][k]
				case 1:
					args[f] = invalid[(f+k+m)%len(invalid)]
				}
				x /= 3
			}
			cases = append(cases, c17Case{Helper: "HexInputToOCRA", Args: args})
		}
	}
	// decimal questions
	for d := 1; d <= qDigits; d++ {
		for v := 0; v < int(ref.Pow10(d)); v++ {
			cases = append(cases, c17Case{Helper: "ParseDecimalChallengeRFC6287", Args: []string{fmt.Sprintf("%0*d", d, v)}})
		}
	}
	var longQ []string
	for n := 6; n <= 64; n++ {
		for dg := byte('0'); dg <= '9'; dg++ {
			longQ = append(longQ, strings.Repeat(string(dg), n))
		}
		longQ = append(longQ, "1"+strings.Repeat("0", n-1), strings.Repeat("9", n))
	}
	for k := 1; k <= 52; k++ {
		p := new(big.Int).Lsh(big.NewInt(1), uint(4*k))
		longQ = append(longQ, p.String(), new(big.Int).Add(p, big.NewInt(1)).String(), new(big.Int).Sub(p, big.NewInt(1)).String())
	}
	longQ = append(longQ, "-1", "-0", " 1", "1 ", "", "+", "+7", "12a4", "0x12", "1_0", "１２３４５６７８", "1.5", "1e8", strings.Repeat("9", 300), strings.Repeat("9", 400))
	for _, q := range longQ {
		cases = append(cases, c17Case{Helper: "ParseDecimalChallengeRFC6287", Args: []string{q}})
	}
	// end to end: numeric-question suites
	names := otp.ListSuites()
	sort.Strings(names)
	e2eQ := []string{"0", "7", "12", "00000000", "11111111", "12345678", "99999999", "1234567890", "4095", "4096", "65535", "1048575", "268435455", "123456789012345678901234567890", strings.Repeat("9", 64), strings.Repeat("1", 63)}
	for _, n := range names {
		if rs, ok := ref.ParseSuite(n); ok && (rs.QFormat == 1 || rs.QFormat == 2) {
			for i, q := range e2eQ {
				cases = append(cases, c17Case{Helper: "question-e2e", Args: []string{n, q}, N: uint64(i % 3 * 100)})
			}
		}
	}
	for h := 0; h < 3; h++ {
		for d := 4; d <= 10; d++ {
			for _, q := range e2eQ {
				cases = append(cases, c17Case{Helper: "question-e2e", Args: []string{"", q}, N: uint64(h*100 + d)})
			}
		}
	}
	// RFC 6287 App. C: 8-digit questions on the plain QN08 suite, through the helpers
	rfcW := []string{"237653", "243178", "653583", "740991", "608993", "388898", "816933", "224598", "750600", "294470"}
	for d := 0; d < 10; d++ {
		q := strings.Repeat(string(rune('0'+d)), 8)
		ch, err := otp.ParseDecimalChallengeRFC6287(q)
		var code string
		if err == nil {
			su, e2 := otp.NewRawSuite("OCRA-1:HOTP-SHA1-6:QN08")
			if e2 == nil {
				code, err = otp.GenerateOCRA(ref.B32Encode(ocraKeys[1]), su, otp.OCRAInput{Challenge: ch})
			} else {
				err = e2
			}
		}
		r.Eval(1)
		if err != nil || code != rfcW[d] {
			r.Fail("helper", "rfc6287-appendix-c Q="+q, c17Case{Helper: "question-e2e", Args: []string{"OCRA-1:HOTP-SHA1-6:QN08", q}, N: 0}, rfcW[d], code+"|"+errStr(err))
		}
	}
	count := map[string]int{}
	chunks := 64
	ev.Par(chunks, func(k int) {
		var local int64
		for i := k; i < len(cases); i += chunks {
			obs, bad := helperCase(cases[i])
			local++
			if bad != "" {
				r.Fail("helper", cases[i].Helper+" "+trunc80(fmt.Sprint(cases[i].Args, cases[i].N))+": "+bad, cases[i], bad, obs)
			}
			r.DistinctS(cases[i].Helper + obs)
		}
		r.Eval(local)
	})
	for _, c := range cases {
		count[c.Helper]++
	}
	r.Set("cases_per_helper", count)
	r.Sample(c17Case{Helper: "ParseDecimalChallengeRFC6287", Args: []string{"4095"}})
	r.Sample(c17Case{Helper: "question-e2e", Args: []string{"OCRA-1:HOTP-SHA1-6:QN08", "11111111"}})
	r.Sample(c17Case{Helper: "HexInputToOCRA", Args: []string{"0000000000000001", "zz", "", "abcdef", "ff"}})
	r.Rule("every helper on every text of its alphabet (all decimal strings of length <= 4 (thorough 5) over {0-9,+,-,space,a,_,x,X,.}, all hex strings <= 3 (thorough 5) over {0,9,a,F,g,x,space}, lengths 0..40 x widths 0..40 and 26 widths up to 65536, all 3^5 valid/invalid/empty field combinations x 2 contents, every decimal question of 1..5 (thorough 6) digits, patterned questions of 6..64 digits incl. 16^k and 16^k +- 1) vs independent encoders (math/big, fmt, encoding/binary); end to end through GenerateOCRA for every registered numeric suite and hand-built numeric suites of every hash x digits 4..10; distinct = distinct (helper, outcome) pairs")
	r.Assume("a leading '+' in decimal text is not decided (documentation silent, Go parsers differ); hex timestamps longer than 16 digits and questions beyond 256 hex digits are outside the property")
}

func trunc80(s string) string {
	if len(s) > 80 {
		return s[:80]
	}
	return s
}
