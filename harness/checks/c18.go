//go:build instr

package checks

import (
	"bytes"
	"crypto/rand"
	"encoding/hex"
	"encoding/json"
	"fmt"
	"io"
	"net"
	"net/http"
	"os"
	"os/exec"
	"sort"
	"strings"
	"sync"
	"time"

	"github.com/ja7ad/otp"
	"github.com/ja7ad/otp/verifharness/ev"
	"github.com/ja7ad/otp/verifharness/irt"
	"github.com/ja7ad/otp/verifharness/ref"
	"github.com/ja7ad/otp/verifharness/xplore"
	"github.com/valyala/fasthttp"
)

func init() { register("C18", "model_checking", c18) }

type c18Case struct {
	Reqs  []rreq `json:"requests"`
	Reuse bool   `json:"reuse_ctx"`
}

func decodeC18(raw []byte) c18Case {
	var c c18Case
	d := json.NewDecoder(bytes.NewReader(raw))
	d.UseNumber()
	d.Decode(&c)
	return c
}

var restKey = []byte("12345678901234567890")

func restInit() {
	// the service runs in a zone with daylight saving: an answer must depend on the instant, never on wall-clock fields
	if z, err := time.LoadLocation("America/New_York"); err == nil {
		time.Local = z
	}
	if restKnownSet == nil {
		restKnownSet = map[string]bool{}
		for _, n := range otp.ListSuites() {
			restKnownSet[n] = true
		}
	}
	restHandler()
	irt.VirtualTime(true) // waits the handlers ask for are accounted (C19) and skipped, never spent
}

// doInProc runs one request in-process and compares with the reference.
func doInProc(ctx *fasthttp.RequestCtx, q rreq) (restResp, string) {
	var stream *recReader
	var old io.Reader
	if q.Path == "/otp/secret" {
		// every request draws from a stream of its own (numbered within the sequence): an answer that repeats an
		// earlier request's secret - a cached response, a reused buffer - is not the next output of the generator
		secretSeq++
		tag := make([]byte, 256)
		for i := range tag {
			tag[i] = byte(i*7 + 3 + secretSeq*29)
		}
		stream = &recReader{stream: tag}
		old = rand.Reader
		rand.Reader = stream
	}
	now0 := time.Now().Unix()
	var resp restResp
	blocked := false
	pn := try(func() { blocked = !irt.RunGuarded(func() { resp = restDo(ctx, q.Method, q.uri(), q.body()) }) })
	now1 := time.Now().Unix()
	if blocked {
		if stream != nil {
			rand.Reader = old
		}
		return resp, fmt.Sprintf("no response: the handler is blocked (no statement executed for %d s)", irt.StallSeconds)
	}
	if stream != nil {
		rand.Reader = old
	}
	if pn != "" {
		return resp, "handler chain panicked: " + pn
	}
	var sw func(n int) string
	if stream != nil {
		sw = func(n int) string { return ref.B32Encode(stream.stream[:n]) }
	}
	return resp, compareResp(q, restExpect(q, now0, now1), resp, sw)
}

// secretSeq numbers the /otp/secret requests of the sequence being run.
var secretSeq int

func runSeq(c c18Case) (obs, bad string) {
	restInit()
	secretSeq = 0
	irt.ResetPools()
	var shared *fasthttp.RequestCtx
	if c.Reuse {
		shared = &fasthttp.RequestCtx{}
	}
	// with fresh contexts every response stays "in flight" (unread by the client) while the
	// later requests are handled: what the handler produced must still be there afterwards
	type inflight struct {
		ctx  *fasthttp.RequestCtx
		body string
		i    int
	}
	var held []inflight
	for i, q := range c.Reqs {
		ctx := shared
		if ctx == nil {
			ctx = &fasthttp.RequestCtx{}
		}
		resp, d := doInProc(ctx, q)
		obs += fmt.Sprintf("[%d %s]", resp.Status, trunc80(resp.Body))
		if d != "" {
			return obs, fmt.Sprintf("request %d (%s %s): %s", i, q.Method, q.uri(), d)
		}
		if !c.Reuse {
			held = append(held, inflight{ctx, resp.Body, i})
		}
		for _, h := range held {
			if now := string(h.ctx.Response.Body()); now != h.body {
				return obs, fmt.Sprintf("the response to request %d changed while request %d was handled (before it was written out): was %s, now %s", h.i, i, trunc80(h.body), trunc80(now))
			}
		}
	}
	return obs, ""
}

// ---------------------------------------------------------------- request alphabets

func secretSpellings() []any {
	u := ref.B32Encode(restKey)
	return []any{u, strings.ToLower(u), u + strings.Repeat("=", ref.B32Pad(len(u))), " " + u + "\n", "!!!notbase32", nil}
}

// lookAlikeSecrets: valid base32 texts that are also valid (or nearly valid) texts of another encoding.
func lookAlikeSecrets() []string {
	out := []string{"DEADBEEF", "CAFEBABECAFEBABE", "AAAAAAAAAAAAAAAA", "abcdef234567abcd", "22334455", "7777777777777777", "2345672345672345", "FEEDFACEDEADBEEF",
		"ABCDEFAB", "23456723", "AAAAAAAA", "77777777", "AE", "AA", "A2", "ME", "MFRGG", "MFRGGZA", "mfrggzdf", " DEADBEEF ", "deadbeef\n",
		strings.Repeat("A", 40), strings.Repeat("AB23", 16), strings.Repeat("F", 32), strings.Repeat("7", 128), strings.Repeat("ABCDEF234567", 4)[:40]}
	for _, n := range []int{20, 32, 64} {
		// the base32 text of an n-byte key of 0xAA.. and the hex-looking text of the same LENGTH as a hex key of n bytes
		out = append(out, ref.B32Encode(patt(n, 0xAA)), strings.Repeat("BADC", n/2)[:2*n])
	}
	return out
}

type fieldAlpha struct {
	name string
	vals []any // nil entry = field absent
}

func product(path string, fields []fieldAlpha, keep func(i int) bool) []rreq {
	var out []rreq
	idx := make([]int, len(fields))
	n := 0
	for {
		if keep == nil || keep(n) {
			f := map[string]any{}
			for k, fa := range fields {
				if v := fa.vals[idx[k]]; v != nil {
					f[fa.name] = v
				}
			}
			out = append(out, rreq{Method: "POST", Path: path, Fields: f})
		}
		n++
		k := len(fields) - 1
		for k >= 0 {
			idx[k]++
			if idx[k] < len(fields[k].vals) {
				break
			}
			idx[k] = 0
			k--
		}
		if k < 0 {
			break
		}
	}
	return out
}

var (
	digitsVals = []any{nil, "6", "8", "9", "10", "7", "", "06", "abc"}
	algoVals   = []any{nil, "SHA1", "SHA256", "SHA512", "sha1", "MD5"}
	periodVals = []any{nil, 0, 1, 30, 60}
	ctrVals    = []any{nil, 0, 1, 7, uint64(1) << 31, uint64(1) << 32, uint64(1) << 53, uint64(1) << 63, ^uint64(0)}
	tsVals     = []any{1, 59, 1111111109, 1699162200, 1699165800, 1678602600, 1678606200, uint64(1) << 31, uint64(1) << 32, uint64(1) << 53, uint64(1) << 62} // incl. both passes of a repeated DST hour and both sides of a skipped one (New York)
)

func ocraInputFor(sh shape, k int) map[string]any {
	in := admissible(sh, k)
	m := map[string]any{}
	put := func(name string, b []byte, sel bool) {
		if sel && len(b) > 0 {
			m[name] = hex.EncodeToString(b)
		}
	}
	put("counter_hex", in.Counter, sh.C)
	put("challenge_hex", in.Challenge, sh.Q)
	put("password_hex", in.Password, sh.P)
	put("session_info_hex", in.Session, sh.S)
	put("timestamp_hex", in.Timestamp, sh.T)
	return m
}

func structuredSuite(sh shape) map[string]any {
	return map[string]any{"hash_function": refAlgoName(sh.Hash), "code_digits": sh.Digits, "challenge_format": sh.QF, "include_counter": sh.C, "include_challenge": sh.Q, "include_password": sh.P, "include_session": sh.S, "include_timestamp": sh.T, "password_hash": sh.PH, "timestep": sh.TS}
}

// c18Requests builds the per-endpoint request products.  thin() reduces big products in the quick tier.
func c18Requests(thorough bool) map[string][]rreq {
	out := map[string][]rreq{}
	sec := fieldAlpha{"secret", secretSpellings()}
	every := func(k int) func(int) bool {
		if thorough || k <= 1 {
			return nil
		}
		return func(i int) bool { return i%k == 0 }
	}
	out["/hotp/generate"] = product("/hotp/generate", []fieldAlpha{sec, {"counter", ctrVals}, {"digits", digitsVals}, {"algorithm", algoVals}}, nil)
	out["/totp/generate"] = product("/totp/generate", []fieldAlpha{sec, {"timestamp", append([]any{nil, 0}, tsVals...)}, {"digits", digitsVals}, {"algorithm", algoVals}, {"period", periodVals}}, every(3))
	// validation: codes at every distance around the window plus wrong/blank ones
	u := ref.B32Encode(restKey)
	var hv, tv []rreq
	for s := 0; s <= 11; s++ {
		for _, c := range []uint64{0, 5, 1 << 32, 1 << 63} {
			for di, dg := range digitsVals {
				for ai, al := range algoVals {
					if !thorough && (s+di+ai)%3 != 0 {
						continue
					}
					ds, _ := dg.(string)
					as, _ := al.(string)
					d, a := refDigits(ds), refAlgo(as)
					for dist := -(s + 1); dist <= s+1; dist++ {
						if dist < 0 && c < uint64(-dist) {
							continue
						}
						f := map[string]any{"secret": []any{u, " " + strings.ToLower(u) + " "}[(s+di)%2], "code": ref.HOTP(restKey, c+uint64(int64(dist)), d, a), "counter": c}
						if s > 0 || di%2 == 0 {
							f["skew"] = s
						}
						if dg != nil {
							f["digits"] = dg
						}
						if al != nil {
							f["algorithm"] = al
						}
						hv = append(hv, rreq{Method: "POST", Path: "/hotp/validate", Fields: f})
					}
				}
			}
		}
		for _, ts := range []int64{59, 1111111109, 1 << 32} {
			for pi, per := range periodVals {
				for di, dg := range digitsVals {
					for ai, al := range algoVals {
						if !thorough && (s+di+ai+pi)%5 != 0 {
							continue
						}
						ds, _ := dg.(string)
						as, _ := al.(string)
						d, a := refDigits(ds), refAlgo(as)
						p := uint64(0)
						if per != nil {
							p = uint64(per.(int))
						}
						st := ref.Step(ts, p)
						for dist := -(s + 1); dist <= s+1; dist++ {
							if dist < 0 && st < uint64(-dist) {
								continue
							}
							f := map[string]any{"secret": u, "code": ref.HOTP(restKey, st+uint64(int64(dist)), d, a), "timestamp": ts, "skew": s}
							if per != nil {
								f["period"] = per
							}
							if dg != nil {
								f["digits"] = dg
							}
							if al != nil {
								f["algorithm"] = al
							}
							tv = append(tv, rreq{Method: "POST", Path: "/totp/validate", Fields: f})
						}
					}
				}
			}
		}
	}
	// windows that reach below step / counter 0: the library's TOTP window wraps modulo 2^64 (the code of counter
	// 2^64-1 is in the window of step 0 with skew 1), its HOTP window is cut at 0 - the service must give the
	// library's verdict for each, whatever it makes of that
	for _, ts := range []int{1, 10, 29, 30, 31, 59, 60, 299} {
		for _, sk := range []int{1, 2, 10} {
			for _, per := range []int{30, 1, 60} {
				st := int64(ref.Step(int64(ts), uint64(per)))
				for _, dist := range []int64{-int64(sk) - 1, -int64(sk), -1, 0, 1, int64(sk), int64(sk) + 1} {
					tv = append(tv, rreq{Method: "POST", Path: "/totp/validate", Fields: map[string]any{"secret": u, "timestamp": ts, "period": per, "skew": sk, "code": ref.HOTP(restKey, uint64(st+dist), 6, 0)}})
				}
			}
		}
	}
	for _, c := range []uint64{0, 1, 2, 9} {
		for _, sk := range []int{1, 2, 10} {
			for _, dist := range []int64{-int64(sk) - 1, -int64(sk), -1, 0, int64(sk)} {
				hv = append(hv, rreq{Method: "POST", Path: "/hotp/validate", Fields: map[string]any{"secret": u, "counter": c, "skew": sk, "code": ref.HOTP(restKey, uint64(int64(c)+dist), 6, 0)}})
			}
		}
	}
	// the right code with white space around it is NOT the code: the verdict must be the library's (false)
	for _, deco := range []func(string) string{func(c string) string { return " " + c }, func(c string) string { return c + "\n" }, func(c string) string { return c + "\u00a0" }, func(c string) string { return "\t" + c + " " }, func(c string) string { return c[:len(c)-1] + " " }} {
		for _, d := range []string{"6", "8", "10"} {
			dn := refDigits(d)
			hv = append(hv, rreq{Method: "POST", Path: "/hotp/validate", Fields: map[string]any{"secret": u, "code": deco(ref.HOTP(restKey, 7, dn, 0)), "counter": 7, "digits": d, "skew": 1}})
			tv = append(tv, rreq{Method: "POST", Path: "/totp/validate", Fields: map[string]any{"secret": u, "code": deco(ref.HOTP(restKey, ref.Step(59, 30), dn, 0)), "timestamp": 59, "digits": d, "skew": 1}})
		}
	}
	for _, code := range []any{"000000", "12345", "1234567", " ", nil, "１２３４５６"} {
		for _, s := range secretSpellings() {
			f := map[string]any{"counter": 1, "timestamp": 59}
			if code != nil {
				f["code"] = code
			}
			if s != nil {
				f["secret"] = s
			}
			hv = append(hv, rreq{Method: "POST", Path: "/hotp/validate", Fields: f})
			tv = append(tv, rreq{Method: "POST", Path: "/totp/validate", Fields: f})
		}
	}
	// an omitted field must not be guessed from the others: digits absent and the correct code of ANOTHER length
	// (judged with the documented 6 digits: false), algorithm absent and the SHA-256/512 code, period absent and the code of a 60 s step
	for _, d := range []int{7, 8, 9, 10, 5, 4} {
		for a := 0; a < 3; a++ {
			al := []string{"SHA1", "SHA256", "SHA512"}[a]
			hv = append(hv, rreq{Method: "POST", Path: "/hotp/validate", Fields: map[string]any{"secret": u, "counter": 1, "algorithm": al, "code": ref.HOTP(restKey, 1, d, a)}},
				rreq{Method: "POST", Path: "/hotp/validate", Fields: map[string]any{"secret": u, "counter": 1, "digits": fmt.Sprint(d), "code": ref.HOTP(restKey, 1, d, a)}},
				rreq{Method: "POST", Path: "/hotp/validate", Fields: map[string]any{"secret": u, "counter": 1, "code": ref.HOTP(restKey, 1, d, a)}})
			tv = append(tv, rreq{Method: "POST", Path: "/totp/validate", Fields: map[string]any{"secret": u, "timestamp": 59, "algorithm": al, "code": ref.HOTP(restKey, 1, d, a)}},
				rreq{Method: "POST", Path: "/totp/validate", Fields: map[string]any{"secret": u, "timestamp": 59, "digits": fmt.Sprint(d), "code": ref.HOTP(restKey, 1, d, a)}},
				rreq{Method: "POST", Path: "/totp/validate", Fields: map[string]any{"secret": u, "timestamp": 119, "digits": fmt.Sprint(d), "algorithm": al, "code": ref.HOTP(restKey, ref.Step(119, 60), d, a)}})
		}
	}
	// periods of every kind (primes, powers of two, hours, days ...) x instants spread over each step: nothing between the
	// request and the library may round, truncate or align the instant
	for _, per := range []uint64{7, 11, 13, 14, 21, 29, 31, 45, 81, 90, 125, 512, 600, 3600, 86400, 604800} {
		for j := uint64(0); j < 7; j++ {
			ts := uint64(1700000001) + j*(per/6+1)
			for _, al := range []string{"SHA1", "SHA512"} {
				tv = append(tv, rreq{Method: "POST", Path: "/totp/generate", Fields: map[string]any{"secret": u, "timestamp": ts, "period": per, "digits": "8", "algorithm": al}})
				an := refAlgo(al)
				for _, dist := range []int64{-1, 0, 1} {
					tv = append(tv, rreq{Method: "POST", Path: "/totp/validate", Fields: map[string]any{"secret": u, "timestamp": ts, "period": per, "digits": "8", "algorithm": al, "code": ref.HOTP(restKey, uint64(int64(ref.Step(int64(ts), per))+dist), 8, an)}})
				}
			}
		}
	}
	// "now": no timestamp
	tv = append(tv, rreq{Method: "POST", Path: "/totp/validate", Fields: map[string]any{"secret": u, "code": "000000", "skew": 1}})
	out["/hotp/validate"], out["/totp/validate"] = hv, tv
	// OCRA: raw suites for every registered name, structured suites from a reduced C05 grid
	names := otp.ListSuites()
	sort.Strings(names)
	var og, ov []rreq
	for i, n := range names {
		rs, ok := ref.ParseSuite(n)
		if !ok {
			continue
		}
		sh := shapeOfRef(rs)
		for k := 0; k < 4; k++ {
			in := ocraInputFor(sh, i+k)
			og = append(og, rreq{Method: "POST", Path: "/ocra/generate", Fields: map[string]any{"secret": secretSpellings()[k%4], "raw_suite": n, "input": in}})
			rin := admissible(sh, i+k)
			code := ref.OCRA(restKey, rs, rin.ref())
			ov = append(ov, rreq{Method: "POST", Path: "/ocra/validate", Fields: map[string]any{"secret": u, "raw_suite": n, "input": in, "code": code}})
			ov = append(ov, rreq{Method: "POST", Path: "/ocra/validate", Fields: map[string]any{"secret": u, "raw_suite": n, "input": in, "code": ref.Format(1, sh.Digits)}})
			if k == 0 {
				ov = append(ov, rreq{Method: "POST", Path: "/ocra/validate", Fields: map[string]any{"secret": u, "raw_suite": n, "input": in, "code": " " + code}},
					rreq{Method: "POST", Path: "/ocra/validate", Fields: map[string]any{"secret": u, "raw_suite": n, "input": in, "code": code + "\n"}})
			}
		}
	}
	for i, sh0 := range usableShapes([]int{60}) {
		for h := 0; h < 3; h++ {
			for d := 4; d <= 10; d++ {
				if !thorough && (i+h+d)%4 != 0 {
					continue
				}
				sh := sh0
				sh.Hash, sh.Digits = h, d
				in := ocraInputFor(sh, i+d)
				og = append(og, rreq{Method: "POST", Path: "/ocra/generate", Fields: map[string]any{"secret": u, "suite": structuredSuite(sh), "input": in}})
				rin := admissible(sh, i+d)
				code := ref.OCRA(restKey, sh.ref(), rin.ref())
				ov = append(ov, rreq{Method: "POST", Path: "/ocra/validate", Fields: map[string]any{"secret": u, "suite": structuredSuite(sh), "input": in, "code": code}})
			}
		}
	}
	// both a registered raw_suite and a (different but valid) structured suite: the named suite wins
	for i, n := range names {
		rs, ok := ref.ParseSuite(n)
		if !ok || i%4 != 0 {
			continue
		}
		sh := shapeOfRef(rs)
		other := shape{Hash: (sh.Hash + 1) % 3, Digits: 4 + (sh.Digits+1)%7, Q: true, QF: 1 + i%6}
		same := sh
		same.Text = ""
		for k, st := range []shape{other, same} {
			in := ocraInputFor(sh, i+k)
			for f, v := range ocraInputFor(st, i+k) {
				if _, has := in[f]; !has {
					in[f] = v
				}
			}
			rin := oin{}
			for f, v := range in {
				b, _ := hex.DecodeString(v.(string))
				switch f {
				case "counter_hex":
					rin.Counter = b
				case "challenge_hex":
					rin.Challenge = b
				case "password_hex":
					rin.Password = b
				case "session_info_hex":
					rin.Session = b
				case "timestamp_hex":
					rin.Timestamp = b
				}
			}
			og = append(og, rreq{Method: "POST", Path: "/ocra/generate", Fields: map[string]any{"secret": u, "raw_suite": n, "suite": structuredSuite(st), "input": in}})
			if ref.Admit(rs, rin.ref()) {
				ov = append(ov, rreq{Method: "POST", Path: "/ocra/validate", Fields: map[string]any{"secret": u, "raw_suite": n, "suite": structuredSuite(st), "input": in, "code": ref.OCRA(restKey, rs, rin.ref())}})
				st2 := st.ref()
				if ref.Usable(st2) && ref.Admit(st2, rin.ref()) {
					ov = append(ov, rreq{Method: "POST", Path: "/ocra/validate", Fields: map[string]any{"secret": u, "raw_suite": n, "suite": structuredSuite(st), "input": in, "code": ref.OCRA(restKey, st2, rin.ref())}})
				}
			}
		}
	}
	// failing but well-formed: unknown raw suite, unusable structured suite, inadmissible input, bad hex, missing input
	bad := shape{Hash: 0, Digits: 3, Q: true, QF: 1}
	good := shape{Hash: 1, Digits: 8, C: true, Q: true, QF: 2}
	for _, f := range []map[string]any{
		{"secret": u, "raw_suite": "OCRA-1:HOTP-SHA1-6:QN99", "input": map[string]any{}},
		{"secret": u, "suite": structuredSuite(bad), "input": ocraInputFor(bad, 1)},
		{"secret": u, "suite": structuredSuite(good), "input": map[string]any{"challenge_hex": "00"}},
		{"secret": u, "suite": structuredSuite(good), "input": map[string]any{"challenge_hex": "zz"}},
		{"secret": u, "suite": structuredSuite(good)},
		{"secret": u, "input": ocraInputFor(good, 1)},
		{"secret": "!!!", "suite": structuredSuite(good), "input": ocraInputFor(good, 1)},
		{"suite": structuredSuite(good), "input": ocraInputFor(good, 1)},
	} {
		og = append(og, rreq{Method: "POST", Path: "/ocra/generate", Fields: f})
		g := map[string]any{"code": "12345678"}
		for k, v := range f {
			g[k] = v
		}
		ov = append(ov, rreq{Method: "POST", Path: "/ocra/validate", Fields: g})
	}
	// input fields of the WRONG width (and malformed hex) for each of the five fields, on suites that select the
	// field and on suites that do not: the service must answer what the library answers for precisely these texts
	// (no padding, trimming or truncating on the way)
	for i, n := range names {
		rs, ok := ref.ParseSuite(n)
		if !ok || i%3 != 0 {
			continue
		}
		sh := shapeOfRef(rs)
		for fi, field := range []string{"counter_hex", "challenge_hex", "password_hex", "session_info_hex", "timestamp_hex"} {
			for vi, v := range []string{"01", "1", "0132D0B6", "FF0000000000000001", "00000000000000000", "0x01", " 01", "", strings.Repeat("ab", 64), strings.Repeat("ab", 129), "zz"} {
				if (i+fi+vi)%2 == 1 {
					continue
				}
				in := ocraInputFor(sh, i)
				in[field] = v
				og = append(og, rreq{Method: "POST", Path: "/ocra/generate", Fields: map[string]any{"secret": u, "raw_suite": n, "input": in}})
				ov = append(ov, rreq{Method: "POST", Path: "/ocra/validate", Fields: map[string]any{"secret": u, "raw_suite": n, "input": in, "code": ref.Format(7, sh.Digits)}})
			}
		}
	}
	// secrets whose base32 text also reads as something else (hexadecimal, decimal, base64, padded forms, other
	// lengths): the service must hand the text to the library as it is, through all six code endpoints
	for i, s := range lookAlikeSecrets() {
		v, key := ref.B32Classify(strings.TrimSpace(s))
		if v != ref.MustAccept {
			continue
		}
		al := []string{"SHA1", "SHA256", "SHA512"}[i%3]
		an := refAlgo(al)
		out["/hotp/generate"] = append(out["/hotp/generate"], rreq{Method: "POST", Path: "/hotp/generate", Fields: map[string]any{"secret": s, "counter": 3 + i, "algorithm": al}})
		out["/totp/generate"] = append(out["/totp/generate"], rreq{Method: "POST", Path: "/totp/generate", Fields: map[string]any{"secret": s, "timestamp": 1111111109 + i, "algorithm": al}})
		hv = append(hv, rreq{Method: "POST", Path: "/hotp/validate", Fields: map[string]any{"secret": s, "counter": 3 + i, "algorithm": al, "code": ref.HOTP(key, uint64(3+i), 6, an)}},
			rreq{Method: "POST", Path: "/hotp/validate", Fields: map[string]any{"secret": s, "counter": 3 + i, "algorithm": al, "code": ref.HOTP(key, uint64(4+i), 6, an)}})
		tv = append(tv, rreq{Method: "POST", Path: "/totp/validate", Fields: map[string]any{"secret": s, "timestamp": 1111111109 + i, "algorithm": al, "code": ref.HOTP(key, ref.Step(int64(1111111109+i), 30), 6, an)}})
		n := names[i%len(names)]
		if rs, ok := ref.ParseSuite(n); ok {
			sh := shapeOfRef(rs)
			in := ocraInputFor(sh, i)
			og = append(og, rreq{Method: "POST", Path: "/ocra/generate", Fields: map[string]any{"secret": s, "raw_suite": n, "input": in}})
			ov = append(ov, rreq{Method: "POST", Path: "/ocra/validate", Fields: map[string]any{"secret": s, "raw_suite": n, "input": in, "code": ref.OCRA(key, rs, admissible(sh, i).ref())}})
		}
	}
	out["/hotp/validate"], out["/totp/validate"] = hv, tv
	out["/ocra/generate"], out["/ocra/validate"] = og, ov
	var os1 []rreq
	for _, n := range append(append([]string{}, names...), "OCRA-1:HOTP-SHA1-6:QN99", "", " ", "ocra-1:hotp-sha1-6:qn08") {
		os1 = append(os1, rreq{Method: "POST", Path: "/ocra/suite", Fields: map[string]any{"raw_suite": n}})
	}
	out["/ocra/suite"] = os1
	out["/ocra/suites"] = []rreq{{Method: "GET", Path: "/ocra/suites"}}
	for _, a := range []string{"", "algorithm=SHA1", "algorithm=SHA256", "algorithm=SHA512", "algorithm=sha256", "algorithm=MD5", "x=y"} {
		out["/otp/secret"] = append(out["/otp/secret"], rreq{Method: "GET", Path: "/otp/secret", Query: a})
	}
	out["/otp/url"] = product("/otp/url", []fieldAlpha{{"type", []any{"totp", "hotp", "TOTP", "", nil}}, {"secret", []any{"JBSWY3DPEHPK3PXP", " ", nil, " JBSWY3DPEHPK3PXP", "JBSWY3DPEHPK3PXP\n", "\tjbswy3dpehpk3pxp \n", "MZXW6YQ= "}}, {"issuer", []any{"Example", "My Company", "a/b?c#d", "100%", nil}}, {"account_name", []any{"alice@example.com", "bob smith", "x:y", nil}}, {"period", periodVals}, {"digits", digitsVals}, {"algorithm", algoVals}}, every(7))
	return out
}

// ---------------------------------------------------------------- real binary on loopback

type liveServer struct {
	cmd  *exec.Cmd
	addr string
}

func startServer() (*liveServer, error) {
	bin := os.Getenv("VERIF_OTPAPI")
	if bin == "" {
		return nil, fmt.Errorf("server binary not built")
	}
	l, err := net.Listen("tcp", "127.0.0.1:0")
	if err != nil {
		return nil, err
	}
	addr := l.Addr().String()
	l.Close()
	cmd := exec.Command(bin, "-serve", addr)
	cmd.Stdout, cmd.Stderr = nil, nil
	cmd.Env = append(os.Environ(), "TZ=America/New_York") // a zone with daylight saving (if the host has zone data; else UTC)
	if err := cmd.Start(); err != nil {
		return nil, err
	}
	for i := 0; i < 200; i++ {
		c, err := net.DialTimeout("tcp", addr, 100*time.Millisecond)
		if err == nil {
			c.Close()
			return &liveServer{cmd, addr}, nil
		}
		time.Sleep(25 * time.Millisecond)
	}
	cmd.Process.Kill()
	return nil, fmt.Errorf("server did not start listening on %s", addr)
}

func (s *liveServer) stop() {
	s.cmd.Process.Kill()
	s.cmd.Wait()
}

func (s *liveServer) alive() bool {
	return s.cmd.ProcessState == nil && s.cmd.Process.Signal(syscallZero) == nil
}

func (s *liveServer) do(cl *http.Client, q rreq) (restResp, error) {
	var body io.Reader
	if b := q.body(); b != nil {
		body = bytes.NewReader(b)
	}
	req, err := http.NewRequest(q.Method, "http://"+s.addr+q.uri(), body)
	if err != nil {
		return restResp{}, err
	}
	if body != nil {
		req.Header.Set("Content-Type", "application/json")
	}
	for k, v := range q.Headers {
		req.Header.Set(k, v)
	}
	resp, err := cl.Do(req)
	if err != nil {
		return restResp{}, err
	}
	defer resp.Body.Close()
	b, err := io.ReadAll(resp.Body)
	return restResp{resp.StatusCode, resp.Header.Get("Content-Type"), string(b)}, err
}

func newClient(keepAlive bool) *http.Client {
	return &http.Client{Timeout: 30 * time.Second, Transport: &http.Transport{DisableKeepAlives: !keepAlive, MaxIdleConnsPerHost: 4}}
}

func c18(r *ev.Run) {
	restInit()
	r.Scenario("request-sequence", func(raw []byte) (string, string) { return runSeq(decodeC18(raw)) })
	r.Scenario("rest-schedule", func(raw []byte) (string, string) {
		c := unjson[c11Sched](raw)
		for _, sc := range restScens() {
			if sc.name == c.Scenario {
				var o, bad string
				xplore.Run(c.Choices, func(x *xplore.X) { o, bad = runRestSchedule(sc, x) })
				return o, bad
			}
		}
		return "", "unknown scenario"
	})
	if ReplayOnly {
		return
	}
	reqs := c18Requests(r.Thorough())
	var paths []string
	for p := range reqs {
		paths = append(paths, p)
	}
	sort.Strings(paths)
	// (i) per-endpoint products, each request alone on a fresh ctx
	per := map[string]int{}
	var n int64
	for _, p := range paths {
		for i, q := range reqs[p] {
			c := c18Case{[]rreq{q}, i%2 == 1}
			obs, bad := runSeq(c)
			n++
			per[p]++
			if bad != "" {
				r.Fail("request-sequence", p+": "+bad, c, "the reference result for exactly these fields", obs+" "+bad)
			}
			r.DistinctS(p + obs)
		}
	}
	r.Set("requests_per_endpoint", per)
	// generate -> validate pairing on the matching endpoint
	u := ref.B32Encode(restKey)
	pair := func(gen rreq, mk func(code string) rreq) {
		resp := restDo(nil, gen.Method, gen.uri(), gen.body())
		var m map[string]any
		json.Unmarshal([]byte(resp.Body), &m)
		code, _ := m["code"].(string)
		v := mk(code)
		c := c18Case{[]rreq{gen, v}, true}
		vr := restDo(nil, v.Method, v.uri(), v.body())
		n++
		if resp.Status != 200 || !strings.Contains(vr.Body, `"valid":true`) {
			r.Fail("request-sequence", "pairing "+gen.Path+" -> "+v.Path, c, `{"valid":true}`, fmt.Sprint(resp.Status, resp.Body, " -> ", vr.Status, vr.Body))
		}
	}
	for _, dg := range []string{"6", "8", "9", "10"} {
		for _, al := range []string{"SHA1", "SHA256", "SHA512"} {
			dg, al := dg, al
			pair(rreq{Method: "POST", Path: "/hotp/generate", Fields: map[string]any{"secret": u, "counter": 42, "digits": dg, "algorithm": al}}, func(code string) rreq {
				return rreq{Method: "POST", Path: "/hotp/validate", Fields: map[string]any{"secret": u, "counter": 42, "digits": dg, "algorithm": al, "code": code}}
			})
			pair(rreq{Method: "POST", Path: "/totp/generate", Fields: map[string]any{"secret": u, "timestamp": 1111111109, "period": 60, "digits": dg, "algorithm": al}}, func(code string) rreq {
				return rreq{Method: "POST", Path: "/totp/validate", Fields: map[string]any{"secret": u, "timestamp": 1111111111, "period": 60, "digits": dg, "algorithm": al, "code": code}}
			})
		}
	}
	for _, og := range reqs["/ocra/generate"][:60] {
		og := og
		pair(og, func(code string) rreq {
			f := map[string]any{"code": code}
			for k, v := range og.Fields {
				f[k] = v
			}
			return rreq{Method: "POST", Path: "/ocra/validate", Fields: f}
		})
	}
	r.Eval(n)
	// (ii) histories: all ordered pairs over a class list (one representative per endpoint and outcome), both ctx modes; triples over a core
	var classes []rreq
	for _, p := range paths {
		l := reqs[p]
		for _, i := range []int{0, len(l) / 3, 2 * len(l) / 3, len(l) - 1} {
			if i >= 0 && i < len(l) {
				classes = append(classes, l[i])
			}
		}
	}
	states := map[string]bool{}
	var trans int64
	seq := func(c c18Case) {
		obs, bad := runSeq(c)
		trans += int64(len(c.Reqs))
		states[irt.Digest(true)] = true
		if bad != "" {
			r.Fail("request-sequence", fmt.Sprintf("history of %d requests (reuse=%v): %s", len(c.Reqs), c.Reuse, bad), c, "every response equals the stateless reference", obs+" "+bad)
		}
	}
	for _, a := range classes {
		for _, b := range classes {
			for _, reuse := range []bool{false, true} {
				seq(c18Case{[]rreq{a, b}, reuse})
			}
		}
	}
	// field carry-over: a "maximal" request (every optional field set to a non-default value)
	// followed by a "minimal" one (optional fields omitted) whose answer differs between the
	// documented default and the previous request's value; all ordered pairs, across endpoints
	co := carryOver()
	for _, a := range co {
		for _, b := range co {
			for _, reuse := range []bool{false, true} {
				seq(c18Case{[]rreq{a, b}, reuse})
				if reuse {
					seq(c18Case{[]rreq{a, a, b, b}, reuse})
				}
			}
		}
	}
	r.Set("carry_over_requests", len(co))
	core := classes
	if len(core) > 14 {
		core = nil
		for i := 0; i < len(classes); i += len(classes) / 14 {
			core = append(core, classes[i])
		}
	}
	for _, a := range core {
		for _, b := range core {
			for _, c := range core {
				seq(c18Case{[]rreq{a, b, c}, true})
			}
		}
	}
	r.Eval(trans)
	r.State(int64(len(states)))
	r.Transition(trans)
	r.Trace(trans)
	r.Set("history_classes", len(classes))
	r.Set("history_core_classes", len(core))
	// (iii) 2-thread REST scenarios under the cooperative scheduler
	for _, sc := range restScens() {
		bound := 1
		if r.Thorough() {
			bound = 2
		}
		outcomes := map[string]bool{}
		var lastBad, lastObs string
		st := xplore.Explore(xplore.Options{Bound: bound, MaxExec: 300000}, func(x *xplore.X) {
			lastObs, lastBad = runRestSchedule(sc, x)
			outcomes[lastObs] = true
		}, func(x *xplore.X) bool {
			if lastBad != "" {
				r.Fail("rest-schedule", sc.name+": "+lastBad, c11Sched{sc.name, x.Choices()}, "each concurrent response equals the response to the request alone", lastObs+" "+lastBad)
				return false
			}
			return true
		})
		if st.Capped {
			r.NotExhaustive("REST schedule exploration capped at 300000 executions for " + sc.name)
		}
		r.Eval(st.Executions)
		r.State(st.Executions)
		r.Transition(st.Points)
		r.Trace(st.Executions)
		r.Set("schedules "+sc.name, map[string]any{"bound": bound, "executions": st.Executions, "max_points": st.MaxPoints, "by_preemptions": st.ByCost, "distinct_outcomes": len(outcomes)})
	}
	// (iv) the class list against the real binary: sequentially on keep-alive and fresh connections, then concurrently
	srv, err := startServer()
	if r.Violations() > 0 {
		if err == nil {
			srv.stop()
		}
		r.NotExhaustive("loopback pass skipped: the in-process exploration already reported violations")
	} else if err != nil {
		r.NotExhaustive("real server binary unavailable: " + err.Error())
	} else {
		defer srv.stop()
		var live int64
		check := func(cl *http.Client, q rreq, mode string) {
			now0 := time.Now().Unix()
			resp, err := srv.do(cl, q)
			now1 := time.Now().Unix()
			live++
			if err != nil {
				r.Fail("request-sequence", "live "+mode+" "+q.Path+": transport error", c18Case{[]rreq{q}, false}, "a response", err.Error())
				return
			}
			if d := compareResp(q, restExpect(q, now0, now1), resp, nil); d != "" {
				r.Fail("request-sequence", "live "+mode+" "+q.Path+": "+d, c18Case{[]rreq{q}, false}, "the reference result", fmt.Sprint(resp.Status, " ", trunc80(resp.Body), " ", d))
			}
		}
		ka, fresh := newClient(true), newClient(false)
		for i, q := range classes {
			check(ka, q, "keep-alive")
			if i%3 == 0 {
				check(fresh, q, "fresh")
			}
		}
		// requests WITHOUT a timestamp on one keep-alive connection, more than a second apart: each must be answered for "now"
		nowReq := rreq{Method: "POST", Path: "/totp/generate", Fields: map[string]any{"secret": ref.B32Encode(restKey), "period": 1}}
		nowVal := func() rreq {
			return rreq{Method: "POST", Path: "/totp/validate", Fields: map[string]any{"secret": ref.B32Encode(restKey), "period": 1, "code": ref.HOTP(restKey, uint64(time.Now().Unix()), 6, 0)}}
		}
		for i := 0; i < 3; i++ {
			check(ka, nowReq, "keep-alive-now")
			// with a 1 s period the verdict for the current code is only decided away from a second boundary
			if ns := time.Now().Nanosecond(); ns > 100_000_000 && ns < 600_000_000 {
				check(ka, nowVal(), "keep-alive-now")
			}
			time.Sleep(1100 * time.Millisecond)
		}
		var wg sync.WaitGroup
		var mu sync.Mutex
		for w := 0; w < 8; w++ {
			wg.Add(1)
			go func(w int) {
				defer wg.Done()
				cl := newClient(w%2 == 0)
				for i := range classes {
					q := classes[(i*7+w*5)%len(classes)]
					now0 := time.Now().Unix()
					resp, err := srv.do(cl, q)
					now1 := time.Now().Unix()
					mu.Lock()
					live++
					if err != nil {
						r.Fail("request-sequence", "live concurrent "+q.Path+": transport error", c18Case{[]rreq{q}, false}, "a response", err.Error())
					} else if d := compareResp(q, restExpect(q, now0, now1), resp, nil); d != "" {
						r.Fail("request-sequence", "live concurrent "+q.Path+": "+d, c18Case{[]rreq{q}, false}, "the reference result", fmt.Sprint(resp.Status, " ", trunc80(resp.Body)))
					}
					mu.Unlock()
				}
			}(w)
		}
		wg.Wait()
		r.Eval(live)
		r.Set("live_requests_against_real_binary", live)
	}
	r.Sample(c18Case{[]rreq{reqs["/totp/validate"][7]}, false})
	r.Sample(c18Case{[]rreq{reqs["/ocra/generate"][3], reqs["/hotp/generate"][11]}, true})
	r.Rule("(i) per endpoint the product of {field present/absent} x per-field alphabets (secret spellings incl. white space and undecodable; counter/timestamp boundaries; digits and hash spellings incl. unknown ones; period; skew 0..11; codes at every distance around the window; raw suites for every registered name and structured suites from the C05 grid; URL fields) driven in-process through the real handler chain of api.NewServer(), each response compared with the reference result for exactly those fields; generate->validate pairing; (ii) all ordered pairs of a class list on fresh and reused RequestCtx and all triples over a core; (iii) 2-thread request scenarios under the cooperative scheduler (statement points in api and otp); (iv) the class list against the real server binary on loopback (keep-alive, fresh, 8 concurrent clients). state = digest of package-level state, transition = one request; distinct = distinct (endpoint, response) pairs")
	r.Assume("fasthttp and encoding/json are trusted; requests without a timestamp are judged at the echoed timestamp (generation) or accepted either way only if the reference verdict differs between send and receive instants (validation)", "/otp/secret on the real binary is checked for shape only (the random source can only be substituted in-process)")
}

// ---------------------------------------------------------------- scheduled REST scenarios

type restScen struct {
	name    string
	threads [][]rreq
}

func restScens() []restScen {
	u := ref.B32Encode(restKey)
	hg := rreq{Method: "POST", Path: "/hotp/generate", Fields: map[string]any{"secret": u, "counter": 9, "digits": "8", "algorithm": "SHA256"}}
	tv := rreq{Method: "POST", Path: "/totp/validate", Fields: map[string]any{"secret": u, "timestamp": 59, "code": ref.HOTP(restKey, 2, 6, 0), "skew": 1}}
	sh := shape{Hash: 0, Digits: 6, Q: true, QF: 1}
	og := rreq{Method: "POST", Path: "/ocra/generate", Fields: map[string]any{"secret": u, "raw_suite": "OCRA-1:HOTP-SHA1-6:QN08", "input": ocraInputFor(sh, 2)}}
	og2 := rreq{Method: "POST", Path: "/ocra/generate", Fields: map[string]any{"secret": u, "suite": structuredSuite(longShape()), "input": ocraInputFor(longShape(), 4)}}
	// two requests to the SAME endpoint that differ in every parameter (anything one handler instance shares between
	// its in-flight requests - a parameter struct, a response object, a scratch buffer - shows under overlap)
	post := func(path string, f map[string]any) rreq { return rreq{Method: "POST", Path: path, Fields: f} }
	u2 := ref.B32Encode([]byte("another-rest-key-0123456789"))
	k2 := []byte("another-rest-key-0123456789")
	hv1 := post("/hotp/validate", map[string]any{"secret": u, "counter": 5, "digits": "8", "algorithm": "SHA512", "skew": 10, "code": ref.HOTP(restKey, 15, 8, 2)})
	hv2 := post("/hotp/validate", map[string]any{"secret": u2, "counter": 7, "code": ref.HOTP(k2, 8, 6, 0)}) // skew omitted: distance 1 => false
	tv1 := post("/totp/validate", map[string]any{"secret": u, "timestamp": 1111111109, "period": 60, "digits": "10", "algorithm": "SHA256", "skew": 9, "code": ref.HOTP(restKey, ref.Step(1111111109, 60)+9, 10, 1)})
	tv2 := post("/totp/validate", map[string]any{"secret": u2, "timestamp": 59, "code": ref.HOTP(k2, 2, 6, 0)}) // skew omitted, neighbouring step => false
	hg2 := post("/hotp/generate", map[string]any{"secret": u2, "counter": 1})
	tg1 := post("/totp/generate", map[string]any{"secret": u, "timestamp": 1111111109, "period": 60, "digits": "10", "algorithm": "SHA512"})
	tg2 := post("/totp/generate", map[string]any{"secret": u2, "timestamp": 59})
	ov1 := post("/ocra/validate", map[string]any{"secret": u, "raw_suite": "OCRA-1:HOTP-SHA1-6:QN08", "input": ocraInputFor(sh, 2), "code": ref.OCRA(restKey, sh.ref(), admissible(sh, 2).ref())})
	ov2 := post("/ocra/validate", map[string]any{"secret": u2, "suite": structuredSuite(longShape()), "input": ocraInputFor(longShape(), 4), "code": ref.OCRA(k2, longShape().ref(), admissible(longShape(), 4).ref())})
	os1 := post("/ocra/suite", map[string]any{"raw_suite": "OCRA-1:HOTP-SHA512-8:C-QH10-PSHA512-S-T1"})
	os2 := post("/ocra/suite", map[string]any{"raw_suite": "OCRA-1:HOTP-SHA1-6:QN08"})
	ou1 := post("/otp/url", map[string]any{"type": "totp", "secret": u, "issuer": "My Company", "account_name": "alice@example.com", "period": 60, "digits": "8", "algorithm": "SHA256"})
	ou2 := post("/otp/url", map[string]any{"type": "hotp", "secret": u2, "issuer": "I", "account_name": "b"})
	return []restScen{{"hotp-generate||totp-validate", [][]rreq{{hg}, {tv}}}, {"ocra-generate||ocra-generate", [][]rreq{{og}, {og2}}},
		{"hotp-validate||hotp-validate", [][]rreq{{hv1}, {hv2}}}, {"totp-validate||totp-validate", [][]rreq{{tv1}, {tv2}}},
		{"hotp-generate||hotp-generate", [][]rreq{{hg}, {hg2}}}, {"totp-generate||totp-generate", [][]rreq{{tg1}, {tg2}}},
		{"ocra-validate||ocra-validate", [][]rreq{{ov1}, {ov2}}}, {"ocra-suite||ocra-suite", [][]rreq{{os1}, {os2}}}, {"otp-url||otp-url", [][]rreq{{ou1}, {ou2}}},
		{"totp-validate||totp-generate||hotp-validate", [][]rreq{{tv1}, {tg2}, {hv2}}}}
}

func runRestSchedule(sc restScen, x *xplore.X) (obs, bad string) {
	restInit()
	irt.ResetPools()
	// warm state: one request of each thread run alone first (handler chain built, one buffer pooled)
	type slot struct {
		q    rreq
		resp restResp
		d    string
	}
	var slots []*slot
	var bodies []func()
	for _, th := range sc.threads {
		th := th
		var mine []*slot
		for _, q := range th {
			s := &slot{q: q}
			mine = append(mine, s)
			slots = append(slots, s)
		}
		bodies = append(bodies, func() {
			ctx := &fasthttp.RequestCtx{}
			for _, s := range mine {
				s.resp, s.d = doInProc(ctx, s.q)
			}
		})
	}
	res := irt.RunThreads(x, 100000, true, bodies)
	for _, p := range res.Panics {
		if strings.Contains(p, "replay diverged") {
			return "", "NONDETERMINISM: " + p
		}
	}
	if res.Deadlock || res.Overrun || len(res.Panics) > 0 {
		return "abnormal", fmt.Sprintf("deadlock=%v overrun=%v panics=%v", res.Deadlock, res.Overrun, res.Panics)
	}
	for i, s := range slots {
		obs += fmt.Sprintf("[%d %s]", s.resp.Status, trunc80(s.resp.Body))
		if s.d != "" {
			return obs, fmt.Sprintf("request %d (%s): %s", i, s.q.Path, s.d)
		}
	}
	return obs, ""
}

// carryOver builds maximal and minimal requests per endpoint (see the history exploration).
func carryOver() []rreq {
	u := ref.B32Encode(restKey)
	post := func(path string, f map[string]any) rreq { return rreq{Method: "POST", Path: path, Fields: f} }
	long, short := longShape(), shape{Hash: 0, Digits: 6, Q: true, QF: 1}
	long.Text = ""
	out := []rreq{
		post("/hotp/validate", map[string]any{"secret": u, "code": ref.HOTP(restKey, 5, 8, 2), "counter": 5, "skew": 10, "digits": "8", "algorithm": "SHA512"}),
		post("/hotp/validate", map[string]any{"secret": u, "code": ref.HOTP(restKey, 7, 6, 0)}),               // counter omitted (0), skew omitted (0): distance 7 => false
		post("/hotp/validate", map[string]any{"secret": u, "code": ref.HOTP(restKey, 7, 6, 0), "counter": 5}), // skew omitted: distance 2 => false
		post("/hotp/validate", map[string]any{"secret": u, "code": ref.HOTP(restKey, 5, 6, 0), "counter": 5}), // digits/algorithm omitted => true
		post("/totp/validate", map[string]any{"secret": u, "code": ref.HOTP(restKey, ref.Step(1111111109, 60), 10, 1), "timestamp": 1111111109, "period": 60, "skew": 9, "digits": "10", "algorithm": "SHA256"}),
		post("/totp/validate", map[string]any{"secret": u, "code": ref.HOTP(restKey, ref.Step(1111111109, 30)+1, 6, 0), "timestamp": 1111111109}), // skew omitted => false
		post("/totp/validate", map[string]any{"secret": u, "code": ref.HOTP(restKey, ref.Step(1111111109, 30), 6, 0), "timestamp": 1111111109}),   // period omitted (30) => true
		post("/hotp/generate", map[string]any{"secret": u, "counter": 9, "digits": "8", "algorithm": "SHA256"}),
		post("/hotp/generate", map[string]any{"secret": u}),
		post("/totp/generate", map[string]any{"secret": u, "timestamp": 1111111109, "period": 60, "digits": "10", "algorithm": "SHA512"}),
		post("/totp/generate", map[string]any{"secret": u, "timestamp": 59}),
		post("/ocra/generate", map[string]any{"secret": u, "suite": structuredSuite(long), "input": ocraInputFor(long, 4)}),
		post("/ocra/generate", map[string]any{"secret": u, "raw_suite": "OCRA-1:HOTP-SHA1-6:QN08", "input": ocraInputFor(short, 2)}),
		post("/ocra/generate", map[string]any{"secret": u, "suite": structuredSuite(short), "input": ocraInputFor(short, 1)}),
		post("/ocra/validate", map[string]any{"secret": u, "suite": structuredSuite(long), "input": ocraInputFor(long, 4), "code": ref.OCRA(restKey, long.ref(), admissible(long, 4).ref())}),
		post("/ocra/validate", map[string]any{"secret": u, "raw_suite": "OCRA-1:HOTP-SHA1-6:QN08", "input": ocraInputFor(short, 2), "code": ref.OCRA(restKey, shortShape().ref(), admissible(short, 2).ref())}),
		post("/otp/url", map[string]any{"type": "totp", "secret": "JBSWY3DPEHPK3PXP", "issuer": "My Company", "account_name": "a b", "period": 60, "digits": "8", "algorithm": "SHA512"}),
		post("/otp/url", map[string]any{"type": "hotp", "secret": "JBSWY3DPEHPK3PXP", "issuer": "I", "account_name": "a"}),
		post("/otp/url", map[string]any{"type": "totp", "secret": "JBSWY3DPEHPK3PXP", "issuer": "I", "account_name": "a"}),
		post("/ocra/suite", map[string]any{"raw_suite": "OCRA-1:HOTP-SHA512-8:C-QH10-PSHA512-S-T1"}),
		post("/ocra/suite", map[string]any{"raw_suite": "OCRA-1:HOTP-SHA1-6:C"}),
		{Method: "GET", Path: "/otp/secret", Query: "algorithm=SHA512"},
		{Method: "GET", Path: "/otp/secret"},
	}
	return append(out, partialRequests()...)
}

// partialRequests: for the four HOTP/TOTP endpoints every subset of the optional fields set
// to a non-default value (a request that gives period and skew but neither digits nor hash, ...).
func partialRequests() []rreq {
	u := ref.B32Encode(restKey)
	var out []rreq
	opt := []struct {
		k string
		v any
	}{{"digits", "8"}, {"algorithm", "SHA512"}, {"period", 60}, {"skew", 1}}
	for m := 1; m < 15; m++ { // 0 and 15 are the minimal and maximal requests above
		f := map[string]any{}
		d, a, per := 6, 0, uint64(30)
		for i, o := range opt {
			if m>>uint(i)&1 == 1 {
				f[o.k] = o.v
				switch o.k {
				case "digits":
					d = 8
				case "algorithm":
					a = 2
				case "period":
					per = 60
				}
			}
		}
		cp := func(extra map[string]any) map[string]any {
			g := map[string]any{"secret": u}
			for k, v := range f {
				g[k] = v
			}
			for k, v := range extra {
				g[k] = v
			}
			return g
		}
		out = append(out,
			rreq{Method: "POST", Path: "/totp/validate", Fields: cp(map[string]any{"timestamp": 1111111109, "code": ref.HOTP(restKey, ref.Step(1111111109, per)+1, d, a)})},
			rreq{Method: "POST", Path: "/totp/generate", Fields: cp(map[string]any{"timestamp": 1111111109})},
			rreq{Method: "POST", Path: "/hotp/validate", Fields: cp(map[string]any{"counter": 5, "code": ref.HOTP(restKey, 6, d, a)})},
			rreq{Method: "POST", Path: "/hotp/generate", Fields: cp(map[string]any{"counter": 5})})
	}
	return out
}
