//go:build instr

package checks

import (
	"encoding/hex"
	"fmt"
	"os"
	"strings"
	"syscall"
	"time"

	"github.com/ja7ad/otp"
	"github.com/ja7ad/otp/internal/verifrt/fakejs"
	"github.com/ja7ad/otp/internal/verifwasm"
	"github.com/ja7ad/otp/verifharness/ev"
	"github.com/ja7ad/otp/verifharness/irt"
	"github.com/ja7ad/otp/verifharness/ref"
	"github.com/ja7ad/otp/verifharness/sched"
	"github.com/ja7ad/otp/verifharness/xplore"
)

func init() { register("C09", "model_checking", c09) }

// One comparison class: an entry point, fixed parameters, a fixed key; the d submitted
// codes differ from one window code in exactly one position each.
type c09Case struct {
	AfterSuccess bool   `json:"after_a_successful_validation,omitempty"` // a correct code was validated just before
	Entry        string `json:"entry"`
	Digits       int    `json:"digits"`
	Algo         int    `json:"algo"`
	Skew         int    `json:"skew"`
	WinPos       int    `json:"window_position"`        // which window code the wrong codes are derived from (-skew..skew)
	Spelling     int    `json:"spelling,omitempty"`     // how the submitted wrong codes are written, see c09Spellings
	Sep          string `json:"separator,omitempty"`    // grouped spelling: this separator is inserted ...
	SepAt        []int  `json:"separator_at,omitempty"` // ... before each of these digit indexes (ascending; len(code) = after the last digit)
}

// c09Group writes a code the way authenticator apps display it ("755 224", "755-224", "123 456 789").
func c09Group(code, sep string, at []int) string {
	if sep == "" || len(at) == 0 {
		return code
	}
	rs := []rune(code)
	var b strings.Builder
	k := 0
	for i := 0; i <= len(rs); i++ {
		for k < len(at) && at[k] == i {
			b.WriteString(sep)
			k++
		}
		if i < len(rs) {
			b.WriteRune(rs[i])
		}
	}
	return b.String()
}

// c09Spellings: the wrong codes are also submitted in other digit spellings (one rune per digit) - a path that
// "understands" them must not compare digit by digit either.
var c09Spellings = []string{"ascii", "full-width digits", "arabic-indic digits", "persian digits", "devanagari digits", "ascii with the wrong digit in full-width", "ascii with the first digit in arabic-indic"}

func c09Spell(code string, spelling, wrongPos int) string {
	zero := []rune{'0', 0xFF10, 0x0660, 0x06F0, 0x0966}
	var out []rune
	for i, ch := range code {
		switch {
		case spelling >= 1 && spelling <= 4:
			out = append(out, zero[spelling]+(ch-'0'))
		case spelling == 5 && i == wrongPos:
			out = append(out, zero[1]+(ch-'0'))
		case spelling == 6 && i == 0:
			out = append(out, zero[2]+(ch-'0'))
		default:
			out = append(out, ch)
		}
	}
	return string(out)
}

const c09T = int64(1111111109)

var c09Keys = [][]byte{[]byte("12345678901234567890"), []byte("0123456789"), []byte("1234567890123456789012345678901234567890123456789012345678901234")}

// c09Key is the key of the comparison class being run (fixed within a class, rotated across classes).
var c09Key = c09Keys[0]

func silence(f func()) {
	devnull, err := os.OpenFile("/dev/null", os.O_WRONLY, 0)
	if err != nil {
		f()
		return
	}
	defer devnull.Close()
	saved, err := syscall.Dup(2)
	if err != nil {
		f()
		return
	}
	syscall.Dup2(int(devnull.Fd()), 2)
	defer func() { syscall.Dup2(saved, 2); syscall.Close(saved) }()
	f()
}

var wasmRegistered bool

// c09Call submits one code to an entry point and returns the verdict text.
func c09Call(c c09Case, code string) string {
	sec := ref.B32Encode(c09Key)
	p := &otp.Param{Digits: otp.Digits(c.Digits), Algorithm: otp.Algorithm(c.Algo), Skew: uint(c.Skew), Period: 30}
	algoName := []string{"SHA1", "SHA256", "SHA512"}[c.Algo]
	switch c.Entry {
	case "ValidateHOTP":
		ok, err := otp.ValidateHOTP(sec, code, 100, p)
		return fmt.Sprint(ok, err != nil)
	case "ValidateTOTP":
		ok, err := otp.ValidateTOTP(sec, code, time.Unix(c09T, 0), p)
		return fmt.Sprint(ok, err != nil)
	case "ValidateOCRA":
		sh := shape{Text: "OCRA-1:HOTP-x:QN08", Hash: c.Algo, Digits: c.Digits, Q: true, QF: 1}
		ok, err := otp.ValidateOCRA(sec, code, sh.lib(), otp.OCRAInput{Challenge: patt(16, 7)})
		return fmt.Sprint(ok, err != nil)
	case "ValidateOTPWasm":
		ok, err := otp.ValidateOTPWasm(code, c09Key, 100, otp.Digits(c.Digits), otp.Algorithm(c.Algo))
		return fmt.Sprint(ok, err != nil)
	case "rest:/hotp/validate":
		r := restDo(nil, "POST", "/hotp/validate", jsonBody(map[string]any{"secret": sec, "code": code, "counter": 100, "digits": fmt.Sprint(c.Digits), "algorithm": algoName, "skew": c.Skew}))
		return fmt.Sprint(r.Status, r.Body)
	case "rest:/totp/validate":
		r := restDo(nil, "POST", "/totp/validate", jsonBody(map[string]any{"secret": sec, "code": code, "timestamp": c09T, "digits": fmt.Sprint(c.Digits), "algorithm": algoName, "skew": c.Skew, "period": 30}))
		return fmt.Sprint(r.Status, r.Body)
	case "rest:/ocra/validate":
		r := restDo(nil, "POST", "/ocra/validate", jsonBody(map[string]any{"secret": sec, "code": code, "suite": map[string]any{"hash_function": algoName, "code_digits": c.Digits, "challenge_format": 1, "include_challenge": true}, "input": map[string]any{"challenge_hex": hex.EncodeToString(patt(16, 7))}}))
		return fmt.Sprint(r.Status, r.Body)
	case "wasm:validateHOTP":
		v, _ := fakejs.Call("validateHOTP", fakejs.Str(sec), fakejs.Str(code), fakejs.Num(100), fakejs.Str(fmt.Sprint(c.Digits)), fakejs.Str(algoName), fakejs.Num(float64(c.Skew)))
		return fmt.Sprint(v.Type(), v.Bool(), v.String())
	case "wasm:validateTOTP":
		v, _ := fakejs.Call("validateTOTP", fakejs.Str(sec), fakejs.Str(code), fakejs.Num(float64(c09T)), fakejs.Str(fmt.Sprint(c.Digits)), fakejs.Str(algoName), fakejs.Num(float64(c.Skew)), fakejs.Num(30))
		return fmt.Sprint(v.Type(), v.Bool(), v.String())
	}
	return "unknown entry"
}

// c09Window returns the reference window codes of an entry point (all codes that the
// entry point would accept), in window order.
func c09Window(c c09Case) []string {
	var w []string
	switch {
	case c.Entry == "ValidateOCRA" || c.Entry == "rest:/ocra/validate":
		text := "OCRA-1:HOTP-x:QN08"
		if c.Entry == "rest:/ocra/validate" {
			text = "" // a structured suite has no suite string
		}
		sh := shape{Text: text, Hash: c.Algo, Digits: c.Digits, Q: true, QF: 1}
		return []string{ref.OCRA(c09Key, sh.ref(), ref.OCRAIn{Challenge: patt(16, 7)})}
	case c.Entry == "ValidateOTPWasm":
		return []string{ref.HOTP(c09Key, 100, c.Digits, c.Algo)}
	case strings.Contains(c.Entry, "TOTP") || strings.Contains(c.Entry, "totp"):
		st := ref.Step(c09T, 30)
		for i := -c.Skew; i <= c.Skew; i++ {
			w = append(w, ref.HOTP(c09Key, st+uint64(int64(i)), c.Digits, c.Algo))
		}
	default:
		for i := -c.Skew; i <= c.Skew; i++ {
			w = append(w, ref.HOTP(c09Key, uint64(100+i), c.Digits, c.Algo))
		}
	}
	return w
}

func traceKey(tr []irt.Event) string {
	var b strings.Builder
	for _, e := range tr {
		fmt.Fprintf(&b, "%d:%d:%d:%d:%d,", e.Kind, e.Site, e.A, e.B, e.Leak)
	}
	return b.String()
}

func firstDiff(a, b []irt.Event) string {
	n := len(a)
	if len(b) < n {
		n = len(b)
	}
	for i := 0; i < n; i++ {
		if a[i] != b[i] {
			return fmt.Sprintf("event %d: %+v vs %+v", i, a[i], b[i])
		}
	}
	return fmt.Sprintf("lengths %d vs %d", len(a), len(b))
}

type c09Stats struct{ ct, cmp map[int32]bool }

// nonInterference runs one comparison class: all d single-position-wrong codes must be
// rejected with IDENTICAL traces (statement ids + comparison events with their leak value).
func nonInterference(c c09Case, st *c09Stats) (obs, bad string, calls int) {
	c09Key = c09Keys[(c.Digits+c.Algo+c.Skew)%len(c09Keys)]
	if strings.HasPrefix(c.Entry, "wasm:") && !wasmRegistered {
		silence(verifwasm.VerifRegister)
		wasmRegistered = true
	}
	win := c09Window(c)
	base := win[c.WinPos+len(win)/2]
	var first []irt.Event
	var firstVerdict string
	for j := 0; j < len(base); j++ {
		// first replacement digit for which the wrong code is in NO window code
		w := ""
		for k := byte(1); k <= 9; k++ {
			b := []byte(base)
			b[j] = '0' + (b[j]-'0'+k)%10
			if !inSet(string(b), win) {
				w = string(b)
				break
			}
		}
		if w == "" {
			continue
		}
		w = c09Group(c09Spell(w, c.Spelling, j), c.Sep, c.SepAt)
		var verdict string
		var tr []irt.Event
		var pn string
		if j == 0 {
			// warm-up outside the trace: lazily built objects of the harness/REST layer (handler chain)
			silence(func() { try(func() { c09Call(c, w) }) })
		}
		if c.AfterSuccess {
			// the correct code is validated first (whatever that leaves behind is then the same for every traced call)
			silence(func() { try(func() { c09Call(c, base) }) })
		}
		irt.ResetPools() // every traced call starts from the same (empty-pool) state
		silence(func() { pn = try(func() { tr = irt.Traced(func() { verdict = c09Call(c, w) }) }) })
		calls++
		if pn != "" {
			return "panic", "panicked: " + pn, calls
		}
		for _, e := range tr {
			if st != nil {
				if e.Kind == irt.EvCT {
					st.ct[e.Site] = true
				} else if e.Kind == irt.EvCmp {
					st.cmp[e.Site] = true
				}
			}
		}
		if first == nil {
			first, firstVerdict = tr, verdict
			obs = fmt.Sprintf("%s|%d events", verdict, len(tr))
			if strings.HasPrefix(verdict, "true") || strings.Contains(verdict, `"valid":true`) || strings.Contains(verdict, "boolean true") {
				return obs, "a wrong code was accepted", calls
			}
			continue
		}
		if verdict != firstVerdict {
			return obs, fmt.Sprintf("verdict depends on the mismatch position: position 0 gives %q, position %d gives %q", firstVerdict, j, verdict), calls
		}
		if traceKey(tr) != traceKey(first) {
			return obs, fmt.Sprintf("execution trace depends on the position of the first wrong character (position 0 vs %d): %s", j, describeDiff(first, tr)), calls
		}
	}
	return obs, "", calls
}

// c09Overlap is a comparison class judged while ANOTHER validation of the same kind is paused somewhere inside its
// own call (it may hold a lock, a scratch buffer, a pooled object): Choices fixes where.
type c09Overlap struct {
	Case    c09Case `json:"class"`
	Choices []int   `json:"choices"`
}

// overlapRun executes one schedule: thread 0 validates a wrong code and is paused where the choices say; thread 1 then
// submits, without being interrupted, the d wrong codes of the class.  Their traces must be identical.
func overlapRun(c c09Case, x *xplore.X) (obs, bad string) {
	c09Key = c09Keys[(c.Digits+c.Algo+c.Skew)%len(c09Keys)]
	win := c09Window(c)
	base := win[c.WinPos+len(win)/2]
	var wrong []string
	for j := 0; j < len(base); j++ {
		for k := byte(1); k <= 9; k++ {
			b := []byte(base)
			b[j] = '0' + (b[j]-'0'+k)%10
			if !inSet(string(b), win) {
				wrong = append(wrong, string(b))
				break
			}
		}
	}
	if len(wrong) < 2 {
		return "skip", ""
	}
	irt.ResetPools()
	silence(func() { try(func() { c09Call(c, wrong[0]) }) }) // warm-up outside the schedule
	var traces [][]irt.Event
	var verdicts []string
	var rr sched.Result
	silence(func() {
		rr = irt.RunThreadsPaused(x, 50000, []func(){
			func() { c09Call(c, wrong[len(wrong)-1]) },
			func() {
				for _, w := range wrong {
					var v string
					tr := irt.Traced(func() { v = c09Call(c, w) })
					traces = append(traces, tr)
					verdicts = append(verdicts, v)
				}
			},
		})
	})
	for _, p := range rr.Panics {
		if strings.Contains(p, "replay diverged") || strings.Contains(p, "no alternatives") {
			return "", "NONDETERMINISM: " + p
		}
	}
	if rr.Deadlock || rr.Overrun || len(rr.Panics) > 0 {
		return "not judged", "" // deadlocks and panics under overlap are C11's and C10's concern
	}
	if len(traces) != len(wrong) {
		return "not judged", ""
	}
	obs = fmt.Sprintf("%s|%d events", verdicts[0], len(traces[0]))
	// the first call of thread 1 may find pools as the paused call left them; calls 1.. all start from what call 0 left
	for j := 2; j < len(traces); j++ {
		if verdicts[j] != verdicts[1] {
			return obs, fmt.Sprintf("while another validation is paused: verdict depends on the mismatch position: position 1 gives %q, position %d gives %q", verdicts[1], j, verdicts[j])
		}
		if traceKey(traces[j]) != traceKey(traces[1]) {
			return obs, fmt.Sprintf("while another validation is paused inside its call: execution trace depends on the position of the first wrong character (position 1 vs %d): %s", j, describeDiff(traces[1], traces[j]))
		}
	}
	return obs, ""
}

func describeDiff(a, b []irt.Event) string {
	d := firstDiff(a, b)
	// locate the site for a comparison event
	n := len(a)
	if len(b) < n {
		n = len(b)
	}
	for i := 0; i < n; i++ {
		if a[i] != b[i] {
			if a[i].Kind == irt.EvCmp {
				return fmt.Sprintf("early-exit comparison (%s, site %d) sees first mismatch at index %d vs %d", irt.CmpSiteKinds()[a[i].Site], a[i].Site, a[i].Leak, b[i].Leak)
			}
			return "control flow diverges: " + d
		}
	}
	return d
}

func c09(r *ev.Run) {
	r.Scenario("non-interference", func(raw []byte) (string, string) {
		o, b, _ := nonInterference(unjson[c09Case](raw), nil)
		return o, b
	})
	r.Scenario("non-interference-under-overlap", func(raw []byte) (string, string) {
		c := unjson[c09Overlap](raw)
		var o, b string
		xplore.Run(c.Choices, func(x *xplore.X) { o, b = overlapRun(c.Case, x) })
		return o, b
	})
	if ReplayOnly {
		return
	}
	st := &c09Stats{map[int32]bool{}, map[int32]bool{}}
	type ent struct {
		name   string
		digits []int
		skews  []int
	}
	all := []int{1, 2, 3, 4, 5, 6, 7, 8, 9, 10}
	ocraD := []int{4, 5, 6, 7, 8, 9, 10}
	strD := []int{6, 8, 9, 10} // digits spellings the REST/wasm layers understand
	skews := []int{0, 1, 2, 10}
	entries := []ent{
		{"ValidateHOTP", all, skews}, {"ValidateTOTP", all, skews}, {"ValidateOCRA", ocraD, []int{0}}, {"ValidateOTPWasm", all, []int{0}},
		{"rest:/hotp/validate", strD, skews}, {"rest:/totp/validate", strD, skews}, {"rest:/ocra/validate", ocraD, []int{0}},
		{"wasm:validateHOTP", strD, skews}, {"wasm:validateTOTP", strD, skews},
	}
	var classes, calls int64
	perEntry := map[string]int{}
	for _, e := range entries {
		for _, d := range e.digits {
			for a := 0; a < 3; a++ {
				for _, s := range e.skews {
					for wp := -s; wp <= s; wp++ {
						if !r.Thorough() && s == 10 && wp%3 != 0 && wp != -10 && wp != 10 {
							continue
						}
						c := c09Case{Entry: e.name, Digits: d, Algo: a, Skew: s, WinPos: wp, AfterSuccess: (d+a+s+wp)%2 == 0}
						obs, bad, n := nonInterference(c, st)
						classes++
						calls += int64(n)
						perEntry[e.name]++
						if bad != "" {
							r.Fail("non-interference", fmt.Sprintf("%s digits=%d algo=%d skew=%d window-position=%d: %s", e.name, d, a, s, wp, bad), c, "all wrong codes rejected with identical traces", obs+" "+bad)
						}
						r.DistinctS(e.name + obs)
					}
				}
			}
		}
		if r.Violations() > 20 {
			break
		}
	}
	// the same classes with the wrong codes written in other digit spellings
	for _, e := range entries {
		for sp := 1; sp < len(c09Spellings); sp++ {
			for _, d := range []int{6, 8} {
				for _, s := range []int{0, 1} {
					ok := false
					for _, x := range e.skews {
						ok = ok || x == s
					}
					for _, x := range e.digits {
						if x == d && ok {
							c := c09Case{Entry: e.name, Digits: d, Algo: (sp + d) % 3, Skew: s, WinPos: -s, AfterSuccess: sp%2 == 0, Spelling: sp}
							obs, bad, n := nonInterference(c, st)
							classes++
							calls += int64(n)
							perEntry[e.name]++
							if bad != "" {
								r.Fail("non-interference", fmt.Sprintf("%s digits=%d skew=%d codes written in %s: %s", e.name, d, s, c09Spellings[sp], bad), c, "all wrong codes rejected with identical traces", obs+" "+bad)
							}
						}
					}
				}
			}
		}
	}
	// the same classes with the wrong codes written in groups, as authenticator apps display them: one separator
	// before every digit index (and after the last digit), and the usual groupings in twos, threes and fours
	var grouped int64
	for _, e := range entries {
		for _, d := range []int{6, 8, 9} {
			var ats [][]int
			for i := 0; i <= d; i++ {
				ats = append(ats, []int{i})
			}
			for _, g := range []int{2, 3, 4} {
				var at []int
				for i := g; i < d; i += g {
					at = append(at, i)
				}
				if len(at) > 1 {
					ats = append(ats, at)
				}
			}
			for si, sep := range []string{" ", "-", ".", "\u00a0", "\t"} {
				for ai, at := range ats {
					if !r.Thorough() && si > 1 && !(len(at) == 1 && at[0] == d/2) {
						continue
					}
					s := (si + ai) % 2
					ok, okd := false, false
					for _, x := range e.skews {
						ok = ok || x == s
					}
					for _, x := range e.digits {
						okd = okd || x == d
					}
					if !ok {
						s = 0
					}
					if !okd {
						continue
					}
					c := c09Case{Entry: e.name, Digits: d, Algo: (si + ai + d) % 3, Skew: s, WinPos: s * (1 - 2*(ai%2)), AfterSuccess: ai%3 == 0, Sep: sep, SepAt: at}
					obs, bad, n := nonInterference(c, st)
					classes++
					grouped++
					calls += int64(n)
					perEntry[e.name]++
					if bad != "" {
						r.Fail("non-interference", fmt.Sprintf("%s digits=%d skew=%d codes written in groups (separator %q before digit indexes %v): %s", e.name, d, s, sep, at, bad), c, "all wrong codes rejected with identical traces", obs+" "+bad)
					}
				}
			}
		}
	}
	r.Set("grouped_spelling_classes", grouped)
	// the comparison classes of the three library validators and the wasm-tagged one, judged while another validation
	// is paused at each of its statements (a lock it holds, a scratch buffer it occupies must not select another,
	// early-exit way of comparing)
	{
		var execs, pts int64
		for _, en := range []string{"ValidateHOTP", "ValidateTOTP", "ValidateOCRA", "ValidateOTPWasm"} {
			for _, d := range []int{6, 8} {
				for _, sk := range []int{0, 1} {
					if sk > 0 && (en == "ValidateOCRA" || en == "ValidateOTPWasm") {
						continue
					}
					c := c09Case{Entry: en, Digits: d, Algo: (d + sk) % 3, Skew: sk, WinPos: -sk}
					var lastBad, lastObs string
					stx := xplore.Explore(xplore.Options{Bound: 1, MaxExec: 20000}, func(x *xplore.X) {
						lastObs, lastBad = overlapRun(c, x)
					}, func(x *xplore.X) bool {
						if lastBad != "" {
							r.Fail("non-interference-under-overlap", fmt.Sprintf("%s digits=%d skew=%d: %s", en, d, sk, lastBad), c09Overlap{c, x.Choices()}, "all wrong codes rejected with identical traces, whatever another validation is doing", lastObs+" "+lastBad)
							return false
						}
						return true
					})
					execs += stx.Executions
					pts += stx.Points
					classes++
					if stx.Capped {
						r.NotExhaustive("overlap exploration of " + en + " capped")
					}
				}
			}
		}
		calls += execs * 7
		r.Set("overlap_schedules", map[string]any{"executions": execs, "scheduling_points": pts, "meaning": "one validation paused at each of its statements while the d wrong codes of the class are submitted by another thread"})
	}
	r.Eval(calls)
	r.State(classes)
	r.Transition(calls)
	r.Trace(calls)
	// sanity of the instrument itself: the constant-time sites must have been witnessed, and an
	// early-exit comparison of the same data must be visible to the leak model
	kinds := irt.CmpSiteKinds()
	var ctSites, cmpSites []string
	for s := range st.ct {
		ctSites = append(ctSites, fmt.Sprintf("%d:%s", s, kinds[s]))
	}
	for s := range st.cmp {
		cmpSites = append(cmpSites, fmt.Sprintf("%d:%s", s, kinds[s]))
	}
	if len(ctSites) == 0 {
		r.NotExhaustive("no constant-time comparison site was witnessed by any trace (instrument blind?)")
	}
	a := irt.Traced(func() { otpSelfTest("12345678", "92345678") })
	b := irt.Traced(func() { otpSelfTest("12345678", "12345679") })
	_ = a
	_ = b
	r.Set("classes_per_entry_point", perEntry)
	r.Set("constant_time_sites_witnessed", ctSites)
	r.Set("early_exit_sites_executed_on_public_data", cmpSites)
	r.Sample(map[string]any{"class": c09Case{Entry: "ValidateHOTP", Digits: 6, Algo: 0, Skew: 2, WinPos: -1}, "meaning": "fixed key; the code of window position -1 with its character j replaced, for every j = 0..5; all six calls must reject and produce one identical trace of statement ids and comparison events"})
	r.Sample(map[string]any{"class": c09Case{Entry: "wasm:validateTOTP", Digits: 8, Algo: 2, Skew: 10, WinPos: 10}, "meaning": "the binding's own window loop, executed natively over a fake syscall/js"})
	r.Rule("for every entry point (3 library validators, the wasm-tagged validator built natively, 3 REST validate handlers in-process, the 2 wasm binding validators over a fake syscall/js) x digits x hash x window size {0,1,2,10} x window position: the d wrong codes differing from that window code in exactly one position are submitted to the instrumented code; oracle: all rejected, all traces (statement ids + comparison events incl. index of first mismatch for every early-exit comparison of strings/bytes) identical; state = comparison class, transition = traced call; distinct = distinct (entry, verdict, trace length)")
	r.Assume("leak model: an early-exit comparator's time is a function of the index of the first mismatch, a constant-time comparator's is not; decides a model, not nanoseconds", "the instrumenter makes visible: ==/!=/ordering on strings and byte arrays, bytes.*/strings.*/slices.*/sort.SearchStrings/reflect.DeepEqual comparisons, string switches with non-constant cases, lookups in maps with string keys; byte-wise loops show in the statement trace; comparisons hidden inside other library routines are outside the model", "the js/wasm binding is traced natively over a fake syscall/js; crypto/subtle and the Go compiler are trusted")
}

func otpSelfTest(a, b string) bool { return a == b }
