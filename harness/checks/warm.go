package checks

import (
	"encoding/json"
	"fmt"
	"net/url"
	"reflect"
	"strings"
	"time"

	"github.com/ja7ad/otp"
	"github.com/ja7ad/otp/verifharness/ev"
	"github.com/ja7ad/otp/verifharness/ref"
)

// warmups are calls of OTHER operations of the library, made on the same goroutine just before the
// operation under test: a result must not depend on what any earlier call of any kind left behind
// (pooled buffers of a different size class, cached keys, lazily built tables ...).
var warmups = func() []struct {
	Name string
	Run  func()
} {
	sec1 := "GEZDGNBVGY3TQOJQGEZDGNBVGY3TQOJQ"
	sec2 := "MFRGGZDFMZTWQ2LKNNWG23TPOBYXE43UOV3HO6DZPIYTEMZUGU3DOOBZGA"
	long := func(n int, b byte) []byte { return []byte(strings.Repeat(string([]byte{b}), n)) }
	su := func(name string) otp.Suite { s, _ := otp.NewRawSuite(name); return s }
	t := time.Unix(1111111109, 0)
	type W = struct {
		Name string
		Run  func()
	}
	return []W{
		{"ocra-long-message", func() {
			otp.GenerateOCRA(sec1, su("OCRA-1:HOTP-SHA512-8:QA10-S064-T1M"), otp.OCRAInput{Challenge: long(128, 0xC3), SessionInfo: long(128, 0x5A), Timestamp: []byte{1, 2, 3, 4, 5, 6, 7, 8}})
		}},
		{"ocra-all-fields", func() {
			otp.GenerateOCRA(sec2, su("OCRA-1:HOTP-SHA256-8:C-QN08-PSHA1-S064-T1M"), otp.OCRAInput{Counter: []byte{0xFF, 0xFE, 0xFD, 0xFC, 0xFB, 0xFA, 0xF9, 0xF8}, Challenge: long(9, 0x77), Password: long(20, 0x99), SessionInfo: long(100, 0x11), Timestamp: long(8, 0xEE)})
		}},
		{"ocra-short", func() { otp.GenerateOCRA(sec1, su("OCRA-1:HOTP-SHA1-6:QN08"), otp.OCRAInput{Challenge: long(8, 0xAB)}) }},
		{"ocra-validate", func() {
			s := su("OCRA-1:HOTP-SHA1-6:QN08")
			in := otp.OCRAInput{Challenge: long(16, 0x31)}
			c, _ := otp.GenerateOCRA(sec2, s, in)
			otp.ValidateOCRA(sec2, c, s, in)
			otp.ValidateOCRA(sec2, "000000", s, in)
		}},
		{"ocra-refused", func() {
			otp.GenerateOCRA(sec1, su("OCRA-1:HOTP-SHA1-6:QN08"), otp.OCRAInput{Challenge: long(200, 0xAB)})
		}},
		{"hotp-other-secret", func() {
			otp.GenerateHOTP(sec2, 0xFFFFFFFFFFFFFFFF, &otp.Param{Digits: 10, Algorithm: otp.SHA512})
			otp.GenerateHOTP(sec2, 1, nil)
		}},
		{"hotp-validate", func() {
			c, _ := otp.GenerateHOTP(sec2, 41, nil)
			otp.ValidateHOTP(sec2, c, 42, nil)
			otp.ValidateHOTP(sec2, "999999", 42, &otp.Param{Digits: 6, Skew: 10})
		}},
		{"totp", func() {
			c, _ := otp.GenerateTOTP(sec2, t, &otp.Param{Digits: 8, Algorithm: otp.SHA256, Period: 30})
			otp.ValidateTOTP(sec2, c, t.Add(29*time.Second), &otp.Param{Digits: 8, Algorithm: otp.SHA256, Period: 30, Skew: 1})
			otp.GenerateTOTP(sec1, time.Unix(1<<40, 0), nil)
		}},
		{"decode-and-random", func() {
			otp.DecodeSecret(" mfrggzdfmztwq2lk\n")
			otp.DecodeSecret("not base32!")
			otp.RandomSecret(otp.SHA512)
		}},
		{"urls", func() {
			u, _ := otp.GenerateTOTPURL(otp.URLParam{Issuer: "I s", AccountName: "a@b", Secret: sec2, Digits: 8, Algorithm: otp.SHA256, Period: 60})
			if u != nil {
				otp.ParseOTPAuthURL(u)
			}
			if v, err := url.Parse("otpauth://hotp/x:y?secret=" + sec1 + "&counter=18446744073709551615&digits=10&algorithm=SHA512"); err == nil {
				otp.ParseOTPAuthURL(v)
			}
			if v, err := url.Parse("http://nothing"); err == nil {
				otp.ParseOTPAuthURL(v)
			}
		}},
		{"suites", func() {
			otp.ListSuites()
			otp.IsKnownSuite("OCRA-1:HOTP-SHA1-6:QN08")
			otp.NewRawSuite("OCRA-1:HOTP-SHA256-7:C-QH10-PSHA512-S999-T48H")
			otp.NewRawSuite("OCRA-1:HOTP-SHA1-6:QX08")
			otp.NewSuite(otp.SuiteConfig{Digits: 11})
		}},
		// the caller decodes the SAME secret text the case uses and overwrites the bytes it got back (a careful
		// caller wipes key material): what it does with its own slice must not reach any later call
		{"same-secret-decoded-and-wiped", nil},
		{"same-secret-decoded-and-overwritten", nil},
		{"helpers-refused", func() {
			// refused helper inputs, each for another reason (sign, foreign character, too long, bad hex)
			otp.ParseDecimalChallengeRFC6287("-123456789")
			otp.ParseDecimalChallengeRFC6287("12x4")
			otp.ParseDecimalChallengeRFC6287(strings.Repeat("9", 400))
			otp.ParseDecimalToBigEndian8("-1")
			otp.ParseDecimalToBigEndian8("18446744073709551616")
			otp.ParseHexTimestamp("zz")
			otp.ParseHexTimestamp("11223344556677889")
			otp.HexInputToOCRA("zz", "3132", "q", "r", "s")
			otp.LeftPadHex("xyz", 4)
			otp.DecodeSecret("MZXW6YTBOI\u017f")
			otp.NewRawSuite("OCRA-1:HOTP-SHA1-6:QN08-T0S")
		}},
		{"helpers", func() {
			otp.ParseDecimalChallengeRFC6287("99999999")
			otp.ParseDecimalToBigEndian8("18446744073709551615")
			otp.ParseHexTimestamp("132D0B6")
			otp.HexInputToOCRA("1", "abcdef01", "", "00ff", "132d0b6")
			otp.LeftPadHex("abc", 16)
		}},
	}
}()

// caseSecrets finds the secret texts of a case: a SecretText method, or string fields named Secret / Text.
func caseSecrets(c any) []string {
	if s, ok := c.(interface{ SecretText() string }); ok {
		return []string{s.SecretText()}
	}
	v := reflect.ValueOf(c)
	if v.Kind() != reflect.Struct {
		return nil
	}
	var out []string
	for _, n := range []string{"Secret", "Text"} {
		if f := v.FieldByName(n); f.IsValid() && f.Kind() == reflect.String {
			out = append(out, f.String())
		}
	}
	return out
}

type afterCase struct {
	Warm string          `json:"after"`
	Case json.RawMessage `json:"case"`
}

// afterWarmups registers scenario scen and (unless replaying) evaluates every case after every warm-up,
// each time from empty pools, on the calling goroutine.  eval judges one case against its reference.
func afterWarmups[T any](r *ev.Run, scen string, cases []T, eval func(T) (obs, bad string)) {
	run := func(w string, c T) (string, string) {
		emptySyncPools()
		for _, x := range warmups {
			if x.Name == w {
				if x.Run == nil {
					fill := byte(0)
					if strings.HasSuffix(w, "overwritten") {
						fill = 0xA5
					}
					x.Run = func() {
						// first some OTHER texts, so that whatever remembers "the last one(s)" no longer holds this one
						for k := 0; k < 3; k++ {
							otp.DecodeSecret(ref.B32Encode([]byte(fmt.Sprintf("evict-%d-%s", k, w))))
						}
						for _, text := range caseSecrets(c) {
							raw, _ := otp.DecodeSecret(text)
							for i := range raw {
								raw[i] = fill
							}
						}
					}
				}
				if p := try(x.Run); p != "" {
					return "panic:" + p, "warm-up " + w + " panicked: " + p
				}
			}
		}
		obs, bad := eval(c)
		if bad != "" {
			return obs, bad
		}
		// and the same call once more: same answer
		if obs2, bad2 := eval(c); bad2 != "" || obs2 != obs {
			return obs + " / again: " + obs2, "the same call repeated gives another answer: " + bad2
		}
		return obs, ""
	}
	r.Scenario(scen, func(raw []byte) (string, string) {
		ac := unjson[afterCase](raw)
		return run(ac.Warm, unjson[T](ac.Case))
	})
	if ReplayOnly {
		return
	}
	var n int64
	for _, w := range warmups {
		for _, c := range cases {
			obs, bad := run(w.Name, c)
			n++
			if bad != "" {
				b, _ := json.Marshal(c)
				r.Fail(scen, fmt.Sprintf("after %s: %s", w.Name, bad), afterCase{w.Name, b}, bad, obs)
				break
			}
		}
	}
	r.Eval(n)
	r.Set("after_other_operations", map[string]any{"warm_ups": len(warmups), "cases_each": len(cases)})
}

// volume runs eval on n DISTINCT cases one after the other on the calling goroutine (from empty pools) and then
// once more on the first tenth: anything that remembers arguments (memo, ring, index) meets more distinct values
// than it has room for, and entries it has evicted meanwhile.  The replay of a failure re-runs the prefix.
func volume[T any](r *ev.Run, scen string, n int, mk func(k int) T, eval func(T) (obs, bad string)) {
	run := func(upto int) (string, string) {
		emptySyncPools()
		order := make([]int, 0, n+n/10)
		for k := 0; k < n; k++ {
			order = append(order, k)
		}
		for k := 0; k < n/10; k++ {
			order = append(order, k)
		}
		for i, k := range order {
			if i > upto {
				break
			}
			obs, bad := eval(mk(k))
			if bad != "" {
				return obs, fmt.Sprintf("call %d of the series (distinct value #%d): %s", i, k, bad)
			}
		}
		return "ok", ""
	}
	r.Scenario(scen, func(raw []byte) (string, string) { return run(unjson[int](raw)) })
	if ReplayOnly {
		return
	}
	obs, bad := run(n + n/10)
	r.Eval(int64(n + n/10))
	if bad != "" {
		var upto int
		fmt.Sscanf(bad, "call %d ", &upto)
		r.Fail(scen, bad, upto, "every call judged on its own arguments", obs+" "+bad)
	}
}
