package checks

import (
	"encoding/json"
	"io"
	"log/slog"
	"sync"

	"github.com/ja7ad/otp/internal/app/api"
	"github.com/valyala/fasthttp"
)

// restHandler returns the handler chain of a real api.NewServer() (verif-tag accessor).
var restOnce sync.Once
var restH fasthttp.RequestHandler

func restHandler() fasthttp.RequestHandler {
	restOnce.Do(func() {
		slog.SetDefault(slog.New(slog.NewTextHandler(io.Discard, nil)))
		s, err := api.NewServer()
		if err != nil {
			panic(err)
		}
		restH = s.VerifHandler()
	})
	return restH
}

// restResp is one response as a client would see it.
type restResp struct {
	Status int
	CT     string
	Body   string
}

// restDo drives one request through the handler chain in-process.  ctx may be reused
// across requests (keep-alive) or nil for a fresh one.
func restDo(ctx *fasthttp.RequestCtx, method, uri string, body []byte, hdr ...map[string]string) restResp {
	if ctx == nil {
		ctx = &fasthttp.RequestCtx{}
	}
	var req fasthttp.Request
	req.Header.SetMethod(method)
	req.SetRequestURI(uri)
	for _, h := range hdr {
		for k, v := range h {
			req.Header.Set(k, v)
		}
	}
	if body != nil {
		req.Header.SetContentType("application/json")
		req.SetBody(body)
	}
	ctx.Init(&req, nil, nil)
	ctx.Response.Reset()
	restHandler()(ctx)
	return restResp{ctx.Response.StatusCode(), string(ctx.Response.Header.ContentType()), string(ctx.Response.Body())}
}

func jsonBody(m map[string]any) []byte {
	b, _ := json.Marshal(m)
	return b
}
