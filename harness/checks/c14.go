package checks

import (
	"fmt"
	"strings"

	"github.com/ja7ad/otp"
	"github.com/ja7ad/otp/verifharness/ev"
	"github.com/ja7ad/otp/verifharness/ref"
)

func init() { register("C14", "exploration", c14) }

type c14Case struct {
	Shape   shape  `json:"shape"`
	Lens    [5]int `json:"lens"`              // counter, challenge, password, session, timestamp; -1 = nil
	Entry   string `json:"entry"`             // "input.Validate", "generate", "validate", "suite.Validate", "newsuite"
	Content int    `json:"content,omitempty"` // index into c14Contents
}

// c14Contents are the byte contents a field can be filled with: admission is about LENGTHS in bytes, whatever
// the bytes are (text in any encoding, binary, blanks).
// code lengths of the suite clause: -1..12 and values congruent to legal ones modulo 2^8 / 2^16 / 2^32 (a range
// check made in a narrower type lets them through)
var c14Digits = func() []int {
	var out []int
	for d := -1; d <= 12; d++ {
		out = append(out, d)
	}
	return append(out, 260, 262, 266, 518, 65542, 1<<32+6, -250, -(1<<32)+6, 1<<63-1, -1<<63)
}()

var c14Contents = []string{"pattern", "utf8-2byte", "utf8-3byte", "utf8-4byte", "zeros", "ff", "ascii-digits", "blanks", "utf8-mixed", "continuation-bytes", "separators"}

func fillContent(n int, seed byte, content int) []byte {
	if n < 0 {
		return nil
	}
	unit := ""
	switch content {
	case 1:
		unit = "\u00e9"
	case 2:
		unit = "\u20ac"
	case 3:
		unit = "\U0001F600"
	case 4:
		return make([]byte, n)
	case 5:
		return []byte(strings.Repeat("\xff", n))
	case 6:
		unit = "0123456789"
	case 7:
		unit = " \t"
	case 8:
		unit = "a\u00e9\u20acb\U0001F600"
	case 9:
		unit = "\x80\xbf\xa9"
	case 10:
		unit = "AB-CD EF_GH.IJ\tKL"
	default:
		return patt(n, seed)
	}
	return []byte(strings.Repeat(unit, n/len(unit)+1))[:n]
}

func inputOfLens(l [5]int) oin { return inputOf(l, 0) }

func inputOf(l [5]int, content int) oin {
	return oin{fillContent(l[0], 1, content), fillContent(l[1], 2, content), fillContent(l[2], 3, content), fillContent(l[3], 4, content), fillContent(l[4], 5, content)}
}

func admit(c c14Case) (obs, bad string) {
	in := inputOf(c.Lens, c.Content)
	rs := c.Shape.ref()
	var accepted bool
	var err error
	p := try(func() {
		switch c.Entry {
		case "input.Validate":
			err = in.lib().Validate(c.Shape.lib())
		case "generate":
			_, err = otp.GenerateOCRA("GEZDGNBVGY3TQOJQ", c.Shape.lib(), in.lib())
		case "validate":
			var ok bool
			ok, err = otp.ValidateOCRA("GEZDGNBVGY3TQOJQ", ref.Format(7, c.Shape.Digits), c.Shape.lib(), in.lib())
			if err == otp.ErrInvalidCode && !ok {
				err = nil // admitted, code simply wrong
			}
			if err == otp.ErrInvalidCodeLength && !ok && (c.Shape.Digits < 1 || c.Shape.Digits > 10) {
				err = otp.ErrInvalidCodeLength
			}
		case "generate-rawvalue":
			_, err = otp.GenerateOCRA("GEZDGNBVGY3TQOJQ", otp.RawSuite{SuiteConfig: c.Shape.lib()}, in.lib())
		case "generate-edited", "edited.Validate":
			// a constructor's result whose (exported, embedded) configuration the caller then replaces
			var rsv otp.RawSuite
			if c.Lens[0]%2 == 0 {
				s0, _ := otp.NewRawSuite("OCRA-1:HOTP-SHA1-6:QN08")
				rsv, _ = s0.(otp.RawSuite)
			} else {
				s0, _ := otp.NewSuite(otp.SuiteConfig{Raw: "OCRA-1:HOTP-SHA1-6:QN08", Digits: 6, IncludeChallenge: true, Challenge: 1})
				rsv, _ = s0.(otp.RawSuite)
			}
			rsv.SuiteConfig = c.Shape.lib()
			if c.Entry == "edited.Validate" {
				err = rsv.Validate()
			} else {
				_, err = otp.GenerateOCRA("GEZDGNBVGY3TQOJQ", rsv, in.lib())
			}
		case "rawvalue.Validate":
			err = otp.RawSuite{SuiteConfig: c.Shape.lib()}.Validate()
		case "suite.Validate":
			err = c.Shape.lib().Validate()
		case "newsuite":
			_, err = otp.NewSuite(c.Shape.lib())
		}
	})
	if p != "" {
		return "panic:" + p, "panicked: " + p
	}
	accepted = err == nil
	obs = fmt.Sprint(accepted, "|", errStr(err))
	var want bool
	switch c.Entry {
	case "input.Validate":
		want = ref.Admit(rs, in.ref())
	case "suite.Validate", "newsuite", "rawvalue.Validate", "edited.Validate":
		want = ref.Usable(rs)
	default:
		want = ref.Usable(rs) && ref.Admit(rs, in.ref())
	}
	if accepted != want {
		return obs, fmt.Sprintf("want admitted=%v", want)
	}
	return obs, ""
}

var boundaryLens = []int{0, 1, 7, 8, 9, 10, 11, 19, 20, 21, 31, 32, 33, 63, 64, 65, 127, 128, 129, 140}

func c14(r *ev.Run) {
	r.Scenario("admission", func(raw []byte) (string, string) { return admit(unjson[c14Case](raw)) })
	{
		var cs []c14Case
		for m := 1; m < 32; m += 2 {
			sh := shape{Text: "s", Hash: m % 3, Digits: 4 + m%7, C: m&1 != 0, Q: m&2 != 0, P: m&4 != 0, S: m&8 != 0, T: m&16 != 0, QF: 1 + m%6, PH: 1 + m%3, TS: 60}
			good := [5]int{8, 16, ref.PLen(sh.PH), 5, 8}
			for f := 0; f < 5; f++ {
				l := good
				l[f] = []int{0, 7, 129, 9, 21}[f]
				cs = append(cs, c14Case{sh, l, "input.Validate", 0}, c14Case{sh, l, "generate", 0})
			}
			cs = append(cs, c14Case{sh, good, "input.Validate", 0}, c14Case{sh, good, "generate", 0}, c14Case{sh, good, "validate", 0}, c14Case{sh, good, "suite.Validate", 0})
		}
		afterWarmups(r, "admission-after-other-operations", cs, admit)
	}
	if ReplayOnly {
		return
	}
	// suite clause: complete grid
	var sn int64
	ev.Par(32, func(m int) {
		var local int64
		for qf := 0; qf <= 6; qf++ {
			for ph := 0; ph <= 3; ph++ {
				for _, d := range c14Digits {
					for h := 0; h <= 4; h++ {
						for ti, ts := range []int{-1, 0, 1, 60, 1 << 32, 9223372036, 9223372037, 1 << 40, 1<<63 - 1, -9223372037, -(1 << 40), -1 << 63} {
							if ti >= 4 && (qf+ph+h+ti)%5 != 0 {
								continue // the extreme steps (products with 10^9 wrap around 2^63) meet a fifth of the grid
							}
							sh := shape{Text: "s", Hash: h, Digits: d, C: m&1 != 0, Q: m&2 != 0, P: m&4 != 0, S: m&8 != 0, T: m&16 != 0, QF: qf, PH: ph, TS: ts}
							// an otherwise admissible input for this shape
							lens := [5]int{8, 16, 20, 5, 8}
							if p := ref.PLen(ph); p > 0 {
								lens[2] = p
							}
							for _, e := range []string{"suite.Validate", "newsuite", "generate", "validate"} {
								c := c14Case{sh, lens, e, 0}
								obs, bad := admit(c)
								local++
								if bad != "" {
									r.Fail("admission", "suite-clause "+e+" "+sh.sig(), c, bad, obs)
								}
							}
							// the same numbers as a RawSuite VALUE (what a caller holds after editing a constructor's
							// result), also under a registered name that contradicts them
							for ti, text := range []string{"s", "OCRA-1:HOTP-SHA1-6:QN08"} {
								if ti == 1 && (qf+ph+d+h)%2 == 1 {
									continue
								}
								x := sh
								x.Text = text
								for _, e := range []string{"rawvalue.Validate", "generate-rawvalue", "edited.Validate", "generate-edited"} {
									c := c14Case{x, lens, e, 0}
									obs, bad := admit(c)
									local++
									if bad != "" {
										r.Fail("admission", "suite-clause "+e+" "+x.sig(), c, bad, obs)
									}
								}
							}
							if ref.Usable(sh.ref()) {
								r.DistinctS(sh.sig())
							}
						}
					}
				}
			}
		}
		r.Eval(local)
		_ = sn
	})
	r.Set("suite_configurations", 32*7*4*14*5*4)
	// input clause
	shapes := usableShapes([]int{60})
	// the same shapes carrying left-over metadata for fields they do NOT select: those fields stay unconstrained
	for _, sh := range usableShapes([]int{60}) {
		x := sh
		if !x.Q {
			x.QF = 1 + (len(shapes) % 6)
		}
		if !x.P {
			x.PH = 1 + (len(shapes) % 3)
		}
		if !x.T {
			x.TS = 30
		}
		if x != sh {
			shapes = append(shapes, x)
		}
	}
	r.Set("usable_field_shapes", len(shapes))
	var pairLens []int
	if r.Thorough() {
		for n := 0; n <= 140; n++ {
			pairLens = append(pairLens, n)
		}
	} else {
		pairLens = boundaryLens
	}
	ev.Par(len(shapes), func(i int) {
		sh := shapes[i]
		sh.Text, sh.Hash, sh.Digits = "s", i%3, 4+i%7
		var local int64
		base := [5]int{8, 16, 20, 5, 8}
		if p := ref.PLen(sh.PH); p > 0 {
			base[2] = p
		}
		run := func(l [5]int, e string) {
			c := c14Case{sh, l, e, 0}
			obs, bad := admit(c)
			local++
			if bad != "" {
				r.Fail("admission", fmt.Sprintf("input-clause %s %s lens=%v", e, sh.sig(), l), c, bad, obs)
			}
		}
		// every length 0..140 (and nil) of each field alone
		for f := 0; f < 5; f++ {
			for n := -1; n <= 140; n++ {
				l := base
				l[f] = n
				run(l, "input.Validate")
				if n < 0 || inSetInt(n, boundaryLens) {
					run(l, "generate")
					run(l, "validate")
				}
			}
			// the suite TEXT carries no admission rule: whatever it spells (an Snnn / Q / T token with other numbers, a
			// registered name, nothing), the bounds are those of the configuration's fields
			if f == 3 || f == 1 {
				for _, text := range []string{"OCRA-1:HOTP-SHA1-6:QN08-S064", "OCRA-1:HOTP-SHA512-8:C-QH10-PSHA1-S512-T1M", "S256", "x-S000-y", "OCRA-1:HOTP-SHA1-6:QA10", "OCRA-1:HOTP-SHA1-6:QN08", ""} {
					x := sh
					x.Text = text
					for _, n := range boundaryLens {
						l := base
						l[f] = n
						for _, e := range []string{"input.Validate", "generate"} {
							c := c14Case{Shape: x, Lens: l, Entry: e}
							obs, bad := admit(c)
							local++
							if bad != "" {
								r.Fail("admission", fmt.Sprintf("input-clause %s %s lens=%v suite text %q", e, x.sig(), l, text), c, bad, obs)
							}
						}
					}
				}
			}
			// every content class at the boundary lengths: admission must not depend on what the bytes are
			for ct := 1; ct < len(c14Contents); ct++ {
				for _, n := range boundaryLens {
					l := base
					l[f] = n
					for _, e := range []string{"input.Validate", "generate"} {
						c := c14Case{Shape: sh, Lens: l, Content: ct, Entry: e}
						obs, bad := admit(c)
						local++
						if bad != "" {
							r.Fail("admission", fmt.Sprintf("input-clause %s %s lens=%v content=%s", e, sh.sig(), l, c14Contents[ct]), c, bad, obs)
						}
					}
				}
			}
			// lengths congruent to an admissible one modulo 2^8 / 2^16 (narrowed length checks)
			for _, okLen := range []int{8, 10, 20, 32, 64, 128, 0} {
				for _, wrap := range []int{256, 512, 65536} {
					l := base
					l[f] = okLen + wrap
					run(l, "input.Validate")
					run(l, "generate")
					run(l, "validate")
				}
			}
		}
		// every pair of fields x every pair of lengths
		for f := 0; f < 5; f++ {
			for g := f + 1; g < 5; g++ {
				for _, a := range pairLens {
					for _, b := range pairLens {
						l := base
						l[f], l[g] = a, b
						run(l, "input.Validate")
					}
				}
			}
		}
		// unselected fields take every length class without effect; all-nil input
		for _, n := range []int{-1, 0, 1, 8, 200} {
			l := base
			sel := []bool{sh.C, sh.Q, sh.P, sh.S, sh.T}
			for f := 0; f < 5; f++ {
				if !sel[f] {
					l[f] = n
				}
			}
			run(l, "input.Validate")
			run(l, "generate")
			run(l, "validate")
		}
		run([5]int{-1, -1, -1, -1, -1}, "generate")
		r.Eval(local)
		r.DistinctS("inputs:" + sh.sig())
	})
	sh := shapes[len(shapes)-1]
	sh.Text, sh.Digits = "s", 6
	r.Sample(map[string]any{"case": c14Case{sh, [5]int{8, 129, 20, 5, 8}, "input.Validate", 0}, "want_admitted": false})
	r.Sample(map[string]any{"case": c14Case{shape{Text: "s", Hash: 0, Digits: 3, Q: true, QF: 1}, [5]int{8, 16, 20, 5, 8}, "suite.Validate", 0}, "want_admitted": false})
	r.Set("alphabet", map[string]any{"suite clause": "32 subsets x challenge format 0..6 x password hash 0..3 x digits -1..12 and wraps (260, 262, 266, 518, 65542, 2^32+6, -250 ...) x hash 0..4 x time step {-1,0,1,60} and extremes (2^32, 9223372036, 9223372037, 2^40, 2^63-1 and negatives) through SuiteConfig.Validate, NewSuite, GenerateOCRA, ValidateOCRA", "input clause": fmt.Sprintf("per usable (subset, format, password hash) shape: every length -1(nil),0..140 of each field alone; every pair of fields x every pair of lengths over %d lengths; boundary set through GenerateOCRA/ValidateOCRA; unselected fields nil/0/1/8/200", len(pairLens))})
	r.Rule("every configuration / length combination of the grid through the real admission paths vs an admission predicate written from the property text; distinct = distinct usable suite shapes + field shapes")
	r.Assume("undefined enum values of challenge format / password hash are outside the property")
}

func inSetInt(n int, s []int) bool {
	for _, x := range s {
		if x == n {
			return true
		}
	}
	return false
}
