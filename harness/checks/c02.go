package checks

import (
	"strings"
	"sync/atomic"
	_ "time/tzdata"
	"unsafe"

	"fmt"
	"reflect"
	"time"

	"github.com/ja7ad/otp"
	"github.com/ja7ad/otp/verifharness/ev"
	"github.com/ja7ad/otp/verifharness/ref"
)

func init() { register("C02", "exploration", c02) }

type c02Case struct {
	Secret string `json:"secret"`
	Unix   int64  `json:"unix"`
	Nsec   int64  `json:"nsec"`
	Loc    int    `json:"loc"`  // index into c02Locs
	Mono   bool   `json:"mono"` // instant carries a monotonic reading
	Period uint64 `json:"period"`
	Digits int    `json:"digits"`
	Algo   int    `json:"algo"`
	Nil    bool   `json:"nil_param"`
	Skew   uint64 `json:"skew,omitempty"` // generation does not use the window: must not matter
	AppDef bool   `json:"application_changed_the_exported_defaults,omitempty"`
	// MonoAt != 0: the instant carries THIS monotonic reading (nanoseconds), whatever the wall clock says - two
	// time.Now() values straddling a clock step or a suspend have wall and monotonic differences that disagree
	MonoAt int64 `json:"monotonic_reading_ns,omitempty"`
}

// timeLayout mirrors time.Time (wall: hasMonotonic bit, 33 bits of seconds since 1885, 30 bits of nanoseconds; ext:
// the monotonic reading); monoLayoutOK says whether this Go release lays a time.Now() value out like that.
type timeLayout struct {
	wall uint64
	ext  int64
	loc  *time.Location
}

const wallSecondsFromUnix = 2682288000 // 1885-01-01 .. 1970-01-01

var monoLayoutOK = func() bool {
	now := time.Now()
	l := *(*timeLayout)(unsafe.Pointer(&now))
	if unsafe.Sizeof(now) != unsafe.Sizeof(l) || l.wall>>63 != 1 {
		return false
	}
	return int64(l.wall<<1>>31) == now.Unix()+wallSecondsFromUnix && int64(l.wall&(1<<30-1)) == int64(now.Nanosecond())
}()

// withMonotonic returns the instant (unix, nsec) carrying the monotonic reading mono.
func withMonotonic(unix, nsec, mono int64) (time.Time, bool) {
	ws := unix + wallSecondsFromUnix
	if !monoLayoutOK || ws < 0 || ws >= 1<<33 || nsec < 0 || nsec >= 1e9 {
		return time.Time{}, false
	}
	l := timeLayout{wall: 1<<63 | uint64(ws)<<30 | uint64(nsec), ext: mono, loc: time.Local}
	t := *(*time.Time)(unsafe.Pointer(&l))
	if t.Unix() != unix || int64(t.Nanosecond()) != nsec || !strings.Contains(t.String(), " m=") {
		return time.Time{}, false
	}
	return t, true
}

var c02Locs = func() []*time.Location {
	l := []*time.Location{time.UTC, time.FixedZone("+14", 14*3600), time.FixedZone("-12", -12*3600), time.FixedZone("+0545", 5*3600+45*60)}
	// real zones (embedded time/tzdata): daylight-saving transitions with repeated and skipped wall-clock hours,
	// half-hour and 45-minute offsets, a 30-minute DST shift, a zone that skipped a calendar day
	for _, n := range []string{"America/New_York", "Europe/Berlin", "Australia/Lord_Howe", "Asia/Kathmandu", "Pacific/Apia", "America/St_Johns", "Africa/Casablanca"} {
		if z, err := time.LoadLocation(n); err == nil {
			l = append(l, z)
		}
	}
	return l
}()

func (c c02Case) instant() (time.Time, bool) {
	t := time.Unix(c.Unix, c.Nsec)
	if c.MonoAt != 0 {
		mt, ok := withMonotonic(c.Unix, c.Nsec, c.MonoAt)
		if !ok {
			return t, false
		}
		return inKeepingMonotonic(mt, c02Locs[c.Loc]), true
	}
	if c.Mono {
		now := time.Now()
		d := t.Sub(now)
		if d == time.Duration(1<<63-1) || d == -time.Duration(1<<63-1)-1 {
			return t, false // out of Duration range: no monotonic variant exists
		}
		t = now.Add(d)
		if t.Unix() != c.Unix || int64(t.Nanosecond()) != c.Nsec {
			return t, false
		}
	}
	if c.Mono {
		return inKeepingMonotonic(t, c02Locs[c.Loc]), true
	}
	return t.In(c02Locs[c.Loc]), true
}

// inKeepingMonotonic is t.In(loc) without the side effect of Time.In, which strips the monotonic reading: a value
// "with a monotonic reading in another location" is what a caller holds after t = time.Now(); t2 := t; setting a
// location through any API that keeps the reading (or simply time.Now() under TZ=...).
func inKeepingMonotonic(t time.Time, loc *time.Location) time.Time {
	if !monoLayoutOK {
		return t.In(loc)
	}
	want := t.In(loc)
	l := (*timeLayout)(unsafe.Pointer(&t))
	if loc == time.UTC {
		l.loc = nil
	} else {
		l.loc = loc
	}
	if !t.Equal(want) || t.Unix() != want.Unix() || t.String()[:19] != want.String()[:19] {
		return want
	}
	return t
}

func totpGen(c c02Case, key []byte) (obs, bad string) {
	if c.AppDef {
		// an application may assign the exported defaults; an EXPLICIT Param still means what it says (period 0 = 30 s)
		sh, st := *otp.DefaultHOTPParam, *otp.DefaultTOTPParam
		*otp.DefaultTOTPParam = otp.Param{Digits: otp.EightDigits, Period: 60, Skew: 5, Algorithm: otp.SHA512}
		*otp.DefaultHOTPParam = otp.Param{Digits: otp.EightDigits, Period: 45, Skew: 9, Algorithm: otp.SHA256}
		defer func() { *otp.DefaultHOTPParam, *otp.DefaultTOTPParam = sh, st }()
	}
	t, ok := c.instant()
	if !ok {
		return "skip", ""
	}
	var code string
	var err error
	p := try(func() {
		if c.Nil {
			code, err = otp.GenerateTOTP(c.Secret, t, nil)
		} else {
			code, err = otp.GenerateTOTP(c.Secret, t, &otp.Param{Digits: otp.Digits(c.Digits), Algorithm: otp.Algorithm(c.Algo), Period: uint(c.Period), Skew: uint(c.Skew)})
		}
	})
	if p != "" {
		return "panic:" + p, "panicked: " + p
	}
	obs = code + "|" + errStr(err)
	d, a, per := c.Digits, c.Algo, c.Period
	if c.Nil {
		d, a, per = 6, 0, 30
		if c.AppDef {
			d, a, per = 8, 2, 60 // nil means the TOTP default as the application has assigned it (see above)
		}
	}
	if !ref.HOTPSupported(d, a) {
		// TOTP is HOTP at the step: an unsupported code length or hash is answered with an error, never with a code
		if err == nil || code != "" {
			return obs, "unsupported digits/hash must give (\"\", error), as HOTP does for the same Param"
		}
		return obs, ""
	}
	want := ref.HOTP(key, ref.Step(c.Unix, per), d, a)
	if err != nil || code != want {
		return obs, "want " + want
	}
	// generation and validation resolve parameters identically: the code validates at its own instant
	var vok bool
	var verr error
	p = try(func() {
		if c.Nil {
			vok, verr = otp.ValidateTOTP(c.Secret, code, t, nil)
		} else {
			vok, verr = otp.ValidateTOTP(c.Secret, code, t, &otp.Param{Digits: otp.Digits(c.Digits), Algorithm: otp.Algorithm(c.Algo), Period: uint(c.Period)})
		}
	})
	if p != "" || !vok || verr != nil {
		return obs + "|validate:" + fmt.Sprint(vok, errStr(verr), p), "generated code must validate at its own instant with the same parameters"
	}
	return obs, ""
}

func c02(r *ev.Run) {
	r.Scenario("totp-generate", func(raw []byte) (string, string) {
		c := unjson[c02Case](raw)
		v, key := ref.B32Classify(c.Secret)
		if v != ref.MustAccept {
			return "", ""
		}
		return totpGen(c, key)
	})
	r.Scenario("zero-period-validation", func(raw []byte) (string, string) {
		c := unjson[c02Case](raw) // Digits carries the step distance of the submitted code
		_, key := ref.B32Classify(c.Secret)
		dist := int64(c.Digits)
		code := ref.HOTP(key, uint64(int64(ref.Step(c.Unix, 30))+dist), 6, 0)
		want := dist >= -int64(c.Skew) && dist <= int64(c.Skew)
		var ok bool
		var err error
		pn := try(func() {
			ok, err = otp.ValidateTOTP(c.Secret, code, time.Unix(c.Unix, 0), &otp.Param{Digits: 6, Period: uint(c.Period), Skew: uint(c.Skew)})
		})
		if pn != "" || ok != want {
			return fmt.Sprint(ok, errStr(err), pn), fmt.Sprintf("want %v", want)
		}
		return fmt.Sprint(ok), ""
	})
	r.Scenario("totp-generate-history", func(raw []byte) (string, string) {
		emptySyncPools()
		obs := ""
		for k, c := range unjson[[]c02Case](raw) {
			v, key := ref.B32Classify(c.Secret)
			if v != ref.MustAccept {
				return "", ""
			}
			o, bad := totpGen(c, key)
			obs += o + ";"
			if bad != "" {
				return obs, fmt.Sprintf("call %d: %s", k, bad)
			}
		}
		return obs, ""
	})
	{
		k := []byte("12345678901234567890")
		sp := ref.B32Encode(k)
		var cs []c02Case
		for _, t := range []int64{59, 1111111109, 20000000000} {
			for a := 0; a < 3; a++ {
				cs = append(cs, c02Case{sp, t, 0, 0, false, 30, 8, a, false, 0, false, 0})
			}
			cs = append(cs, c02Case{sp, t, 999999999, 1, false, 0, 6, 0, false, 0, false, 0}, c02Case{Secret: sp, Unix: t, Nil: true})
		}
		for _, n := range []int{1, 16, 19, 21, 33, 64} {
			cs = append(cs, c02Case{Secret: ref.B32Encode(patt(n, 9)), Unix: 1111111109, Period: 30, Digits: 6, Algo: n % 3})
		}
		// the window field generation does not use; and explicit parameters under application-modified defaults
		for _, sk := range []uint64{1, 10, 11, 255, 1<<64 - 1} {
			cs = append(cs, c02Case{Secret: sp, Unix: 1111111109, Period: 30, Digits: 6, Algo: int(sk % 3), Skew: sk})
		}
		for _, per := range []uint64{0, 30, 60, 1} {
			for a := 0; a < 3; a++ {
				cs = append(cs, c02Case{Secret: sp, Unix: 1111111109, Period: per, Digits: 6 + 2*(a%2), Algo: a, AppDef: true})
			}
		}
		for _, t := range []int64{59, 1111111109, 1 << 40} {
			cs = append(cs, c02Case{Secret: sp, Unix: t, Nil: true, AppDef: true})
		}
		// every unsupported code length and a few unsupported hashes, with every kind of period
		for _, d := range []int{0, 11, 12, 16, 22, 38, 64, 128, 200, 255} {
			cs = append(cs, c02Case{Secret: sp, Unix: 1111111109, Period: []uint64{30, 0, 60, 1}[d%4], Digits: d, Algo: d % 3})
		}
		if !ReplayOnly {
			for d := 0; d <= 255; d++ {
				if d >= 1 && d <= 10 {
					continue
				}
				for a := 0; a < 3; a++ {
					c := c02Case{Secret: sp, Unix: 1111111109, Period: []uint64{30, 0, 60, 1}[d%4], Digits: d, Algo: a}
					_, key := ref.B32Classify(c.Secret)
					if obs, bad := totpGen(c, key); bad != "" {
						r.Fail("totp-generate", fmt.Sprintf("unsupported digits=%d algo=%d: %s", d, a, bad), c, bad, obs)
					}
				}
			}
			r.Eval(246 * 3)
		}
		for _, a := range []int{3, 4, 99, 255} {
			cs = append(cs, c02Case{Secret: sp, Unix: 59, Period: 30, Digits: 6, Algo: a}, c02Case{Secret: sp, Unix: 59, Period: 0, Digits: 0, Algo: a})
		}
		afterWarmups(r, "totp-generate-after-other-operations", cs, func(c c02Case) (string, string) { _, key := ref.B32Classify(c.Secret); return totpGen(c, key) })
	}
	volume(r, "totp-generate-volume", 1100, func(k int) c02Case {
		return c02Case{ref.B32Encode([]byte(fmt.Sprintf("volume-key-%04d-0123456789abcdefghij", k))[:10+(k*7)%27]), int64(k) * 977, 0, k % 4, false, []uint64{30, 0, 60, 1}[k%4], 6 + 2*(k%2), k % 3, false, 0, false, 0}
	}, func(c c02Case) (string, string) { _, key := ref.B32Classify(c.Secret); return totpGen(c, key) })
	if ReplayOnly {
		return
	}
	tcf0 := reflect.ValueOf(otp.TimeCounterFunc).Pointer()
	keys := [][]byte{[]byte("12345678901234567890"), filler(r.Seed, "c02", 33)}
	if r.Thorough() {
		keys = append(keys, []byte{}, filler(r.Seed, "c02b", 129))
	}
	type job struct {
		period uint64
		ts     []int64
	}
	var jobs []job
	for p := uint64(0); p <= 64; p++ {
		m := p
		if m == 0 {
			m = 30
		}
		var ts []int64
		for t := int64(0); t <= int64(4*m+2); t++ {
			ts = append(ts, t)
		}
		// the same boundaries far from the epoch
		for _, base := range []int64{1111111100, 1 << 31, 1 << 32} {
			b := base - base%int64(m)
			for d := int64(-2); d <= 2; d++ {
				ts = append(ts, b+d, b+int64(m)+d)
			}
		}
		jobs = append(jobs, job{p, ts})
	}
	const max62 = int64(1)<<62 - 1
	bigPeriods := []uint64{3600, 86400, 1 << 16, 1<<31 - 1, 1 << 31, 1<<32 - 1, 1 << 32}
	// "round" periods, which a heuristic could take for a value in another unit (milli-, micro-, nanoseconds, a
	// time.Duration) or for a flag: d x 10^k, the usual spans of time in seconds and in finer units, every power of two
	{
		seen := map[uint64]bool{}
		for _, p := range bigPeriods {
			seen[p] = true
		}
		add := func(p uint64) {
			if p > 64 && p <= 1<<32 && !seen[p] {
				seen[p] = true
				bigPeriods = append(bigPeriods, p)
			}
		}
		for k, pw := 2, uint64(100); k <= 9; k, pw = k+1, pw*10 {
			for d := uint64(1); d <= 9; d++ {
				add(d * pw)
			}
			add(pw - 1)
			add(pw + 1)
		}
		for _, span := range []uint64{90, 120, 300, 600, 900, 1800, 7200, 43200, 604800, 2592000, 31536000} {
			add(span)
		}
		for _, unit := range []uint64{1000, 1000000} {
			for _, sec := range []uint64{1, 15, 30, 60, 90, 300, 3600} {
				add(sec * unit)
			}
		}
		for k := 7; k < 32; k++ {
			add(1 << k)
		}
	}
	for _, p := range bigPeriods {
		var ts []int64
		top := uint64(max62) / p
		for _, n := range []uint64{0, 1, 2, top - 1, top} {
			for d := int64(-2); d <= 2; d++ {
				t := int64(n*p) + d
				if t >= 0 && t <= max62 {
					ts = append(ts, t)
				}
			}
		}
		for _, t := range []int64{1<<31 - 1, 1 << 31, 1<<32 - 1, 1 << 32, max62 - 1, max62, 59, 1111111109, 20000000000} {
			ts = append(ts, t)
		}
		jobs = append(jobs, job{p, ts})
	}
	nsecs := []int64{0, 1, 500000000, 999999999}
	ev.Par(len(jobs), func(i int) {
		j := jobs[i]
		var local int64
		for ki, key := range keys {
			sec := spellings(key)[ki%2]
			for _, t := range j.ts {
				for _, d := range []int{6, 8, 10} {
					for a := 0; a < 3; a++ {
						for vi := 0; vi < 32; vi++ {
							// variants of the same instant: nsec x location x monotonic; the full
							// variant product only for (6, SHA-1), variant 0 and one rotating variant otherwise
							if !(d == 6 && a == 0) && vi != 0 && vi != int(t+int64(d)+int64(a))%32 {
								continue
							}
							c := c02Case{sec, t, nsecs[vi%4], (vi / 4) % 4, vi >= 16, j.period, d, a, false, 0, false, 0}
							obs, bad := totpGen(c, key)
							if obs == "skip" {
								continue
							}
							local++
							if bad != "" {
								r.Fail("totp-generate", fmt.Sprintf("period=%d digits=%d algo=%d variant=%d", j.period, d, a, vi), c, bad, obs)
							}
							if vi == 0 && d == 6 {
								r.DistinctS(fmt.Sprint(j.period, "|", ref.Step(t, j.period), "|", a, "|", obs))
							}
						}
					}
				}
				if j.period == 30 || j.period == 0 {
					c := c02Case{sec, t, 1, 1, false, 0, 0, 0, true, 0, false, 0}
					obs, bad := totpGen(c, key)
					local++
					if bad != "" {
						r.Fail("totp-generate", "nil-param", c, bad, obs)
					}
				}
			}
		}
		r.Eval(local)
	})
	// call histories on one goroutine: the same secret and parameters at instants in DEscending and mixed order,
	// and parameter changes between calls (a result must not depend on the call before it)
	{
		key := keys[0]
		sec := spellings(key)[0]
		instants := []int64{2000000000, 1234567890, 1111111111, 1111111109, 1111111081, 1111111079, 89, 60, 59, 30, 29, 0}
		var hn int64
		for _, per := range []uint64{30, 0, 60, 1} {
			for _, d := range []int{6, 8} {
				emptySyncPools()
				var hist []c02Case
				for pass := 0; pass < 2; pass++ {
					for i := range instants {
						t := instants[i]
						if pass == 1 {
							t = instants[(i*5)%len(instants)]
						}
						c := c02Case{sec, t, int64(i%2) * 999999999, i % 4, false, per, d, i % 3, (per == 30 || per == 0) && d == 6 && i%3 == 0 && pass == 1, 0, false, 0}
						if c.Nil {
							c.Algo = 0
						}
						hist = append(hist, c)
						obs, bad := totpGen(c, key)
						hn++
						if bad != "" {
							r.Fail("totp-generate-history", fmt.Sprintf("call %d of a history with period %d (instant %d after %d calls): %s", len(hist)-1, per, t, len(hist)-1, bad), hist, bad, obs)
							break
						}
					}
				}
			}
		}
		// the same histories with monotonic readings that DISAGREE with the wall clock: every call carries a reading a
		// few milliseconds after the previous call's (as if the wall clock had been stepped, or the host suspended,
		// between two time.Now() calls), and the mirror image: equal wall instants with readings hours apart
		var mn int64
		if monoLayoutOK {
			for _, per := range []uint64{30, 0, 60, 1} {
				for _, mode := range []int{0, 1, 2} {
					emptySyncPools()
					var hist []c02Case
					mono := int64(5_000_000_000)
					for i := 0; i < 2*len(instants); i++ {
						t := instants[(i*5)%len(instants)]
						switch mode {
						case 0:
							mono += 3_000_000 // 3 ms later on the monotonic clock, anywhere on the wall clock
						case 1:
							mono -= 7_000_000 // ... and earlier (readings are only ever compared, never trusted)
						case 2:
							t = instants[(i/2*5)%len(instants)] // every instant twice, readings three hours apart
							mono += 3 * 3600 * 1_000_000_000
						}
						c := c02Case{Secret: sec, Unix: t, Nsec: int64(i%2) * 999999999, Loc: i % 4, Period: per, Digits: 6, Algo: 0, MonoAt: mono}
						if _, ok := c.instant(); !ok {
							continue
						}
						hist = append(hist, c)
						obs, bad := totpGen(c, key)
						mn++
						if bad != "" {
							r.Fail("totp-generate-history", fmt.Sprintf("call %d of a history with period %d whose monotonic readings disagree with the wall clock (mode %d, instant %d): %s", len(hist)-1, per, mode, t, bad), hist, bad, obs)
							break
						}
					}
				}
			}
		} else {
			r.NotExhaustive("time.Time is not laid out as assumed: instants with arbitrary monotonic readings could not be built")
		}
		hn += mn
		r.Set("history_calls_with_disagreeing_monotonic_readings", mn)
		r.Eval(hn)
		r.Set("history_calls", hn)
	}
	// every key length 0..140 (all residues of the base32 length mod 8, around both HMAC block sizes) in four spellings,
	// at a few instants: the TOTP code is the HOTP code of the same key
	{
		var kn atomic.Int64
		ev.Par(141, func(n int) {
			key := patt(n, byte(n*7+1))
			var local int64
			for si, sec := range spellings(key) {
				for _, t := range []int64{59, 1111111109} {
					for a := 0; a < 3; a++ {
						c := c02Case{sec, t, 0, 0, false, []uint64{30, 0}[si%2], 6 + 2*(a%2), a, false, 0, false, 0}
						obs, bad := totpGen(c, key)
						local++
						if bad != "" {
							r.Fail("totp-generate", fmt.Sprintf("key of %d bytes (spelling %d) algo=%d: %s", n, si, a, bad), c, bad, obs)
						}
					}
				}
			}
			kn.Add(local)
			r.Eval(local)
		})
		r.Set("key_length_sweep_calls", kn.Load())
	}
	// "a zero period means 30 s in generation exactly as in validation": with period 0 and with period 30, windows 0..2,
	// the codes of the steps -3..+3 get the same verdicts, and those are the reference verdicts
	{
		key := keys[0]
		sec := spellings(key)[0]
		var zn int64
		for _, t := range []int64{59, 1111111109, 1699165800} {
			st := ref.Step(t, 30)
			for sk := uint(0); sk <= 2; sk++ {
				for dist := int64(-3); dist <= 3; dist++ {
					if int64(st)+dist < 0 {
						continue
					}
					code := ref.HOTP(key, uint64(int64(st)+dist), 6, 0)
					want := dist >= -int64(sk) && dist <= int64(sk)
					for _, per := range []uint{0, 30} {
						var ok bool
						var err error
						pn := try(func() {
							ok, err = otp.ValidateTOTP(sec, code, time.Unix(t, 0), &otp.Param{Digits: 6, Period: per, Skew: sk})
						})
						zn++
						if pn != "" || ok != want {
							r.Fail("zero-period-validation", fmt.Sprintf("t=%d skew=%d step%+d period=%d: got %v %s %s, want %v", t, sk, dist, per, ok, errStr(err), pn, want), c02Case{Secret: sec, Unix: t, Period: uint64(per), Skew: uint64(sk), Digits: int(dist)}, fmt.Sprint(want), fmt.Sprint(ok, errStr(err), pn))
						}
					}
				}
			}
		}
		r.Eval(zn)
	}
	// real time zones: every half hour (and the second before) of three years in each zone, i.e. across every
	// daylight-saving transition, repeated and skipped wall-clock hour: the code depends on the instant only
	{
		key := keys[0]
		sec := spellings(key)[0]
		var zn atomic.Int64
		ev.Par(len(c02Locs), func(li int) {
			var local int64
			for t := int64(1640995200); t < 1640995200+3*366*86400; t += 1800 { // from 2022-01-01 UTC
				for _, dt := range []int64{0, -1} {
					for pi, per := range []uint64{30, 3600} {
						if pi == 1 && dt != 0 {
							continue
						}
						c := c02Case{sec, t + dt, 0, li, false, per, 6, 0, false, 0, false, 0}
						obs, bad := totpGen(c, key)
						local++
						if bad != "" {
							r.Fail("totp-generate", fmt.Sprintf("zone %s period=%d: %s", c02Locs[li], per, bad), c, bad, obs)
							break
						}
					}
				}
			}
			zn.Add(local)
			r.Eval(local)
		})
		r.Set("time_zone_grid_calls", zn.Load())
		r.Set("time_zones", fmt.Sprint(c02Locs))
	}
	// the default period: generation with period 0 equals generation with period 30 (follows
	// from the reference; counted separately as a metamorphic pair)
	if tcf1 := reflect.ValueOf(otp.TimeCounterFunc).Pointer(); tcf1 != tcf0 {
		r.Fail("totp-generate", "TimeCounterFunc-replaced", "TimeCounterFunc", "same function value before and after", "changed")
	}
	r.Sample(map[string]any{"case": c02Case{spellings(keys[0])[0], 59, 999999999, 3, true, 30, 8, 0, false, 0, false, 0}, "ref": ref.HOTP(keys[0], 1, 8, 0)})
	r.Sample(map[string]any{"case": c02Case{spellings(keys[0])[0], 89, 0, 0, false, 0, 6, 1, false, 0, false, 0}, "note": "period 0 means 30", "ref": ref.HOTP(keys[0], 2, 6, 1)})
	r.Set("alphabet", map[string]any{"periods": "0..64 (every whole second of 4 steps + boundaries near 1111111100, 2^31, 2^32), 3600, 86400, 2^16, 2^31-1, 2^31, 2^32-1, 2^32, d x 10^k (k=2..9) and 10^k +-1, the usual spans in seconds and in milli-/microseconds, every power of two (boundaries of steps 0,1,2,top-1,top and t around 2^31, 2^32, 2^62-1)", "nsec": nsecs, "locations": "UTC,+14:00,-12:00,+05:45", "monotonic": "with/without where representable", "digits": "6,8,10", "hash": "0..2", "param": "nil/explicit"})
	r.Rule("every (period, instant) of the grid x digits x hash through GenerateTOTP vs reference HOTP at floor(unix/period) (0 => 30), every instant also in all nsec/zone/monotonic variants, each generated code validated at its own instant; distinct = distinct (period, step, hash, output) tuples")
	r.Assume("time.Time.Unix() of the Go standard library; crypto/hmac")
}
