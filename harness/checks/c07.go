package checks

import (
	"bytes"
	"fmt"
	"strings"
	"time"

	"github.com/ja7ad/otp"
	"github.com/ja7ad/otp/verifharness/ev"
	"github.com/ja7ad/otp/verifharness/ref"
)

func init() { register("C07", "exploration", c07) }

type c07Case struct {
	Text string `json:"text"`
}

func decodeCase(c c07Case) (obs, bad string) {
	var got []byte
	var err error
	if p := try(func() { got, err = otp.DecodeSecret(c.Text) }); p != "" {
		return "panic:" + p, "panicked: " + p
	}
	obs = fmt.Sprintf("%x|%s", got, errStr(err))
	v, want := ref.B32Classify(c.Text)
	if err != nil {
		// a text that is refused stays refused: the same text decoded again must give the same answer
		var again []byte
		var err2 error
		if p := try(func() { again, err2 = otp.DecodeSecret(c.Text) }); p != "" {
			return "panic:" + p, "second decode panicked: " + p
		}
		if err2 == nil {
			return obs + fmt.Sprintf("|again=%x|<nil>", again), "the text was refused by the first decode and accepted by the second decode of the same text"
		}
	}
	if err == nil && len(got) > 0 {
		// the returned key is the caller's: wiping it must not change what the next decode returns
		first := append([]byte(nil), got...)
		for i := range got {
			got[i] = 0xEE
		}
		var again []byte
		var err2 error
		if p := try(func() { again, err2 = otp.DecodeSecret(c.Text) }); p != "" {
			return "panic:" + p, "second decode panicked: " + p
		}
		if err2 != nil || !bytes.Equal(again, first) {
			return obs + fmt.Sprintf("|again=%x|%s", again, errStr(err2)), "decoding the same text again after the caller overwrote the first result gives different bytes"
		}
		// ... and once more: the SECOND result is the caller's too
		for i := range again {
			again[i] = 0x11
		}
		var third []byte
		var err3 error
		if p := try(func() { third, err3 = otp.DecodeSecret(c.Text) }); p != "" {
			return "panic:" + p, "third decode panicked: " + p
		}
		if err3 != nil || !bytes.Equal(third, first) {
			return obs + fmt.Sprintf("|third=%x|%s", third, errStr(err3)), "decoding the same text a third time after the caller overwrote the second result gives different bytes"
		}
		got = first
	}
	switch v {
	case ref.MustAccept:
		if err != nil || !bytes.Equal(got, want) {
			return obs, fmt.Sprintf("want %x", want)
		}
	case ref.MustReject:
		if err == nil {
			return obs, "text outside the base32 alphabet / of an impossible length must be rejected"
		}
		// ... by EVERY entry point, not only by DecodeSecret: a validator that decodes on its own may stop at the
		// first complete '=' run (or at the first foreign byte) and use the key in front of it.  Decided for texts
		// with an '=' in them or a foreign byte behind a decodable prefix, up to 48 characters.
		if len(c.Text) <= 48 {
			if d := rejectedEverywhere(c.Text); d != "" {
				return obs, d
			}
		}
	case ref.DontCare:
		if err == nil && want != nil && !bytes.Equal(got, want) {
			return obs, fmt.Sprintf("accepted, but bytes differ from %x", want)
		}
	}
	return obs, ""
}

// rejectedEverywhere submits a refused secret text to the three validators together with the code that belongs
// to the key of each decodable prefix of the text; every verdict must be (false, error).
func rejectedEverywhere(text string) string {
	t := strings.TrimSpace(text)
	var cuts []int
	for i := 1; i <= len(t); i++ {
		if t[i-1] == '=' && (i == len(t) || t[i] != '=') {
			cuts = append(cuts, i) // the end of an '=' run
		}
		if i%8 == 0 {
			cuts = append(cuts, i)
		}
	}
	seen := map[string]bool{}
	su, _ := otp.NewRawSuite("OCRA-1:HOTP-SHA1-6:QN08")
	rs, _ := ref.ParseSuite("OCRA-1:HOTP-SHA1-6:QN08")
	for _, cut := range cuts {
		v, key := ref.B32Classify(t[:cut])
		if v != ref.MustAccept || len(key) == 0 || seen[string(key)] {
			continue
		}
		seen[string(key)] = true
		var bad string
		if p := try(func() {
			if ok, err := otp.ValidateHOTP(text, ref.HOTP(key, 5, 6, 0), 5, &otp.Param{Digits: 6}); ok || err == nil {
				bad = fmt.Sprintf("ValidateHOTP accepts the refused text with the code of the key in front of offset %d: (%v, %v)", cut, ok, err)
			}
			if ok, err := otp.ValidateTOTP(text, ref.HOTP(key, 1, 6, 0), time.Unix(59, 0), &otp.Param{Digits: 6, Period: 30}); ok || err == nil {
				bad = fmt.Sprintf("ValidateTOTP accepts the refused text with the code of the key in front of offset %d: (%v, %v)", cut, ok, err)
			}
			if ok, err := otp.ValidateOCRA(text, ref.OCRA(key, rs, ref.OCRAIn{Challenge: []byte("12345678")}), su, otp.OCRAInput{Challenge: []byte("12345678")}); ok || err == nil {
				bad = fmt.Sprintf("ValidateOCRA accepts the refused text with the code of the key in front of offset %d: (%v, %v)", cut, ok, err)
			}
		}); p != "" {
			return "a validator panicked on the refused text: " + p
		}
		if bad != "" {
			return bad
		}
	}
	return ""
}

func caseMask(s string, mask uint64) string {
	b := []byte(s)
	for i := range b {
		if mask>>(uint(i)%64)&1 == 1 && b[i] >= 'A' && b[i] <= 'Z' {
			b[i] += 'a' - 'A'
		}
	}
	return string(b)
}

var wrappers = []string{"", " ", "\t", "\n", "\r\n", " \t\n"}

// entryPoints returns the results of all six entry points for one secret text.
func entryPoints(sec string) string {
	t := time.Unix(1111111109, 0)
	su, _ := otp.NewRawSuite("OCRA-1:HOTP-SHA1-6:QN08")
	in := otp.OCRAInput{Challenge: patt(16, 3)}
	var out []string
	_ = try(func() {
		a, e := otp.GenerateHOTP(sec, 7, &otp.Param{Digits: 8, Algorithm: otp.SHA256})
		out = append(out, a+errStr(e))
		a, e = otp.GenerateTOTP(sec, t, &otp.Param{Digits: 6, Algorithm: otp.SHA512, Period: 30})
		out = append(out, a+errStr(e))
		a, e = otp.GenerateOCRA(sec, su, in)
		out = append(out, a+errStr(e))
		ocra := a
		h, _ := otp.GenerateHOTP(sec, 7, nil)
		ok, e := otp.ValidateHOTP(sec, h, 8, nil)
		out = append(out, fmt.Sprint(ok)+errStr(e))
		tt, _ := otp.GenerateTOTP(sec, t, nil)
		ok, e = otp.ValidateTOTP(sec, tt, t, nil)
		out = append(out, fmt.Sprint(ok)+errStr(e))
		ok, e = otp.ValidateOCRA(sec, ocra, su, in)
		out = append(out, fmt.Sprint(ok)+errStr(e))
	})
	return strings.Join(out, ",")
}

func c07(r *ev.Run) {
	r.Scenario("decode", func(raw []byte) (string, string) { return decodeCase(unjson[c07Case](raw)) })
	r.Scenario("entry-points", func(raw []byte) (string, string) {
		c := unjson[c07Case](raw)
		v, key := ref.B32Classify(c.Text)
		if v != ref.MustAccept {
			return "", ""
		}
		got, want := entryPoints(c.Text), entryPoints(ref.B32Encode(key))
		if got != want {
			return got, "want " + want
		}
		return got, ""
	})
	{
		var cs []c07Case
		for _, t := range []string{"MZXW6YTB", "mzxw6ytb", " MZXW6YTBOI====== ", "MZXW6", "GEZDGNBVGY3TQOJQGEZDGNBVGY3TQOJQ", "", "MZXW6YTB0", "A", "MZ=W6YTB", "ıııııııı", strings.Repeat("MZXW6YTB", 40), strings.Repeat("a", 410)} {
			cs = append(cs, c07Case{t})
		}
		afterWarmups(r, "decode-after-other-operations", cs, decodeCase)
	}
	volume(r, "decode-volume", 1100, func(k int) c07Case {
		t := ref.B32Encode([]byte(fmt.Sprintf("volume-%04d", k)))
		switch k % 5 {
		case 1:
			t = strings.ToLower(t)
		case 2:
			t = " " + t + "\n"
		case 3:
			t = t[:len(t)-1] + "1"
		case 4:
			t = t + "A"
		}
		return c07Case{t}
	}, decodeCase)
	if ReplayOnly {
		return
	}
	run := func(text string, local *int64) {
		obs, bad := decodeCase(c07Case{text})
		*local++
		if bad != "" {
			r.Fail("decode", fmt.Sprintf("%q: %s", trunc80(text), bad), c07Case{text}, bad, obs)
		}
	}
	spell := func(key []byte, rich bool, local *int64) {
		u := ref.B32Encode(key)
		canon := ref.B32Pad(len(u))
		var masks []uint64
		if len(u) <= 8 && rich {
			for m := uint64(0); m < 1<<uint(len(u)); m++ {
				masks = append(masks, m)
			}
		} else {
			masks = []uint64{0, ^uint64(0), 0xAAAAAAAAAAAAAAAA, 0x5555555555555555, 0x9249249249249249 ^ uint64(len(u))}
		}
		k := len(key)
		for p := 0; p <= canon; p++ {
			for mi, m := range masks {
				body := caseMask(u, m) + strings.Repeat("=", p)
				if rich || len(masks) <= 5 {
					for wi := 0; wi < 6; wi++ {
						// all 36 (leading, trailing) wrappers are covered across the rotation
						lead, trail := wrappers[(wi+mi+p+k)%6], wrappers[(wi*5+mi+k/6)%6]
						run(lead+body+trail, local)
					}
				} else {
					run(wrappers[(mi+p+k)%6]+body+wrappers[(mi*5+p)%6], local)
				}
			}
		}
		if rich {
			for _, l := range wrappers {
				for _, t := range wrappers {
					run(l+u+t, local)
				}
			}
		}
	}
	// (a1) all byte strings of length 0..2 (thorough: 3)
	maxAll := 2
	if r.Thorough() {
		maxAll = 3
	}
	ev.Par(256, func(b0 int) {
		var local int64
		if b0 == 0 {
			spell([]byte{}, true, &local)
		}
		spell([]byte{byte(b0)}, true, &local)
		for b1 := 0; b1 < 256; b1++ {
			spell([]byte{byte(b0), byte(b1)}, b1%16 == b0%16, &local)
			if maxAll >= 3 {
				for b2 := 0; b2 < 256; b2++ {
					key := []byte{byte(b0), byte(b1), byte(b2)}
					u := ref.B32Encode(key)
					run(u, &local)
					run(strings.ToLower(u)+"===", &local)
				}
			}
		}
		r.Eval(local)
		r.DistinctS(fmt.Sprint("prefix", b0))
	})
	// (a2) lengths 3..256 with patterned contents
	ev.Par(254, func(i int) {
		n := i + 3
		var local int64
		for ci, c := range secretContents(r.Seed, n) {
			spell(c, ci == 2 && n <= 5, &local)
			r.DistinctS(fmt.Sprintf("%d/%d", n, ci))
		}
		for _, k := range []int{1, 7, 31} {
			b := make([]byte, n)
			for j := range b {
				b[j] = byte(j * k)
			}
			spell(b, false, &local)
		}
		r.Eval(local)
	})
	// (b) every entry point sees the same key for all spellings
	var nb int64
	for _, n := range []int{0, 1, 4, 5, 10, 20, 33, 64, 129} {
		key := filler(r.Seed, "c07ep", n)
		want := entryPoints(ref.B32Encode(key))
		u := ref.B32Encode(key)
		for p := 0; p <= ref.B32Pad(len(u)); p++ {
			for _, m := range []uint64{0, ^uint64(0), 0xAAAAAAAAAAAAAAAA} {
				for wi, w := range wrappers {
					text := w + caseMask(u, m) + strings.Repeat("=", p) + wrappers[(wi+1)%6]
					got := entryPoints(text)
					nb++
					if got != want {
						r.Fail("entry-points", fmt.Sprintf("keylen=%d pads=%d", n, p), c07Case{text}, want, got)
					}
				}
			}
		}
	}
	r.Eval(nb)
	r.Set("entry_point_cases", nb)
	// (c) rejection clause: all texts up to a length over an alphabet of valid and invalid symbols
	syms := []string{"A", "a", "7", "=", "0", "1", "8", "9", "-", "_", " ", "ı", "ſ", "K", "é"}
	maxL := 4
	if r.Thorough() {
		maxL = 6
	}
	ev.Par(len(syms), func(s0 int) {
		var local int64
		var rec func(prefix string, depth int)
		rec = func(prefix string, depth int) {
			run(prefix, &local)
			if depth == maxL {
				return
			}
			for _, s := range syms {
				rec(prefix+s, depth+1)
			}
		}
		rec(syms[s0], 1)
		r.Eval(local)
	})
	// non-ASCII letters that case-fold into the alphabet only line up with the padding
	// arithmetic in groups of eight: all texts of exactly 8 symbols over a small alphabet
	fold := []string{"ı", "ſ", "A", "a", "7"}
	ev.Par(len(fold)*len(fold), func(k int) {
		var local int64
		var rec func(prefix string, depth int)
		rec = func(prefix string, depth int) {
			if depth == 8 {
				run(prefix, &local)
				run(" "+prefix+"\n", &local)
				return
			}
			for _, s := range fold {
				rec(prefix+s, depth+1)
			}
		}
		rec(fold[k/len(fold)]+fold[k%len(fold)], 2)
		r.Eval(local)
	})
	// every byte value at (and inserted before) every position of short valid texts, and every pair of bytes
	// as a whole text and inside an 8-symbol frame
	bases := []string{"MZXW6YTB", "MZXW6YTBOI======", "mzxw6", "MZXW6YTBOI", "AA", ""}
	ev.Par(256, func(b int) {
		var local int64
		ch := string([]byte{byte(b)})
		for _, base := range bases {
			for i := 0; i <= len(base); i++ {
				run(base[:i]+ch+base[i:], &local)
				if i < len(base) {
					run(base[:i]+ch+base[i+1:], &local)
				}
			}
		}
		for b1 := 0; b1 < 256; b1++ {
			two := ch + string([]byte{byte(b1)})
			run(two, &local)
			run("MZ"+two+"6YTB", &local)
			run("MZXW6Y"+two, &local)
		}
		r.Eval(local)
	})
	// padding in the middle at EVERY block boundary: the padded text of a key of n bytes (n not a multiple of 5)
	// followed by more valid text, for all n up to 330 (the '=' run ends at offsets 7, 15, 23 ... 527)
	ev.Par(331, func(n int) {
		if n%5 == 0 {
			return
		}
		var local int64
		u := ref.B32Encode(patt(n, byte(n)))
		head := u + strings.Repeat("=", ref.B32Pad(len(u)))
		for _, tail := range []string{"MZXW6YTB", "MY======", "A", strings.ToLower(head), strings.Repeat("MZXW6YTB", 9)} {
			run(head+tail, &local)
			run(" "+strings.ToLower(head)+tail+"\n", &local)
		}
		r.Eval(local)
	})
	var nc int64
	// exactly ONE lower-case letter (each of a..z, at each of 8 positions) among upper-case ones, and the reverse:
	// a case test with a wrong range boundary misses one letter only when no other letter triggers the folding
	for L := byte('A'); L <= 'Z'; L++ {
		for pos := 0; pos < 8; pos++ {
			for _, fill := range []string{string([]byte{L}), "A", "7", "Z"} {
				up := strings.Repeat(fill, pos) + string([]byte{L}) + strings.Repeat(fill, 7-pos)
				lo := strings.Repeat(fill, pos) + string([]byte{L | 0x20}) + strings.Repeat(fill, 7-pos)
				run(lo, &nc)
				run(strings.ToLower(up[:pos])+up[pos:pos+1]+strings.ToLower(up[pos+1:]), &nc)
				run(lo[:5], &nc) // unpadded 5-symbol form of the same
			}
		}
	}
	// a valid secret written in ANOTHER transport encoding must be refused, not decoded: percent-escapes, '+' for
	// a blank, quoted-printable, backslash and HTML escapes, grouping separators, a data: / otpauth: prefix
	for _, enc := range []string{"MZXW6YT%42", "MY%3D%3D%3D%3D%3D%3D", "%20MZXW6YTB", "+MZXW6YTB%20", "MZXW6YTB%0A", "%4D%5A%58%57%36%59%54%42", "MZXW6YTB%", "MZXW6YTB%4", "MZXW6YTB%zz", "MZXW%256YTB",
		"MZXW6YT=42", "MZXW6YT\\x42", "MZXW6YT\\u0042", "MZXW6YT&#66;", "MZXW6YT&amp;", "MZXW 6YTB", "MZXW-6YTB", "MZXW_6YTB", "MZXW.6YTB", "MZXW,6YTB", "MZXW:6YTB", "MZXW\t6YTB",
		"secret=MZXW6YTB", "otpauth://totp/x?secret=MZXW6YTB", "base32:MZXW6YTB", "\"MZXW6YTB\"", "'MZXW6YTB'", "<MZXW6YTB>", "MZXW6YTB;", "MZXW6YTB,", "MZXW6YTB.", "0xMZXW6YTB", "MZXW6YTB==%3D"} {
		run(enc, &nc)
		run(strings.ToLower(enc), &nc)
		run(" "+enc+"\n", &nc)
	}
	run(strings.Repeat("ı", 16), &nc)
	run(strings.Repeat("ſ", 16), &nc)
	run(strings.Repeat("ı", 8)+"MZXW6YTB", &nc)
	run("MZXW6YTB"+strings.Repeat("ſ", 8), &nc)
	for n := 1; n <= 64; n++ {
		body := strings.Repeat("MZXW6YTB", 9)[:n]
		run(body, &nc)
		run(strings.ToLower(body), &nc)
		for p := 1; p <= 8; p++ {
			run(body+strings.Repeat("=", p), &nc)
		}
		if n > 2 {
			run(body[:n/2]+"="+body[n/2:], &nc) // padding in the middle
			run(body[:1]+"=="+body[1:], &nc)
			run(body[:n/2]+"0"+body[n/2+1:], &nc)
			run(body[:n/2]+"ı"+body[n/2+1:], &nc)
			run(body[:n/2]+" "+body[n/2:], &nc)
		}
	}
	r.Eval(nc)
	r.Sample(map[string]any{"text": " \tmZxW6yTb\n", "want_bytes": "666f6f6261"})
	r.Sample(map[string]any{"text": "ıııııııı", "want": "rejected"})
	r.Sample(map[string]any{"text": "MZXW6", "want_bytes": "666f6f", "note": "unpadded"})
	r.Set("alphabet", map[string]any{"byte strings": fmt.Sprintf("all of length 0..%d; lengths 3..256 with contents 00.., FF.., ramp, seed filler, ramp x 1/7/31", maxAll), "spellings": "padding count 0..canonical x case masks (all 2^n masks for <= 8 symbols, else upper/lower/alternating) x leading/trailing wrappers {none, space, tab, LF, CRLF, space-tab-LF}", "reject alphabet": syms, "reject max length": maxL, "single bytes": "every byte value 0..255 substituted at and inserted before every position of 6 base texts; every pair of byte values as a whole text and at two positions of an 8-symbol frame"})
	r.Rule("every spelling of every byte string of the alphabet through DecodeSecret vs a bit-wise RFC 4648 reference; every text over the reject alphabet up to the stated length classified by the reference as must-accept / must-reject / not decided (non-zero trailing bits, excess padding, interior CR/LF); six entry points compared across spellings; distinct = byte-string classes visited")
	r.Assume("non-zero trailing pad bits, more '=' than canonical and interior CR/LF are deliberately not decided (RFC 4648 §3.5 / encoding/base32 documented behaviour)")
}
