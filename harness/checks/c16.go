package checks

import (
	"fmt"
	"math/big"
	"net/url"
	"strconv"
	"strings"

	"github.com/ja7ad/otp"
	"github.com/ja7ad/otp/verifharness/ev"
	"github.com/ja7ad/otp/verifharness/ref"
)

func init() { register("C16", "exploration", c16) }

type c16Case struct {
	Kind    string `json:"kind"` // totp | hotp | parse
	Issuer  string `json:"issuer"`
	Account string `json:"account"`
	Secret  string `json:"secret"`
	Digits  int    `json:"digits"`
	Algo    int    `json:"algo"`
	Period  uint64 `json:"period"`
	RawURL  string `json:"raw_url,omitempty"`
	Field   string `json:"field,omitempty"`
	Value   string `json:"value,omitempty"`
	AppDef  bool   `json:"application_changed_the_exported_defaults,omitempty"`
}

func urlRoundTrip(c c16Case) (obs, bad string) {
	if c.AppDef {
		// an application may assign the exported defaults: what a URL says and parses back to is still the input
		sh, st := *otp.DefaultHOTPParam, *otp.DefaultTOTPParam
		*otp.DefaultTOTPParam = otp.Param{Digits: otp.Digits(c.Digits), Period: uint(c.Period), Skew: 5, Algorithm: otp.Algorithm(c.Algo)}
		*otp.DefaultHOTPParam = otp.Param{Digits: otp.Digits(c.Digits), Period: uint(c.Period), Skew: 9, Algorithm: otp.Algorithm(c.Algo)}
		defer func() { *otp.DefaultHOTPParam, *otp.DefaultTOTPParam = sh, st }()
	}
	p := otp.URLParam{Issuer: c.Issuer, AccountName: c.Account, Secret: c.Secret, Digits: otp.Digits(c.Digits), Algorithm: otp.Algorithm(c.Algo), Period: uint(c.Period)}
	var u *url.URL
	var err error
	if pn := try(func() {
		if c.Kind == "totp" {
			u, err = otp.GenerateTOTPURL(p)
		} else {
			u, err = otp.GenerateHOTPURL(p)
		}
	}); pn != "" {
		return "panic:" + pn, "panicked: " + pn
	}
	if err != nil {
		return "generror|" + errStr(err), "generation failed for non-empty issuer/account/secret"
	}
	var text string
	if pn := try(func() { text = u.String() }); pn != "" {
		// the value handed out does not hold still (it shares memory with something that is written later)
		return "panic:" + pn, "turning the returned URL into text panicked: " + pn
	}
	obs = text
	if u.Scheme != "otpauth" || !strings.HasPrefix(text, "otpauth://"+c.Kind+"/") {
		return obs, "scheme/type: want otpauth://" + c.Kind + "/…"
	}
	pu, err := url.Parse(text)
	if err != nil {
		return obs, "generated URL text does not parse: " + errText(err)
	}
	var back *otp.URLParam
	if pn := try(func() { back, err = otp.ParseOTPAuthURL(pu) }); pn != "" {
		return obs + "|panic:" + pn, "parse panicked: " + pn
	}
	if err != nil || back == nil {
		return obs + "|" + errStr(err), "parsing the generated URL failed"
	}
	wantD := c.Digits
	if wantD == 0 {
		wantD = 6
	}
	wantP := c.Period
	if wantP == 0 {
		wantP = 30
	}
	obs += fmt.Sprintf(" => %q %q %q %d %d %d", back.Issuer, back.AccountName, back.Secret, back.Digits, back.Algorithm, back.Period)
	var diffs []string
	if back.Issuer != c.Issuer {
		diffs = append(diffs, fmt.Sprintf("issuer %q", back.Issuer))
	}
	if back.AccountName != c.Account {
		diffs = append(diffs, fmt.Sprintf("account %q", back.AccountName))
	}
	if back.Secret != c.Secret {
		diffs = append(diffs, fmt.Sprintf("secret %q", back.Secret))
	}
	if int(back.Digits) != wantD {
		diffs = append(diffs, fmt.Sprintf("digits %d", back.Digits))
	}
	if int(back.Algorithm) != c.Algo {
		diffs = append(diffs, fmt.Sprintf("algorithm %d", back.Algorithm))
	}
	if c.Kind == "totp" && uint64(back.Period) != wantP {
		diffs = append(diffs, fmt.Sprintf("period %d", back.Period))
	}
	if qi := pu.Query().Get("issuer"); qi != c.Issuer {
		diffs = append(diffs, fmt.Sprintf("issuer query parameter %q", qi))
	}
	if len(diffs) > 0 {
		return obs, "round trip differs: " + strings.Join(diffs, ", ")
	}
	return obs, ""
}

// parseOnly: a hand-written URL must fail or return exactly the number written in it.
func parseOnly(c c16Case) (obs, bad string) {
	pu, err := url.Parse(c.RawURL)
	if err != nil {
		return "unparsable", ""
	}
	var back *otp.URLParam
	if pn := try(func() { back, err = otp.ParseOTPAuthURL(pu) }); pn != "" {
		return "panic:" + pn, "panicked: " + pn
	}
	if err != nil {
		return "rejected|" + errText(err), ""
	}
	obs = fmt.Sprintf("accepted digits=%d period=%d issuer=%q account=%q", back.Digits, back.Period, back.Issuer, back.AccountName)
	if c.Field == "" || c.Value == "" {
		return obs, "" // an empty value writes no number: the documented default applies
	}
	// the number written
	n, ok := new(big.Int).SetString(strings.TrimPrefix(c.Value, "+"), 10)
	plain := c.Value != "" && strings.Trim(c.Value, "0123456789") == ""
	signed := len(c.Value) > 1 && (c.Value[0] == '+' || c.Value[0] == '-') && strings.Trim(c.Value[1:], "0123456789") == ""
	if !ok || !(plain || signed) {
		return obs, "non-numeric " + c.Field + " must be rejected"
	}
	var got uint64
	if c.Field == "digits" {
		got = uint64(back.Digits)
	} else {
		got = uint64(back.Period)
	}
	if n.Sign() < 0 || !n.IsUint64() || n.Uint64() != got {
		return obs, fmt.Sprintf("%s written as %s came back as %d (wrapped or truncated)", c.Field, c.Value, got)
	}
	return obs, ""
}

func c16(r *ev.Run) {
	r.Scenario("round-trip", func(raw []byte) (string, string) { return urlRoundTrip(unjson[c16Case](raw)) })
	r.Scenario("parse-only", func(raw []byte) (string, string) { return parseOnly(unjson[c16Case](raw)) })
	{
		var cs []c16Case
		for i, iss := range []string{"Example", "My Company", "a/b?c#d", "100%"} {
			for j, acc := range []string{"alice@example.com", "bob smith", "x:y"} {
				cs = append(cs, c16Case{Kind: []string{"totp", "hotp"}[(i+j)%2], Issuer: iss, Account: acc, Secret: "JBSWY3DPEHPK3PXP", Digits: []int{6, 8, 0, 10}[i], Algo: j, Period: []uint64{30, 60, 0}[j]})
			}
		}
		for _, per := range []uint64{60, 30, 0, 45} {
			for a := 0; a < 3; a++ {
				cs = append(cs, c16Case{Kind: []string{"totp", "hotp"}[a%2], Issuer: "Example", Account: "alice@example.com", Secret: "JBSWY3DPEHPK3PXP", Digits: []int{8, 6, 10}[a], Algo: a, Period: per, AppDef: true})
			}
		}
		afterWarmups(r, "round-trip-after-other-operations", cs, urlRoundTrip)
		var ps []c16Case
		for _, v := range []string{"6", "8", "10", "255", "256", "-1", "0x6", "06", "abc", "4294967302"} {
			ps = append(ps, c16Case{Kind: "parse", RawURL: "otpauth://totp/I:a?secret=JBSWY3DPEHPK3PXP&issuer=I&digits=" + v, Field: "digits", Value: v},
				c16Case{Kind: "parse", RawURL: "otpauth://totp/I:a?secret=JBSWY3DPEHPK3PXP&issuer=I&period=" + v, Field: "period", Value: v})
		}
		afterWarmups(r, "parse-only-after-other-operations", ps, parseOnly)
	}
	// retained URLs: a batch of URLs is generated first and only then turned into text and parsed back - a URL that has
	// been handed out must not change when later ones are generated (one goroutine, so a failure replays)
	batch := func(k int) []c16Case {
		var cs []c16Case
		for i := 0; i < 6; i++ {
			cs = append(cs, c16Case{Kind: []string{"totp", "hotp"}[(i+k)%2], Issuer: fmt.Sprintf("Issuer %d/%d", k, i), Account: fmt.Sprintf("user%d@example-%d.org", i, k), Secret: "JBSWY3DPEHPK3PXP", Digits: []int{6, 8, 10}[i%3], Algo: (i + k) % 3, Period: []uint64{30, 60}[i%2]})
		}
		return cs
	}
	retained := func(cs []c16Case) (obs, bad string) {
		emptySyncPools()
		var us []*url.URL
		for _, c := range cs {
			p := otp.URLParam{Issuer: c.Issuer, AccountName: c.Account, Secret: c.Secret, Digits: otp.Digits(c.Digits), Algorithm: otp.Algorithm(c.Algo), Period: uint(c.Period)}
			var u *url.URL
			var err error
			if c.Kind == "totp" {
				u, err = otp.GenerateTOTPURL(p)
			} else {
				u, err = otp.GenerateHOTPURL(p)
			}
			if err != nil {
				return "generror", "generation failed: " + errText(err)
			}
			us = append(us, u)
		}
		for i, u := range us {
			var text string
			if pn := try(func() { text = u.String() }); pn != "" {
				return obs, fmt.Sprintf("turning URL %d of the batch into text panicked: %s", i, pn)
			}
			obs += text + " "
			pu, err := url.Parse(text)
			if err != nil {
				return obs, fmt.Sprintf("URL %d of the batch no longer parses as a URL after the later ones were generated", i)
			}
			back, err := otp.ParseOTPAuthURL(pu)
			if err != nil || back == nil || back.Issuer != cs[i].Issuer || back.AccountName != cs[i].Account || back.Secret != cs[i].Secret {
				return obs, fmt.Sprintf("URL %d of the batch, turned into text after the later ones were generated, parses back as %+v, want issuer %q account %q", i, back, cs[i].Issuer, cs[i].Account)
			}
		}
		return obs, ""
	}
	r.Scenario("retained-urls", func(raw []byte) (string, string) { return retained(unjson[[]c16Case](raw)) })
	if ReplayOnly {
		return
	}
	for k := 0; k < 8; k++ {
		cs := batch(k)
		if obs, bad := retained(cs); bad != "" {
			r.Fail("retained-urls", bad, cs, "every URL of the batch round-trips", obs)
		}
		r.Eval(int64(len(cs)))
	}
	atoms := []string{"a", "Z", "0", " ", "%", "/", "?", "#", "&", "=", "+", "@", ".", "-", "_", "~", "\"", "<", "\\", "\t", "é", "日", "😀", "\xff", "%41", "%zz", "%2F", "%25", ";", ","}
	str := func(maxLen int, extra []string) []string {
		al := append(append([]string{}, atoms...), extra...)
		var out []string
		for _, a := range al {
			out = append(out, a)
		}
		if maxLen >= 2 {
			for _, a := range al {
				for _, b := range al {
					out = append(out, a+b)
				}
			}
		}
		return out
	}
	issuers2, accounts2 := str(2, nil), str(2, []string{":"})
	issuers1 := str(1, nil)
	issuers1 = append(issuers1, "My Company", "a%41/b?c#d", "100%", "/lead", "trail/", "a b+c", "Ünï cödé 日本", "x&issuer=evil", "..", ".", "a//b")
	// account names that look like the parts of a URL themselves (authority, scheme, port, path, query, fragment,
	// user-info), several colons, leading / trailing separators
	accounts2 = append(accounts2, "//fileserver:alice", "//10.0.0.7:8443/bob", "https://example.com:alice", "a://b:c", "x:y:z", "::", ":a", "a:", "//", "//:", "///", "a//b:c", "user@host:22", "mailto:x@y",
		"c:\\users\\bob", "a?b=c:d", "a#b:c", "[::1]:8080", "%3A:%3A", "a:%2F%2Fb", "..:..", "./a:b", "alice:", "alice: bob", " : ", "a:b@c:d")
	var issuers, accounts []string
	if r.Thorough() {
		issuers, accounts = append(issuers2, issuers1...), accounts2
	} else {
		issuers, accounts = issuers1, accounts2
	}
	r.Set("issuers", len(issuers))
	r.Set("accounts", len(accounts))
	secrets := []string{"JBSWY3DPEHPK3PXP", "MZXW6YQ=", "JBSW Y3DP", "A&x=y", "s+e/c=r#t%"}
	type pv struct {
		d, a int
		p    uint64
	}
	params := []pv{{0, 0, 0}, {6, 0, 30}, {8, 1, 1}, {1, 2, 1 << 31}, {255, 0, 60}, {10, 2, 29}}
	ev.Par(len(issuers), func(i int) {
		var local int64
		is := issuers[i]
		for j, ac := range accounts {
			for k, kind := range []string{"totp", "hotp"} {
				pp := params[(i+j+k)%len(params)]
				c := c16Case{Kind: kind, Issuer: is, Account: ac, Secret: secrets[(i+j)%len(secrets)], Digits: pp.d, Algo: pp.a, Period: pp.p}
				obs, bad := urlRoundTrip(c)
				local++
				if bad != "" {
					r.Fail("round-trip", fmt.Sprintf("issuer=%q account=%q: %s", is, ac, bad), c, bad, obs)
				}
				if j < 40 {
					r.DistinctS(obs)
				}
			}
		}
		r.Eval(local)
	})
	// full parameter product on a few labels
	var n2 int64
	for _, is := range []string{"Example", "My Company", "a/b"} {
		for _, ac := range []string{"alice@example.com", "bob smith", "x:y"} {
			for _, sec := range secrets {
				for _, d := range []int{0, 1, 6, 8, 10, 255} {
					for a := 0; a < 3; a++ {
						for _, p := range []uint64{0, 1, 30, 1 << 31} {
							for _, kind := range []string{"totp", "hotp"} {
								c := c16Case{Kind: kind, Issuer: is, Account: ac, Secret: sec, Digits: d, Algo: a, Period: p}
								obs, bad := urlRoundTrip(c)
								n2++
								if bad != "" {
									r.Fail("round-trip", fmt.Sprintf("params digits=%d algo=%d period=%d: %s", d, a, p, bad), c, bad, obs)
								}
							}
						}
					}
				}
			}
		}
	}
	// parse-only clause
	nums := []string{"-9223372036854775808", "-1", "0", "1", "6", "255", "256", "262", "65536", "2147483648", "4294967296", "4294967302", "9223372036854775807", "9223372036854775808", "18446744073709551622", "abc", "6 ", " 6", "+6", "0x6", "६", "6.0", "1e1", "", "-0", "007"}
	for _, v := range nums {
		for _, f := range []string{"digits", "period"} {
			for _, ty := range []string{"totp", "hotp", "TOTP", "Totp", "hOtP"} {
				c := c16Case{Kind: "parse", Field: f, Value: v, RawURL: "otpauth://" + ty + "/Iss:acc?secret=JBSWY3DPEHPK3PXP&" + f + "=" + url.QueryEscape(v)}
				obs, bad := parseOnly(c)
				n2++
				if bad != "" {
					r.Fail("parse-only", fmt.Sprintf("%s=%q: %s", f, v, bad), c, bad, obs)
				}
				r.DistinctS(f + v + obs)
			}
		}
	}
	// single-character sweep: every 7-bit byte (controls included) and a few Unicode blanks / marks, placed in front of,
	// inside and behind a plain issuer, account and secret (a secret read from a file ends in "\n"; a pasted one starts
	// with a no-break space)
	{
		var sn int64
		var chars []string
		for b := 0; b < 128; b++ {
			chars = append(chars, string(rune(b)))
		}
		chars = append(chars, "\u0085", "\u00a0", "\u2028", "\u2029", "\u3000", "\ufeff", "\u200b", "\u00e9", "\r\n", "\xff", "\xc3")
		for ci, ch := range chars {
			for pos := 0; pos < 3; pos++ {
				put := func(base string) string {
					switch pos {
					case 0:
						return ch + base
					case 1:
						return base[:len(base)/2] + ch + base[len(base)/2:]
					}
					return base + ch
				}
				for field := 0; field < 3; field++ {
					c := c16Case{Kind: []string{"totp", "hotp"}[(ci+pos+field)%2], Issuer: "Example", Account: "alice", Secret: []string{"JBSWY3DPEHPK3PXP", "MZXW6YQ=", "mzxw6ytboi"}[(ci+pos)%3], Digits: 6, Algo: ci % 3, Period: 30}
					switch field {
					case 0:
						if ch == ":" {
							continue
						}
						c.Issuer = put(c.Issuer)
					case 1:
						c.Account = put(c.Account)
					case 2:
						c.Secret = put(c.Secret)
					}
					obs, bad := urlRoundTrip(c)
					sn++
					if bad != "" {
						r.Fail("round-trip", fmt.Sprintf("character %q at position %d of field %d (0 issuer, 1 account, 2 secret): %s", ch, pos, field, bad), c, bad, obs)
					}
				}
			}
		}
		n2 += sn
		r.Set("single_character_sweep", map[string]any{"cases": sn, "characters": len(chars), "positions": "front, middle, end", "fields": "issuer (no colon), account, secret"})
	}
	// label length sweep: every total length len(issuer)+len(account) = 2..300 in three splits and three kinds of
	// characters (1-, 2- and 3-byte), and secrets of every length 1..130 (fixed-size buffers, length prefixes)
	{
		var ln int64
		for total := 2; total <= 300; total++ {
			for _, split := range []int{1, total / 2, total - 1} {
				for ci, ch := range []string{"a", "\u00e9", "\u20ac"} {
					iss, acc := strings.Repeat(ch, split), strings.Repeat(ch, total-split)
					c := c16Case{Kind: []string{"totp", "hotp"}[(total+ci)%2], Issuer: iss, Account: acc, Secret: "JBSWY3DPEHPK3PXP", Digits: 6 + 2*(total%2), Algo: total % 3, Period: uint64(30 + total%2*30)}
					obs, bad := urlRoundTrip(c)
					ln++
					if bad != "" {
						r.Fail("round-trip", fmt.Sprintf("label length sweep issuer %d + account %d characters of %d byte(s): %s", split, total-split, len(ch), bad), c, bad, obs)
					}
				}
			}
		}
		for n := 1; n <= 130; n++ {
			c := c16Case{Kind: []string{"totp", "hotp"}[n%2], Issuer: "Iss", Account: "acc", Secret: ref.B32Encode(patt(n, byte(n))), Digits: 6, Algo: n % 3, Period: 30}
			obs, bad := urlRoundTrip(c)
			ln++
			if bad != "" {
				r.Fail("round-trip", fmt.Sprintf("secret length sweep %d bytes: %s", n, bad), c, bad, obs)
			}
		}
		r.Eval(ln)
		r.Set("label_and_secret_length_sweep", ln)
	}
	// dense sweep: EVERY value 0..70000 and the 300 values around each power of two up to 2^64, as digits and as
	// period (an overflow test that misses some wraps accepts only some of the values beyond the field's range)
	{
		var vals []string
		for v := 0; v <= 70000; v++ {
			vals = append(vals, strconv.Itoa(v))
		}
		for k := uint(17); k <= 64; k++ {
			base := new(big.Int).Lsh(big.NewInt(1), k)
			for d := int64(-150); d < 150; d++ {
				vals = append(vals, new(big.Int).Add(base, big.NewInt(d)).String())
			}
		}
		for _, f := range []string{"digits", "period"} {
			for i, v := range vals {
				c := c16Case{Kind: "parse", Field: f, Value: v, RawURL: "otpauth://" + []string{"totp", "hotp"}[i%2] + "/Iss:acc?secret=JBSWY3DPEHPK3PXP&" + f + "=" + v}
				obs, bad := parseOnly(c)
				n2++
				if bad != "" {
					r.Fail("parse-only", fmt.Sprintf("sweep %s=%q: %s", f, v, bad), c, bad, obs)
					break
				}
			}
		}
		r.Set("parse_only_dense_sweep", map[string]any{"values_per_field": len(vals), "range": "0..70000 and 2^k-150..2^k+149 for k = 17..64"})
	}
	for _, raw := range []string{"otpauth://totp/", "otpauth://totp", "otpauth://totp/Iss", "otpauth://xotp/I:a?secret=A", "http://totp/I:a?secret=A", "otpauth:///I:a", "otpauth://totp/I:a", "otpauth://totp/I:a?algorithm=md5", "otpauth://totp/I:a?algorithm=sha256", "otpauth://totp/%zz", "otpauth://totp/I%3Aa?secret=A", "otpauth://totp/I:a:b?secret=A"} {
		c := c16Case{Kind: "parse", RawURL: raw}
		obs, bad := parseOnly(c)
		n2++
		if bad != "" {
			r.Fail("parse-only", raw, c, bad, obs)
		}
	}
	var nilObs string
	if pn := try(func() { _, err := otp.ParseOTPAuthURL(nil); nilObs = errStr(err) }); pn != "" || nilObs == "<nil>" {
		r.Fail("parse-only", "nil URL", c16Case{Kind: "parse"}, "an error", pn+nilObs)
	}
	r.Eval(n2)
	r.Sample(c16Case{Kind: "totp", Issuer: "My Company", Account: "alice@example.com", Secret: "JBSWY3DPEHPK3PXP", Digits: 0, Algo: 0, Period: 0})
	r.Sample(c16Case{Kind: "parse", Field: "digits", Value: "262", RawURL: "otpauth://totp/Iss:acc?secret=JBSWY3DPEHPK3PXP&digits=262"})
	r.Set("alphabet", map[string]any{"atoms": atoms, "issuer": "all strings of length 1 (thorough: 1..2) over the atoms + realistic names", "account": "all strings of length 1..2 over the atoms and ':'", "secrets": secrets, "params": params, "parse-only numbers": nums})
	r.Rule("every (issuer, account) pair of the alphabet x rotating (secret, digits, hash, period) x both types: ParseOTPAuthURL(url.Parse(Generate*URL(p).String())) must equal p after the documented defaulting, label issuer == issuer query parameter; hand-written URLs with every listed number in digits/period and every letter case of the type must fail or return exactly the number written; distinct = distinct generated URL texts / parse outcomes")
	r.Assume("net/url of the Go standard library; issuers without ':' as the property states")
}
