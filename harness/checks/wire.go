//go:build instr

package checks

import (
	"bufio"
	"fmt"
	"io"
	"net"
	"net/http"
	"sort"
	"strings"
	"time"
)

// wireConn is a hand-driven HTTP/1.1 client connection: requests are written byte for byte and the
// responses are read in order, so what a persistent (or pipelined) connection really carries is observed.
// net/http's client hides exactly that (it drops a connection that shows unsolicited bytes).
type wireConn struct {
	c  net.Conn
	br *bufio.Reader
}

func dialWire(addr string) (*wireConn, error) {
	c, err := net.DialTimeout("tcp", addr, 5*time.Second)
	if err != nil {
		return nil, err
	}
	return &wireConn{c, bufio.NewReader(c)}, nil
}

func wireBytes(q rreq) []byte {
	b := q.body()
	var sb strings.Builder
	fmt.Fprintf(&sb, "%s %s HTTP/1.1\r\nHost: verif\r\n", q.Method, q.uri())
	if b != nil {
		fmt.Fprintf(&sb, "Content-Type: application/json\r\nContent-Length: %d\r\n", len(b))
	}
	var hk []string
	for k := range q.Headers {
		hk = append(hk, k)
	}
	sort.Strings(hk)
	for _, k := range hk {
		fmt.Fprintf(&sb, "%s: %s\r\n", k, q.Headers[k])
	}
	sb.WriteString("\r\n")
	return append([]byte(sb.String()), b...)
}

func (w *wireConn) send(q rreq) error {
	w.c.SetWriteDeadline(time.Now().Add(10 * time.Second))
	_, err := w.c.Write(wireBytes(q))
	return err
}

// recv reads one response; closed reports that the server announced or performed a close.
func (w *wireConn) recv(method string) (resp restResp, closed bool, err error) {
	w.c.SetReadDeadline(time.Now().Add(10 * time.Second))
	hr, err := http.ReadResponse(w.br, &http.Request{Method: method})
	if err != nil {
		return restResp{}, true, err
	}
	b, err := io.ReadAll(hr.Body)
	hr.Body.Close()
	return restResp{hr.StatusCode, hr.Header.Get("Content-Type"), string(b)}, hr.Close, err
}

func (w *wireConn) close() {
	if w != nil {
		w.c.Close()
	}
}

// wireFault is a request a server may refuse without looking at its body, carrying a body of a given size.
type wireFault struct {
	Name string `json:"name"`
	Req  rreq   `json:"request"`
	// Proto (when set) names bytes that are no well-formed request of the service's size at all (see protoBytes):
	// the server may answer them or just close; what counts is that the probes that follow are answered.
	Proto string `json:"protocol_level,omitempty"`
	N     int    `json:"n,omitempty"`
}

// protoKinds: what a client can send that the server refuses before any handler runs.
var protoKinds = []string{"long-path", "long-query", "long-header", "many-headers", "declared-body-over-limit", "sent-body-over-limit",
	"no-version", "bad-version", "empty-method", "bare-lf-garbage", "binary-garbage", "negative-length", "non-numeric-length",
	"two-lengths", "bad-chunk", "space-in-path", "no-host-http10", "expect-continue-over-limit", "header-without-colon", "only-crlf"}

func protoBytes(kind string, n int) []byte {
	switch kind {
	case "long-path":
		return []byte("GET /" + strings.Repeat("a", n) + " HTTP/1.1\r\nHost: verif\r\n\r\n")
	case "long-query":
		return []byte("POST /otp/secret?" + strings.Repeat("q=1&", n/4) + " HTTP/1.1\r\nHost: verif\r\nContent-Length: 0\r\n\r\n")
	case "long-header":
		return []byte("GET / HTTP/1.1\r\nHost: verif\r\nX-Pad: " + strings.Repeat("h", n) + "\r\n\r\n")
	case "many-headers":
		return []byte("GET / HTTP/1.1\r\nHost: verif\r\n" + strings.Repeat("X-A: b\r\n", n/8) + "\r\n")
	case "declared-body-over-limit":
		return []byte(fmt.Sprintf("POST /hotp/generate HTTP/1.1\r\nHost: verif\r\nContent-Type: application/json\r\nContent-Length: %d\r\n\r\n{}", 1<<20+n))
	case "sent-body-over-limit":
		return []byte(fmt.Sprintf("POST /hotp/generate HTTP/1.1\r\nHost: verif\r\nContent-Type: application/json\r\nContent-Length: %d\r\n\r\n", 1<<20+n) + strings.Repeat(" ", 1<<20+n))
	case "no-version":
		return []byte("GET /\r\n\r\n")
	case "bad-version":
		return []byte("GET / HTTP/9.9\r\nHost: verif\r\n\r\n")
	case "empty-method":
		return []byte(" / HTTP/1.1\r\nHost: verif\r\n\r\n")
	case "bare-lf-garbage":
		return []byte(strings.Repeat("garbage\n", 1+n/8) + "\n")
	case "binary-garbage":
		b := make([]byte, 64+n)
		for i := range b {
			b[i] = byte(i*37 + 1)
		}
		return append(b, "\r\n\r\n"...)
	case "negative-length":
		return []byte("POST /hotp/generate HTTP/1.1\r\nHost: verif\r\nContent-Length: -5\r\n\r\n{}")
	case "non-numeric-length":
		return []byte("POST /hotp/generate HTTP/1.1\r\nHost: verif\r\nContent-Length: 0x10\r\n\r\n{}")
	case "two-lengths":
		return []byte("POST /hotp/generate HTTP/1.1\r\nHost: verif\r\nContent-Length: 2\r\nContent-Length: 99999999999999999999\r\n\r\n{}")
	case "bad-chunk":
		return []byte("POST /hotp/generate HTTP/1.1\r\nHost: verif\r\nTransfer-Encoding: chunked\r\n\r\nzz\r\n{}\r\n0\r\n\r\n")
	case "space-in-path":
		return []byte("GET /a b c HTTP/1.1\r\nHost: verif\r\n\r\n")
	case "no-host-http10":
		return []byte("GET / HTTP/1.0\r\n\r\n")
	case "expect-continue-over-limit":
		return []byte(fmt.Sprintf("POST /hotp/generate HTTP/1.1\r\nHost: verif\r\nExpect: 100-continue\r\nContent-Length: %d\r\n\r\n", 1<<20+n))
	case "header-without-colon":
		return []byte("GET / HTTP/1.1\r\nHost verif\r\nnonsense\r\n\r\n")
	case "only-crlf":
		return []byte(strings.Repeat("\r\n", 1+n))
	}
	panic("unknown protocol-level kind " + kind)
}

func protoFaults() []wireFault {
	var out []wireFault
	for _, k := range protoKinds {
		for _, n := range []int{1, 4000, 8100, 8192, 9000, 70000} {
			out = append(out, wireFault{Name: fmt.Sprintf("protocol level: %s (n=%d)", k, n), Proto: k, N: n, Req: rreq{Method: "GET", Path: "/"}})
		}
	}
	return out
}

type wireCase struct {
	Fault     wireFault `json:"fault"`
	Probe     int       `json:"probe"`
	Pipelined bool      `json:"pipelined"`
}

func wireFaults() []wireFault {
	var out []wireFault
	good := bodyOf(validBody("/hotp/generate"))
	for _, n := range []int{0, 100, 4095, 4096, 4097, 8191, 8192, 8193, 9000, 16384, 70000, 300000, 1<<20 - 4096} {
		contents := map[string]string{
			"letters": strings.Repeat("A", n),
			"blanks":  strings.Repeat(" ", n),
		}
		if n > 8300 {
			// the tail looks like a request of its own
			tail := "GET / HTTP/1.1\r\nHost: verif\r\n\r\n"
			contents["embedded-request"] = strings.Repeat(" ", n-len(tail)) + tail
			tail2 := "POST /otp/secret HTTP/1.1\r\nHost: verif\r\nContent-Length: 0\r\n\r\n"
			contents["embedded-post"] = strings.Repeat(" ", 8192) + tail2 + strings.Repeat(" ", n-8192-len(tail2))
		}
		if n >= len(good) {
			contents["valid-json-padded"] = good + strings.Repeat(" ", n-len(good))
		}
		for cn, body := range contents {
			for _, r := range [][2]string{{"PUT", "/hotp/generate"}, {"GET", "/totp/validate"}, {"DELETE", "/ocra/generate"}, {"POST", "/ocra/suites"}, {"POST", "/"}, {"POST", "/nope"}, {"PATCH", "/otp/url"}, {"POST", "/docs/index.html"}, {"POST", "/hotp/generate"}, {"POST", "/otp/secret"}} {
				if n == 0 && cn != "letters" {
					continue
				}
				out = append(out, wireFault{Name: fmt.Sprintf("%s %s with a %d-byte body (%s)", r[0], r[1], n, cn), Req: rawReq(r[0], r[1], body)})
			}
		}
	}
	return out
}

// wireRun: fault, then probes on the SAME connection (unless the server closes it, which is a complete
// refusal: the probe then goes over a new connection).  Pipelined: fault and probe are written back to back
// before anything is read.  Every probe must be answered exactly as the reference says.
func wireRun(addr string, c wireCase) (obs, bad string) {
	pr := probes()
	q := pr[c.Probe%len(pr)]
	w, err := dialWire(addr)
	if err != nil {
		return "", "" // no server: not this check's finding
	}
	defer func() { w.close() }()
	now0 := time.Now().Unix()
	if c.Fault.Proto != "" {
		return wireProto(addr, w, c, q)
	}
	if err := w.send(c.Fault.Req); err != nil {
		return "write failed", "" // the server closed while we were still writing a refused request: a refusal
	}
	if c.Pipelined {
		if err := w.send(q); err != nil {
			return "write failed", ""
		}
	}
	r1, closed, err := w.recv(c.Fault.Req.Method)
	if err != nil {
		// no response at all to the first request: acceptable only as a connection-level refusal of an oversized body
		if len(c.Fault.Req.body()) > 1<<20-8192 {
			closed = true
		} else {
			return "no response", fmt.Sprintf("no complete response to the first request (%v)", err)
		}
	}
	obs = fmt.Sprint(r1.Status)
	for k := 0; k < 2; k++ {
		if closed {
			w.close()
			if w, err = dialWire(addr); err != nil {
				return obs, "the service stopped accepting connections: " + strings.ReplaceAll(err.Error(), addr, "<server>")
			}
			closed = false
			if err := w.send(q); err != nil {
				return obs, "probe could not be written on a new connection: " + err.Error()
			}
		} else if !(c.Pipelined && k == 0) {
			if err := w.send(q); err != nil {
				return obs, "probe could not be written on the kept-alive connection: " + err.Error()
			}
		}
		var p restResp
		p, closed, err = w.recv(q.Method)
		if err != nil {
			return obs, fmt.Sprintf("probe %d after the refused request got no complete response on the same connection (%v)", k, err)
		}
		obs += fmt.Sprint(" ", p.Status)
		if d := compareResp(q, restExpect(q, now0, time.Now().Unix()), p, nil); d != "" {
			return obs, fmt.Sprintf("probe %d after the refused request is answered wrongly on the same connection: %s (status %d, body %s)", k, d, p.Status, trunc80(p.Body))
		}
	}
	return obs, ""
}

// wireProto: bytes the server refuses before any handler runs.  Whatever it does with that connection (answer,
// answer and close, just close) is recorded but not judged, except that it must do it within the guard; the
// probes that follow - on the same connection if it was kept open after a complete response, else on a new one -
// must be answered exactly as the reference says.
func wireProto(addr string, w *wireConn, c wireCase, q rreq) (obs, bad string) {
	defer func() { w.close() }()
	w.c.SetWriteDeadline(time.Now().Add(10 * time.Second))
	_, werr := w.c.Write(protoBytes(c.Fault.Proto, c.Fault.N))
	closed := true
	if werr == nil {
		r1, cl, err := w.recv("GET")
		if err == nil {
			obs, closed = fmt.Sprint(r1.Status), cl
			if r1.Status >= 200 && r1.Status < 300 && c.Fault.Proto != "no-host-http10" && c.Fault.Proto != "only-crlf" && c.Fault.Proto != "long-query" {
				// informational only: kinds the server may legitimately read as a request are excluded
				obs += "(accepted)"
			}
		} else if ne, ok := err.(net.Error); ok && ne.Timeout() {
			return "timeout", "the server neither answered nor closed within 10 s (i/o timeout)"
		} else {
			obs = "closed"
		}
	} else {
		obs = "write failed"
	}
	// a connection that got a response but was not announced closed may still carry left-over bytes of the
	// refused text; a well-formed probe is only owed an answer on a NEW connection, which is what we use
	_ = closed
	for k := 0; k < 2; k++ {
		w.close()
		var err error
		if w, err = dialWire(addr); err != nil {
			return obs, "the service stopped accepting connections: " + strings.ReplaceAll(err.Error(), addr, "<server>")
		}
		now0 := time.Now().Unix()
		if err := w.send(q); err != nil {
			return obs, "probe could not be written on a new connection: " + err.Error()
		}
		p, _, err := w.recv(q.Method)
		if err != nil {
			return obs, fmt.Sprintf("probe %d after the refused bytes got no complete response on a new connection (%v)", k, err)
		}
		obs += fmt.Sprint(" ", p.Status)
		if d := compareResp(q, restExpect(q, now0, time.Now().Unix()), p, nil); d != "" {
			return obs, fmt.Sprintf("probe %d after the refused bytes is answered wrongly: %s (status %d, body %s)", k, d, p.Status, trunc80(p.Body))
		}
	}
	return obs, ""
}
