//go:build instr

package checks

import (
	"bufio"
	"fmt"
	"io"
	"net"
	"net/http"
	"strings"
	"time"
)

// wireConn is a hand-driven HTTP/1.1 client connection: requests are written byte for byte and the
// responses are read in order, so what a persistent (or pipelined) connection really carries is observed.
// net/http's client hides exactly that (it drops a connection that shows unsolicited bytes).
type wireConn struct {
	c  net.Conn
	br *bufio.Reader
}

func dialWire(addr string) (*wireConn, error) {
	c, err := net.DialTimeout("tcp", addr, 5*time.Second)
	if err != nil {
		return nil, err
	}
	return &wireConn{c, bufio.NewReader(c)}, nil
}

func wireBytes(q rreq) []byte {
	b := q.body()
	var sb strings.Builder
	fmt.Fprintf(&sb, "%s %s HTTP/1.1\r\nHost: verif\r\n", q.Method, q.uri())
	if b != nil {
		fmt.Fprintf(&sb, "Content-Type: application/json\r\nContent-Length: %d\r\n", len(b))
	}
	sb.WriteString("\r\n")
	return append([]byte(sb.String()), b...)
}

func (w *wireConn) send(q rreq) error {
	w.c.SetWriteDeadline(time.Now().Add(10 * time.Second))
	_, err := w.c.Write(wireBytes(q))
	return err
}

// recv reads one response; closed reports that the server announced or performed a close.
func (w *wireConn) recv(method string) (resp restResp, closed bool, err error) {
	w.c.SetReadDeadline(time.Now().Add(10 * time.Second))
	hr, err := http.ReadResponse(w.br, &http.Request{Method: method})
	if err != nil {
		return restResp{}, true, err
	}
	b, err := io.ReadAll(hr.Body)
	hr.Body.Close()
	return restResp{hr.StatusCode, hr.Header.Get("Content-Type"), string(b)}, hr.Close, err
}

func (w *wireConn) close() { w.c.Close() }

// wireFault is a request a server may refuse without looking at its body, carrying a body of a given size.
type wireFault struct {
	Name string `json:"name"`
	Req  rreq   `json:"request"`
}

type wireCase struct {
	Fault     wireFault `json:"fault"`
	Probe     int       `json:"probe"`
	Pipelined bool      `json:"pipelined"`
}

func wireFaults() []wireFault {
	var out []wireFault
	good := bodyOf(validBody("/hotp/generate"))
	for _, n := range []int{0, 100, 4095, 4096, 4097, 8191, 8192, 8193, 9000, 16384, 70000, 300000, 1<<20 - 4096} {
		contents := map[string]string{
			"letters": strings.Repeat("A", n),
			"blanks":  strings.Repeat(" ", n),
		}
		if n > 8300 {
			// the tail looks like a request of its own
			tail := "GET / HTTP/1.1\r\nHost: verif\r\n\r\n"
			contents["embedded-request"] = strings.Repeat(" ", n-len(tail)) + tail
			tail2 := "POST /otp/secret HTTP/1.1\r\nHost: verif\r\nContent-Length: 0\r\n\r\n"
			contents["embedded-post"] = strings.Repeat(" ", 8192) + tail2 + strings.Repeat(" ", n-8192-len(tail2))
		}
		if n >= len(good) {
			contents["valid-json-padded"] = good + strings.Repeat(" ", n-len(good))
		}
		for cn, body := range contents {
			for _, r := range [][2]string{{"PUT", "/hotp/generate"}, {"GET", "/totp/validate"}, {"DELETE", "/ocra/generate"}, {"POST", "/ocra/suites"}, {"POST", "/"}, {"POST", "/nope"}, {"PATCH", "/otp/url"}, {"POST", "/docs/index.html"}, {"POST", "/hotp/generate"}, {"POST", "/otp/secret"}} {
				if n == 0 && cn != "letters" {
					continue
				}
				out = append(out, wireFault{fmt.Sprintf("%s %s with a %d-byte body (%s)", r[0], r[1], n, cn), rawReq(r[0], r[1], body)})
			}
		}
	}
	return out
}

// wireRun: fault, then probes on the SAME connection (unless the server closes it, which is a complete
// refusal: the probe then goes over a new connection).  Pipelined: fault and probe are written back to back
// before anything is read.  Every probe must be answered exactly as the reference says.
func wireRun(addr string, c wireCase) (obs, bad string) {
	pr := probes()
	q := pr[c.Probe%len(pr)]
	w, err := dialWire(addr)
	if err != nil {
		return "", "" // no server: not this check's finding
	}
	defer func() { w.close() }()
	now0 := time.Now().Unix()
	if err := w.send(c.Fault.Req); err != nil {
		return "write failed", "" // the server closed while we were still writing a refused request: a refusal
	}
	if c.Pipelined {
		if err := w.send(q); err != nil {
			return "write failed", ""
		}
	}
	r1, closed, err := w.recv(c.Fault.Req.Method)
	if err != nil {
		// no response at all to the first request: acceptable only as a connection-level refusal of an oversized body
		if len(c.Fault.Req.body()) > 1<<20-8192 {
			closed = true
		} else {
			return "no response", fmt.Sprintf("no complete response to the first request (%v)", err)
		}
	}
	obs = fmt.Sprint(r1.Status)
	for k := 0; k < 2; k++ {
		if closed {
			w.close()
			if w, err = dialWire(addr); err != nil {
				return obs, "the service stopped accepting connections: " + err.Error()
			}
			closed = false
			if err := w.send(q); err != nil {
				return obs, "probe could not be written on a new connection: " + err.Error()
			}
		} else if !(c.Pipelined && k == 0) {
			if err := w.send(q); err != nil {
				return obs, "probe could not be written on the kept-alive connection: " + err.Error()
			}
		}
		var p restResp
		p, closed, err = w.recv(q.Method)
		if err != nil {
			return obs, fmt.Sprintf("probe %d after the refused request got no complete response on the same connection (%v)", k, err)
		}
		obs += fmt.Sprint(" ", p.Status)
		if d := compareResp(q, restExpect(q, now0, time.Now().Unix()), p, nil); d != "" {
			return obs, fmt.Sprintf("probe %d after the refused request is answered wrongly on the same connection: %s (status %d, body %s)", k, d, p.Status, trunc80(p.Body))
		}
	}
	return obs, ""
}
