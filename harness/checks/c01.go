package checks

import (
	"fmt"
	"hash"
	"runtime"
	"strings"
	"sync"

	"github.com/ja7ad/otp"
	"github.com/ja7ad/otp/verifharness/ev"
	"github.com/ja7ad/otp/verifharness/ref"
)

func init() { register("C01", "exploration", c01) }

type c01Case struct {
	Secret  string `json:"secret"`
	Counter uint64 `json:"counter"`
	Digits  int    `json:"digits"`
	Algo    int    `json:"algo"`
	Nil     bool   `json:"nil_param"`
	Skew    uint64 `json:"skew,omitempty"` // fields HOTP generation does not use: must not matter
	Period  uint64 `json:"period,omitempty"`
	AppDef  int    `json:"application_assigned_defaults,omitempty"` // k > 0: the exported defaults hold variant k while the call runs
}

// hotpE2E evaluates one end-to-end case; key is the decoded key the reference uses.
// c01Defaults: what an application may have assigned to the exported defaults (HOTP default, TOTP default).
var c01Defaults = [][2]otp.Param{
	{{Digits: 8, Algorithm: otp.SHA256}, {Digits: 7, Algorithm: otp.SHA512, Period: 60, Skew: 3}},
	{{Digits: 10, Algorithm: otp.SHA512, Skew: 4}, {Digits: 6, Algorithm: otp.SHA1, Period: 30}},
	{{Digits: 6, Algorithm: otp.SHA1}, {Digits: 9, Algorithm: otp.SHA256, Period: 1}},
}

func hotpE2E(c c01Case, key []byte) (obs, bad string) {
	if c.AppDef > 0 {
		// a nil Param means the HOTP default as the application has set it - not the TOTP default, not the stock values
		sh, st := *otp.DefaultHOTPParam, *otp.DefaultTOTPParam
		v := c01Defaults[(c.AppDef-1)%len(c01Defaults)]
		*otp.DefaultHOTPParam, *otp.DefaultTOTPParam = v[0], v[1]
		defer func() { *otp.DefaultHOTPParam, *otp.DefaultTOTPParam = sh, st }()
	}
	var code string
	var err error
	p := try(func() {
		if c.Nil {
			code, err = otp.GenerateHOTP(c.Secret, c.Counter, nil)
		} else {
			code, err = otp.GenerateHOTP(c.Secret, c.Counter, &otp.Param{Digits: otp.Digits(c.Digits), Algorithm: otp.Algorithm(c.Algo), Skew: uint(c.Skew), Period: uint(c.Period)})
		}
	})
	if p != "" {
		return "panic:" + p, "panicked: " + p
	}
	obs = code + "|" + errStr(err)
	d, a := c.Digits, c.Algo
	if c.Nil {
		d, a = 6, 0
		if c.AppDef > 0 {
			v := c01Defaults[(c.AppDef-1)%len(c01Defaults)][0]
			d, a = int(v.Digits), int(v.Algorithm)
		}
	}
	if !ref.HOTPSupported(d, a) {
		if err == nil || code != "" {
			return obs, "unsupported digits/hash must give (\"\", error)"
		}
		return obs, ""
	}
	want := ref.HOTP(key, c.Counter, d, a)
	if err != nil || code != want {
		return obs, "want " + want
	}
	return obs, ""
}

type c01L1 struct {
	Window uint32 `json:"window"`
	Digits int    `json:"digits"`
	SumLen int    `json:"sum_len"`
	Offset int    `json:"offset"`
}

func markerSum(n, off int, w uint32, hiNib byte) []byte {
	s := make([]byte, n)
	for i := range s {
		s[i] = byte(0x40 + i) // pairwise distinct marker bytes
	}
	s[off], s[off+1], s[off+2], s[off+3] = byte(w>>24), byte(w>>16), byte(w>>8), byte(w)
	if off+3 < n-1 {
		s[n-1] = hiNib<<4 | byte(off)
	} else {
		// window overlaps the last byte (only possible for n=20, off=16 - never: off<=15, 15+3=18<19)
		s[n-1] = s[n-1]&0xf0 | byte(off)
	}
	return s
}

// composeL1 runs the truncation/format stage exactly as deriveRFC4226 composes it.
func composeL1(sum []byte, d int, mod []uint64) string {
	v := otp.VerifTruncate(sum, mod[d])
	if d <= 8 {
		return otp.VerifShortDigit(v, d)
	}
	return otp.VerifLongDigit(v, d)
}

type fakeHash struct{ sum []byte }

func (f *fakeHash) Write(p []byte) (int, error) { return len(p), nil }
func (f *fakeHash) Sum(b []byte) []byte         { return append(b, f.sum...) }
func (f *fakeHash) Reset()                      {}
func (f *fakeHash) Size() int                   { return len(f.sum) }
func (f *fakeHash) BlockSize() int              { return 64 }

var _ hash.Hash = (*fakeHash)(nil)

func c01Windows() []uint32 {
	var ws []uint32
	seen := map[uint32]bool{}
	add := func(v uint32) {
		if !seen[v] {
			seen[v] = true
			ws = append(ws, v)
		}
	}
	for v := uint32(0); v < 1<<12; v++ {
		add(v)
	}
	p := uint64(10)
	for k := 1; k <= 9; k++ {
		for d := int64(-40); d <= 40; d++ {
			x := int64(p) + d
			if x >= 0 && x < 1<<31 {
				add(uint32(x))
			}
		}
		p *= 10
	}
	for v := uint32(1<<31 - 64); v < 1<<31; v++ {
		add(v)
	}
	for _, v := range []uint32{2000000000, 2147483647, 1284755224, 1000000007, 100000, 99999, 7, 70, 700} {
		add(v)
	}
	n := len(ws)
	for i := 0; i < n; i += 3 {
		add(ws[i] | 1<<31) // top bit of the window set: must be masked off
	}
	return ws
}

func c01(r *ev.Run) {
	mod := otp.VerifMod10()
	r.Scenario("e2e", func(raw []byte) (string, string) {
		c := unjson[c01Case](raw)
		v, key := ref.B32Classify(c.Secret)
		if v != ref.MustAccept {
			return "", ""
		}
		return hotpE2E(c, key)
	})
	l1 := func(c c01L1) (string, string) {
		sum := markerSum(c.SumLen, c.Offset, c.Window, 0xA)
		var got string
		if p := try(func() { got = composeL1(sum, c.Digits, otp.VerifMod10()) }); p != "" {
			return "panic:" + p, "panicked"
		}
		want := ref.Format(ref.DT31(sum), c.Digits)
		if got != want {
			return got, "want " + want
		}
		return got, ""
	}
	r.Scenario("truncate-format", func(raw []byte) (string, string) { return l1(unjson[c01L1](raw)) })
	l2 := func(c c01L1) (string, string) {
		sum := markerSum(c.SumLen, c.Offset, c.Window, 0x5)
		algo := map[int]int{20: 0, 32: 1, 64: 2}[c.SumLen]
		restore := otp.VerifSetHMAC(otp.Algorithm(algo), func(key []byte) hash.Hash { return &fakeHash{sum: sum} })
		defer restore()
		var got string
		var err error
		if p := try(func() {
			got, err = otp.GenerateHOTP("MFRGGZDFMZTWQ2LK", 1, &otp.Param{Digits: otp.Digits(c.Digits), Algorithm: otp.Algorithm(algo)})
		}); p != "" {
			return "panic:" + p, "panicked"
		}
		want := ref.Format(ref.DT31(sum), c.Digits)
		if err != nil || got != want {
			return got + "|" + errStr(err), "want " + want
		}
		return got, ""
	}
	r.Scenario("e2e-sequence", func(raw []byte) (string, string) {
		cs := unjson[[]c01Case](raw)
		obs := ""
		emptySyncPools()
		for i, c := range cs {
			v, key := ref.B32Classify(c.Secret)
			if v != ref.MustAccept {
				return "", ""
			}
			o, bad := hotpE2E(c, key)
			obs += o + ";"
			if bad != "" {
				return obs, fmt.Sprintf("call %d of the sequence: %s", i, bad)
			}
		}
		return obs, ""
	})
	r.Scenario("chosen-hmac-pipeline", func(raw []byte) (string, string) { return l2(unjson[c01L1](raw)) })
	{
		k := []byte("12345678901234567890")
		sp := ref.B32Encode(k)
		var cs []c01Case
		for _, ctr := range []uint64{0, 1, 1 << 32, ^uint64(0)} {
			for a := 0; a < 3; a++ {
				cs = append(cs, c01Case{sp, ctr, 6 + 2*a, a, false, 0, 0, 0})
			}
			cs = append(cs, c01Case{sp, ctr, 0, 0, true, 0, 0, 0})
		}
		// the Param fields generation does not use (window, period) take every kind of value
		for _, sk := range []uint64{1, 2, 10, 11, 255, 1 << 31, 1<<64 - 1} {
			for _, per := range []uint64{0, 1, 30, 1<<64 - 1} {
				cs = append(cs, c01Case{Secret: sp, Counter: sk, Digits: 6 + int(sk%5), Algo: int(sk % 3), Skew: sk, Period: per})
			}
		}
		// spellings with exactly ONE lower-case letter (each distinct letter of the text once), and all but one
		seenL := map[byte]bool{}
		for i := 0; i < len(sp); i++ {
			if sp[i] >= 'A' && sp[i] <= 'Z' && !seenL[sp[i]] {
				seenL[sp[i]] = true
				one := sp[:i] + string([]byte{sp[i] | 0x20}) + sp[i+1:]
				rest := strings.ToLower(sp[:i]) + sp[i:i+1] + strings.ToLower(sp[i+1:])
				cs = append(cs, c01Case{Secret: one, Counter: uint64(i), Digits: 6, Algo: i % 3}, c01Case{Secret: rest, Counter: uint64(i), Digits: 8, Algo: (i + 1) % 3})
			}
		}
		// the exported defaults as an application may have assigned them: nil Param follows the HOTP default, explicit ones do not
		for v := 1; v <= len(c01Defaults); v++ {
			for _, ctr := range []uint64{0, 1, 1 << 32} {
				cs = append(cs, c01Case{Secret: sp, Counter: ctr, Nil: true, AppDef: v}, c01Case{Secret: sp, Counter: ctr, Digits: 6 + v, Algo: v % 3, AppDef: v})
			}
		}
		afterWarmups(r, "e2e-after-other-operations", cs, func(c c01Case) (string, string) { return hotpE2E(c, k) })
	}
	volume(r, "e2e-volume", 1100, func(k int) c01Case {
		return c01Case{ref.B32Encode([]byte(fmt.Sprintf("volume-key-%04d-0123456789abcdefghij", k))[:10+(k*7)%27]), uint64(k) * 0x100000001, 6 + 2*(k%3), k % 3, k%7 == 0, 0, 0, 0}
	}, func(c c01Case) (string, string) { _, key := ref.B32Classify(c.Secret); return hotpE2E(c, key) })
	if ReplayOnly {
		return
	}
	if len(mod) < 11 {
		r.Fail("truncate-format", "modulus-table-short", len(mod), ">=11 entries", fmt.Sprint(len(mod)))
	}

	// ---- L1: truncation/format stage
	ws := c01Windows()
	var l1n int64
	if r.Thorough() {
		// all 2^32 windows x 10 digits; reference = decimal odometer (v mod 10^d is the
		// last d decimal digits), no division and no table.
		const shards = 1 << 10
		ev.Par(shards, func(sh int) {
			lo := uint64(sh) << 22
			hi := lo + 1<<22
			sum := make([]byte, 20)
			sum[19] = 0 // offset 0
			odo := []byte(fmt.Sprintf("%010d", uint32(lo)&0x7fffffff))
			var local int64
			for v := lo; v < hi; v++ {
				if v == 1<<31 {
					odo = []byte("0000000000")
				}
				sum[0], sum[1], sum[2], sum[3] = byte(v>>24), byte(v>>16), byte(v>>8), byte(v)
				for d := 1; d <= 10; d++ {
					got := composeL1(sum, d, mod)
					if got != string(odo[10-d:]) {
						r.Fail("truncate-format", fmt.Sprintf("digits=%d window=%#x", d, v), c01L1{uint32(v), d, 20, 0}, string(odo[10-d:]), got)
					}
				}
				local += 10
				// increment odometer
				for i := 9; i >= 0; i-- {
					if odo[i] == '9' {
						odo[i] = '0'
					} else {
						odo[i]++
						break
					}
				}
			}
			r.Eval(local)
			l1n += 0
		})
		r.Set("l1_windows", int64(1)<<32)
	} else {
		r.Set("l1_windows", int64(len(ws)))
	}
	// extraction grid (both tiers): sum length x offset x window set x digits
	type job struct{ n, off int }
	var jobs []job
	for _, n := range []int{20, 32, 64} {
		for off := 0; off < 16; off++ {
			jobs = append(jobs, job{n, off})
		}
	}
	var mu sync.Mutex
	ev.Par(len(jobs), func(i int) {
		j := jobs[i]
		var local int64
		seenOut := map[string]struct{}{}
		for _, w := range ws {
			for d := 1; d <= 10; d++ {
				c := c01L1{w, d, j.n, j.off}
				got, bad := l1(c)
				local++
				if bad != "" {
					r.Fail("truncate-format", fmt.Sprintf("digits=%d window=%#x len=%d off=%d", d, w, j.n, j.off), c, bad, got)
				}
				if j.off == 3 && j.n == 20 {
					seenOut[got] = struct{}{}
				}
			}
		}
		r.Eval(local)
		mu.Lock()
		for k := range seenOut {
			r.DistinctS("l1:" + k)
		}
		l1n += local
		mu.Unlock()
	})
	r.Sample(map[string]any{"layer": "truncate-format", "case": c01L1{1284755224, 10, 20, 3}, "got": composeL1(markerSum(20, 3, 1284755224, 0xA), 10, mod)})

	// ---- L2: real pipeline with a chosen HMAC answer (sequential: it swaps a package-level constructor)
	var l2n int64
	for _, n := range []int{20, 32, 64} {
		for off := 0; off < 16; off++ {
			for wi, w := range ws {
				if !r.Thorough() && wi%7 != off%7 {
					continue
				}
				for d := 1; d <= 10; d++ {
					c := c01L1{w, d, n, off}
					got, bad := l2(c)
					l2n++
					if bad != "" {
						r.Fail("chosen-hmac-pipeline", fmt.Sprintf("digits=%d window=%#x len=%d off=%d", d, w, n, off), c, bad, got)
					}
				}
			}
		}
	}
	r.Eval(l2n)
	r.Set("l2_pipeline_cases", l2n)

	// ---- L3: end to end with the real HMAC
	type sec struct {
		key   []byte
		spell []string
	}
	var secs []sec
	for _, n := range secretLens {
		for _, k := range secretContents(r.Seed, n) {
			secs = append(secs, sec{k, spellings(k)})
		}
	}
	var l3n int64
	ev.Par(len(secs), func(i int) {
		s := secs[i]
		var local int64
		for si, sp := range s.spell {
			for _, ctr := range counterAlphabet {
				if si > 0 && ctr > 3 && ctr != 1<<63 {
					continue // other spellings: reduced counter set (spelling equivalence is C07's job)
				}
				for a := 0; a < 3; a++ {
					for d := 1; d <= 10; d++ {
						c := c01Case{sp, ctr, d, a, false, 0, 0, 0}
						obs, bad := hotpE2E(c, s.key)
						local++
						if bad != "" {
							r.Fail("e2e", fmt.Sprintf("digits=%d algo=%d keylen=%d ctr=%d", d, a, len(s.key), ctr), c, bad, obs)
						}
						if si == 0 && d == 10 {
							r.DistinctS("e2e:" + obs)
						}
					}
				}
				c := c01Case{sp, ctr, 0, 0, true, 0, 0, 0}
				obs, bad := hotpE2E(c, s.key)
				local++
				if bad != "" {
					r.Fail("e2e", fmt.Sprintf("nil-param keylen=%d ctr=%d", len(s.key), ctr), c, bad, obs)
				}
			}
		}
		r.Eval(local)
		mu.Lock()
		l3n += local
		mu.Unlock()
	})
	// call sequences on one goroutine: every ordered pair of counters (a result must not depend on
	// the call before it), digits 6 and 10, three hashes
	var sn int64
	seqKey := secs[len(secs)/2]
	seqCtr := []uint64{0, 1, 1<<31 - 1, 1 << 31, 1<<32 - 1, 1 << 32, 1<<32 + 1, 1 << 40, 1<<63 - 1, 1 << 63, ^uint64(0)}
	for _, c1 := range seqCtr {
		for _, c2 := range seqCtr {
			for a := 0; a < 3; a++ {
				for _, d := range []int{6, 10} {
					if !r.Thorough() && (a+d/4)%2 == 1 && c1 != 1<<40 {
						continue
					}
					cs := []c01Case{{seqKey.spell[0], c1, d, a, false, 0, 0, 0}, {seqKey.spell[0], c2, 16 - d, (a + 1) % 3, false, 0, 0, 0}, {seqKey.spell[0], c2, d, a, d == 6 && a == 0, 0, 0, 0}}
					obs := ""
					emptySyncPools() // every sequence starts from empty pools, so a failure replays
					for i, c := range cs {
						o, bad := hotpE2E(c, seqKey.key)
						obs += o + ";"
						sn++
						if bad != "" {
							r.Fail("e2e-sequence", fmt.Sprintf("after counter %d: call %d (counter %d digits %d algo %d)", c1, i, c.Counter, c.Digits, c.Algo), cs, bad, obs)
							break
						}
					}
				}
			}
		}
	}
	r.Eval(sn)
	r.Set("l3_sequence_calls", sn)
	// unsupported (digits, hash): all 256 x 256 values
	usecs := []sec{secs[0], secs[len(secs)/3], secs[len(secs)/2], secs[len(secs)-1]}
	if r.Thorough() {
		usecs = secs
	}
	var un int64
	ev.Par(len(usecs), func(i int) {
		s := usecs[i]
		var local int64
		for _, ctr := range []uint64{0, 1 << 32, ^uint64(0)} {
			for d := 0; d < 256; d++ {
				for a := 0; a < 256; a++ {
					if ref.HOTPSupported(d, a) {
						continue
					}
					c := c01Case{s.spell[0], ctr, d, a, false, 0, 0, 0}
					obs, bad := hotpE2E(c, s.key)
					local++
					if bad != "" {
						r.Fail("e2e", fmt.Sprintf("unsupported digits=%d algo=%d", d, a), c, bad, obs)
					}
				}
			}
		}
		r.Eval(local)
		mu.Lock()
		un += local
		mu.Unlock()
	})
	r.Set("l3_supported_cases", l3n)
	r.Set("l3_unsupported_cases", un)
	r.Sample(map[string]any{"layer": "e2e", "case": c01Case{secs[42].spell[0], 1 << 63, 10, 2, false, 0, 0, 0}, "ref": ref.HOTP(secs[42].key, 1<<63, 10, 2)})
	r.Sample(map[string]any{"layer": "e2e-unsupported", "case": c01Case{secs[0].spell[0], 0, 11, 0, false, 0, 0, 0}, "want": "(\"\", error)"})
	r.Set("alphabet", map[string]any{"secret_lengths": secretLens, "secret_contents": "00.., FF.., ramp, seed filler", "spellings": "unpadded, padded, lower, mixed+whitespace", "counters": counterAlphabet, "digits": "0..255", "hash": "0..255", "windows_quick": len(ws)})
	r.Rule("L1: every window value of the declared set (thorough: all 2^32) x digits 1..10 x (sum length, offset) through the real truncate/format stage vs decimal-odometer / Sprintf reference; L2: same values injected as HMAC output into the real GenerateHOTP; L3: full product secrets x spellings x counters x digits x hash through GenerateHOTP vs an independent RFC 4226 implementation, plus all 256x256 (digits,hash) pairs for the error clause. distinct = distinct output strings observed (L1 at offset 3, L3 at 10 digits)")
	r.Assume("crypto/hmac, crypto/sha1, sha256, sha512 of the Go standard library are correct (shared by reference and implementation)")
}

// emptySyncPools empties every sync.Pool of the process (two collections: the second one
// drops the victim cache), giving call sequences a defined start state in the plain build.
func emptySyncPools() {
	runtime.GC()
	runtime.GC()
}
