package checks

import (
	"encoding/json"
	"fmt"
	"os"
	"os/exec"
	"path/filepath"
	"sort"
	"strings"
	"sync"
	"time"

	"github.com/ja7ad/otp"
	"github.com/ja7ad/otp/verifharness/ev"
	"github.com/ja7ad/otp/verifharness/ref"
)

func init() { register("C20", "model_checking", c20) }

// jcall is one call of a binding function; arguments are JSON values, with {"$":"NaN"} etc.
// for values JSON cannot carry.
type jcall struct {
	F string `json:"f"`
	A []any  `json:"a"`
	// expectation (not sent to Node)
	Want   string `json:"want"`   // "s:<string>", "b:true", "b:false", "error"
	Probe  bool   `json:"probe"`  // a well-formed call placed after a malformed one
	Origin string `json:"origin"` // which enumeration produced it
}

type jres struct {
	T string `json:"t"`
	V any    `json:"v"`
}

func (r jres) String() string {
	switch r.T {
	case "string":
		return "s:" + fmt.Sprint(r.V)
	case "boolean":
		return "b:" + fmt.Sprint(r.V)
	}
	return r.T + ":" + fmt.Sprint(r.V)
}

type nodeOut struct {
	Fatal          string              `json:"fatal"`
	ExportNames    []string            `json:"exportNames"`
	GlobalNames    []string            `json:"globalNames"`
	ExportIdentity map[string][]string `json:"exportIdentity"`
	Results        []map[string]jres   `json:"results"`
}

var special = map[string]bool{}

func sp(kind string) map[string]any { return map[string]any{"$": kind} }

// asNumber interprets a JSON argument as the int the binding's parseIntArg would see
// (fractions truncate); ok=false if it is not a usable number >= 0.
func asNumber(a any) (int64, bool) {
	switch v := a.(type) {
	case int:
		return int64(v), v >= 0
	case int64:
		return v, v >= 0
	case uint64:
		return int64(v), v < 1<<63
	case float64:
		if v != v || v >= 9.2233720368547758e18 || v <= -9.2233720368547758e18 {
			return 0, false
		}
		return int64(v), int64(v) >= 0
	}
	return 0, false
}

func asString(a any) (string, bool) {
	s, ok := a.(string)
	return s, ok && s != ""
}

// expectNative computes what the native library returns for the mapped arguments.
func expectNative(f string, a []any) string {
	str := func(i int) (string, bool) {
		if i >= len(a) {
			return "", false
		}
		return asString(a[i])
	}
	num := func(i int) (int64, bool) {
		if i >= len(a) {
			return 0, false
		}
		return asNumber(a[i])
	}
	res := func(code string, err error) string {
		if err != nil {
			return "error"
		}
		return "s:" + code
	}
	switch f {
	case "generateHOTP":
		if len(a) != 4 {
			return "error"
		}
		sec, ok1 := str(0)
		c, ok2 := num(1)
		d, ok3 := str(2)
		al, ok4 := str(3)
		if !(ok1 && ok2 && ok3 && ok4) {
			return "error"
		}
		return res(otp.GenerateHOTP(sec, uint64(c), &otp.Param{Digits: otp.DigitsFromStr(d), Algorithm: otp.AlgorithmFromStr(al)}))
	case "generateTOTP":
		if len(a) != 5 {
			return "error"
		}
		sec, ok1 := str(0)
		ts, ok2 := num(1)
		d, ok3 := str(2)
		al, ok4 := str(3)
		per, ok5 := num(4)
		if !(ok1 && ok2 && ok3 && ok4 && ok5) || per <= 0 || per > 3600 {
			return "error"
		}
		return res(otp.GenerateTOTP(sec, time.Unix(ts, 0), &otp.Param{Digits: otp.DigitsFromStr(d), Algorithm: otp.AlgorithmFromStr(al), Period: uint(per)}))
	case "validateHOTP", "validateTOTP":
		n := 6
		if f == "validateTOTP" {
			n = 7
		}
		if len(a) != n {
			return "error"
		}
		sec, ok1 := str(0)
		code, ok2 := str(1)
		c, ok3 := num(2)
		d, ok4 := str(3)
		al, ok5 := str(4)
		sk, ok6 := num(5)
		if !(ok1 && ok2 && ok3 && ok4 && ok5 && ok6) || sk > 10 {
			return "error"
		}
		if _, err := otp.DecodeSecret(sec); err != nil {
			return "error"
		}
		p := &otp.Param{Digits: otp.DigitsFromStr(d), Algorithm: otp.AlgorithmFromStr(al), Skew: uint(sk)}
		var ok bool
		if f == "validateHOTP" {
			ok, _ = otp.ValidateHOTP(sec, code, uint64(c), p)
		} else {
			per, ok7 := num(6)
			if !ok7 || per <= 0 {
				return "error"
			}
			p.Period = uint(per)
			ok, _ = otp.ValidateTOTP(sec, code, time.Unix(c, 0), p)
		}
		return "b:" + fmt.Sprint(ok)
	case "generateOTPURL":
		if len(a) != 6 {
			return "error"
		}
		ty, ok0 := str(0)
		iss, ok1 := str(1)
		acc, ok2 := str(2)
		sec, ok3 := str(3)
		d, ok4 := str(4)
		al, ok5 := str(5)
		if !(ok0 && ok1 && ok2 && ok3 && ok4 && ok5) {
			return "error"
		}
		up := otp.URLParam{Issuer: iss, AccountName: acc, Secret: sec, Digits: otp.DigitsFromStr(d), Algorithm: otp.AlgorithmFromStr(al)}
		switch ty {
		case "totp":
			u, err := otp.GenerateTOTPURL(up)
			if err != nil {
				return "error"
			}
			return "s:" + u.String()
		case "hotp":
			u, err := otp.GenerateHOTPURL(up)
			if err != nil {
				return "error"
			}
			return "s:" + u.String()
		}
		return "error"
	}
	return "error"
}

var c20Key = []byte("12345678901234567890")

func c20Calls(thorough bool) []jcall {
	var out []jcall
	add := func(origin, f string, a ...any) {
		out = append(out, jcall{F: f, A: a, Want: expectNative(f, a), Origin: origin})
	}
	u := ref.B32Encode(c20Key)
	secrets := []string{u, strings.ToLower(u), " " + ref.B32Encode([]byte("x")) + "== "}
	// key lengths around the HMAC block sizes (64 for SHA-1/256, 128 for SHA-512)
	var longKeys [][]byte
	for _, n := range []int{0, 63, 64, 65, 100, 127, 128, 129, 200} {
		longKeys = append(longKeys, patt(n, byte(n)))
	}
	counters := []any{0, 1, 59, 1<<31 - 1, 1 << 31, uint64(1) << 32, uint64(1)<<53 - 1, uint64(1) << 53}
	digits := []string{"6", "8", "9", "10", "7", "06", "x", " 8", "8 ", "10.0", "８"}
	algos := []string{"SHA1", "SHA256", "SHA512", "sha1", "MD5", "sha256", "Sha512", " SHA256", "SHA-256", "SHA2"}
	periods := []any{1, 29, 30, 60, 3600}
	for _, s := range secrets {
		for _, c := range counters {
			for _, d := range digits {
				for _, al := range algos {
					add("generateHOTP", "generateHOTP", s, c, d, al)
					for pi, p := range periods {
						if !thorough && (pi+len(d)+len(al))%2 == 1 {
							continue
						}
						add("generateTOTP", "generateTOTP", s, c, d, al, p)
					}
				}
			}
		}
	}
	for _, key := range longKeys {
		ks := ref.B32Encode(key)
		if len(key) == 0 {
			continue // the binding refuses an empty secret string
		}
		for _, al := range []string{"SHA1", "SHA256", "SHA512"} {
			an := refAlgo(al)
			for _, d := range []string{"6", "10"} {
				add("long-keys", "generateHOTP", ks, 7, d, al)
				add("long-keys", "generateTOTP", ks, 59, d, al, 30)
				dn := refDigits(d)
				for _, cc := range []uint64{6, 7, 8, 9} {
					add("long-keys", "validateHOTP", ks, ref.HOTP(key, cc, dn, an), 7, d, al, 1)
					add("long-keys", "validateTOTP", ks, ref.HOTP(key, cc-5, dn, an), 59, d, al, 1, 30)
				}
			}
		}
	}
	// validation: codes at every window distance -(s+2)..+(s+2) and edited codes
	for si, s := range secrets[:2] {
		for _, c := range []uint64{0, 1, 5, 1 << 32, 1<<53 - 12} {
			for di, d := range []string{"6", "8", "9", "10", "7"} {
				for ai, al := range []string{"SHA1", "SHA256", "SHA512", "MD5", "sha512", "Sha256"} {
					for sk := 0; sk <= 10; sk++ {
						if !thorough && (si+di+ai+sk)%3 != 0 {
							continue
						}
						dn, an := refDigits(d), refAlgo(al)
						var codes []string
						for dist := -(sk + 2); dist <= sk+2; dist++ {
							if dist < 0 && c < uint64(-dist) {
								continue
							}
							codes = append(codes, ref.HOTP(c20Key, c+uint64(int64(dist)), dn, an))
						}
						base := ref.HOTP(c20Key, c, dn, an)
						codes = append(codes, base[1:], base+"0", "x"+base[1:])
						for _, code := range codes {
							add("validateHOTP", "validateHOTP", s, code, c, d, al, sk)
						}
					}
				}
			}
		}
		for _, ts := range []int64{59, 1111111109, 1 << 32} {
			for di, d := range []string{"6", "8", "10", "7"} {
				for ai, al := range []string{"SHA1", "SHA256", "SHA512", "sha256"} {
					for sk := 0; sk <= 10; sk++ {
						for pi, per := range []int64{1, 30, 3600} {
							if !thorough && (si+di+ai+sk+pi)%4 != 0 {
								continue
							}
							dn, an := refDigits(d), refAlgo(al)
							st := ref.Step(ts, uint64(per))
							var codes []string
							for dist := -(sk + 2); dist <= sk+2; dist++ {
								if dist < 0 && st < uint64(-dist) {
									continue
								}
								codes = append(codes, ref.HOTP(c20Key, st+uint64(int64(dist)), dn, an))
							}
							base := ref.HOTP(c20Key, st, dn, an)
							codes = append(codes, base[:len(base)-1], base+base, "00"+base[2:])
							for _, code := range codes {
								add("validateTOTP", "validateTOTP", s, code, ts, d, al, sk, per)
							}
						}
					}
				}
			}
		}
		// every LENGTH of the submitted code, 0..14 characters and a long one, cut from the genuine code repeated; single
		// characters of every kind (the binding logs, masks and compares what it is given)
		if si == 0 {
			base := ref.HOTP(c20Key, 5, 6, 0)
			long := strings.Repeat(base, 700)
			var codes []string
			for n := 0; n <= 14; n++ {
				codes = append(codes, long[:n])
			}
			codes = append(codes, long, "x", " ", "\x00", "\u00e9", "7 ", "-1", "1e5", base+" ", " "+base)
			for _, code := range codes {
				for _, d := range []string{"6", "8"} {
					add("validateHOTP", "validateHOTP", s, code, uint64(5), d, "SHA1", 1)
					add("validateTOTP", "validateTOTP", s, code, int64(59), d, "SHA1", 1, int64(30))
				}
			}
		}
	}
	// fractional numbers are truncated, not rounded and not rejected: every numeric argument at v+f, with v on
	// and next to step / window boundaries
	for _, f := range []float64{0.1, 0.49, 0.5, 0.51, 0.9, 0.999999} {
		for _, v := range []float64{0, 1, 28, 29, 30, 58, 59, 60, 1111111109, 4294967295, 4294967296} {
			x := v + f
			for ai, al := range []string{"SHA1", "SHA256", "SHA512"} {
				an := refAlgo(al)
				add("fractional", "generateHOTP", u, x, "6", al)
				for _, per := range []any{1, 30, 60, 29.5, 30.9, 1.5} {
					add("fractional", "generateTOTP", u, x, "8", al, per)
				}
				if ai > 0 && f != 0.5 && f != 0.9 {
					continue
				}
				for dist := int64(-2); dist <= 2; dist++ {
					if int64(v)+dist < 0 {
						continue
					}
					add("fractional", "validateHOTP", u, ref.HOTP(c20Key, uint64(int64(v)+dist), 6, an), x, "6", al, 1)
					add("fractional", "validateHOTP", u, ref.HOTP(c20Key, uint64(int64(v)+dist), 6, an), v, "6", al, 1+f)
					st := int64(ref.Step(int64(v), 30))
					if st+dist >= 0 {
						add("fractional", "validateTOTP", u, ref.HOTP(c20Key, uint64(st+dist), 6, an), x, "6", al, 1, 30)
						add("fractional", "validateTOTP", u, ref.HOTP(c20Key, uint64(st+dist), 6, an), v, "6", al, 1+f, 30+f)
						add("fractional", "validateTOTP", u, ref.HOTP(c20Key, uint64(st+dist), 6, an), x, "6", al, 0, 30)
					}
					if int64(v)+dist >= 0 {
						add("fractional", "validateTOTP", u, ref.HOTP(c20Key, uint64(int64(v)+dist), 6, an), x, "6", al, 0, 1)
					}
				}
			}
		}
	}
	// fractional values at the TOP and BOTTOM of every numeric range (truncated first, range-checked afterwards: 10.5
	// is the window 10, 3600.9 the period 3600, 0.9 the period 0 - which is refused): the bound must be applied to the
	// truncated number on both sides of the binding
	for ai, al := range []string{"SHA1", "SHA256", "SHA512"} {
		an := refAlgo(al)
		for _, sk := range []any{10.5, 10.999, 9.999, 0.5, 0.999, 11.5, 10.0000001} {
			for dist := int64(-11); dist <= 11; dist += 11 {
				c := int64(40 + ai)
				add("fractional-at-bounds", "validateHOTP", u, ref.HOTP(c20Key, uint64(c+dist), 6, an), c, "6", al, sk)
				add("fractional-at-bounds", "validateTOTP", u, ref.HOTP(c20Key, uint64(c+dist), 6, an), c*30+7, "6", al, sk, 30)
			}
		}
		for _, per := range []any{3600.5, 3600.999, 3599.999, 1.5, 1.999, 0.5, 0.999, 3601.5} {
			add("fractional-at-bounds", "generateTOTP", u, 1111111109, "8", al, per)
			add("fractional-at-bounds", "validateTOTP", u, ref.HOTP(c20Key, ref.Step(1111111109, 3600), 6, an), 1111111109, "6", al, 1, per)
		}
		for _, ts := range []any{0.5, 0.999, 29.999, 9007199254740991.0, 4294967295.5, 2147483647.5} {
			add("fractional-at-bounds", "generateHOTP", u, ts, "6", al)
			add("fractional-at-bounds", "generateTOTP", u, ts, "6", al, 30)
		}
	}
	// windows that reach below step / counter 0 (instants in the first s steps, counters below s): the native TOTP
	// validator computes its window modulo 2^64, the native HOTP validator cuts it at 0 - the binding must give the
	// native verdict in both cases, whatever that is
	for _, al := range []string{"SHA1", "SHA512"} {
		an := refAlgo(al)
		for _, sk := range []int{1, 2, 10} {
			for _, per := range []int64{30, 1, 60} {
				for _, ts := range []int64{0, 1, 29, 30, 59, 299} {
					st := int64(ref.Step(ts, uint64(per)))
					for _, dist := range []int64{-int64(sk) - 1, -int64(sk), -1, 0, int64(sk)} {
						add("below-zero", "validateTOTP", u, ref.HOTP(c20Key, uint64(st+dist), 6, an), ts, "6", al, sk, per)
					}
				}
			}
			for _, c := range []int64{0, 1, 2, 9} {
				for _, dist := range []int64{-int64(sk) - 1, -int64(sk), -1, 0, int64(sk)} {
					add("below-zero", "validateHOTP", u, ref.HOTP(c20Key, uint64(c+dist), 6, an), c, "6", al, sk)
				}
			}
		}
	}
	// other spellings of a genuine code: a sign or blank for a leading zero, a leading zero dropped, letters for digits,
	// other digit scripts - a validator that reads the code as a NUMBER accepts some of them
	for _, d := range []string{"6", "8"} {
		dn := refDigits(d)
		for _, al := range []string{"SHA1", "SHA256", "SHA512"} {
			an := refAlgo(al)
			found := 0
			for c := uint64(0); c < 400 && found < 3; c++ {
				code := ref.HOTP(c20Key, c, dn, an)
				if code[0] != '0' {
					continue
				}
				found++
				rest := code[1:]
				fw := ""
				for _, ch := range code {
					fw += string(rune(0xFF10 + ch - '0'))
				}
				for _, sub := range []string{"+" + rest, "-" + rest, " " + rest, rest, rest + " ", "0" + code, "+" + code, code + ".0", "0x" + rest[1:], "O" + rest, fw, code[:len(code)-1] + "e", "1e" + rest[1:]} {
					add("code-spellings", "validateHOTP", u, sub, c, d, al, 1)
					st := int64(c) * 30
					add("code-spellings", "validateTOTP", u, sub, st+7, d, al, 1, 30)
				}
			}
		}
	}
	// near misses: a genuine window code with ONE digit changed, at every position, for every code length (a
	// comparison over a prefix, a suffix or a fixed-size copy of the code accepts some of them), and with two
	// digits swapped
	for _, d := range []string{"6", "8", "9", "10"} {
		dn := refDigits(d)
		for ai, al := range []string{"SHA1", "SHA256", "SHA512"} {
			an := refAlgo(al)
			for _, dist := range []int64{0, 1} {
				c := uint64(41 + ai)
				code := ref.HOTP(c20Key, uint64(int64(c)+dist), dn, an)
				var subs []string
				for j := 0; j < len(code); j++ {
					b := []byte(code)
					b[j] = '0' + (b[j]-'0'+1+byte(j)%8)%10
					subs = append(subs, string(b))
					if j+1 < len(code) && code[j] != code[j+1] {
						b = []byte(code)
						b[j], b[j+1] = b[j+1], b[j]
						subs = append(subs, string(b))
					}
				}
				for _, sub := range subs {
					add("near-miss", "validateHOTP", u, sub, c, d, al, 1)
					add("near-miss", "validateTOTP", u, sub, int64(c)*30+11, d, al, 1, 30)
				}
			}
		}
	}
	// windows beyond the documented maximum (and far beyond): refused with 'error:' by both validators, never a verdict
	for _, sk := range []any{11, 12, 100, 255, 256, 65536, 1000000, uint64(1) << 32, uint64(1) << 53} {
		for _, al := range []string{"SHA1", "SHA512"} {
			add("refused-window", "validateHOTP", u, ref.HOTP(c20Key, 5, 6, refAlgo(al)), 5, "6", al, sk)
			add("refused-window", "validateHOTP", u, "000000", 5, "6", al, sk)
			add("refused-window", "validateTOTP", u, ref.HOTP(c20Key, 1, 6, refAlgo(al)), 59, "6", al, sk, 30)
			add("refused-window", "validateTOTP", u, "000000", 59, "6", al, sk, 30)
		}
	}
	// undecodable secrets (must be answered with 'error:' every time) and every call issued twice in a
	// row / alternated with its neighbour: a remembered argument or result must never answer the next call
	bad := []string{"!!!notbase32", "MZXW6YTB0", "A", "ABC=====", "ıııııııı"}
	var rep []jcall
	for i, s := range append(append([]string{}, secrets...), bad...) {
		for _, c := range []any{0, 1, uint64(1) << 32} {
			rep = append(rep, jcall{F: "generateHOTP", A: []any{s, c, digits[i%4], algos[i%3]}}, jcall{F: "generateTOTP", A: []any{s, c, digits[(i+1)%4], algos[(i+1)%3], 30}},
				jcall{F: "validateHOTP", A: []any{s, ref.HOTP(c20Key, 1, 6, 0), c, "6", "SHA1", 1}}, jcall{F: "validateTOTP", A: []any{s, ref.HOTP(c20Key, 1, 6, 0), 59, "6", "SHA1", 1, 30}})
		}
	}
	for i, a := range rep {
		b := rep[(i*7+3)%len(rep)]
		for _, c := range []jcall{a, a, b, a, b, b} {
			add("repeat", c.F, c.A...)
		}
	}
	for _, ty := range []string{"totp", "hotp", "TOTP", "x"} {
		for _, iss := range []string{"Example", "My Company", "a/b?c#d", "100%", "é日", "x&issuer=evil"} {
			for _, acc := range []string{"alice@example.com", "bob smith", "x:y", "a+b"} {
				for _, sec := range []string{"JBSWY3DPEHPK3PXP", "s e&c=r"} {
					for di, d := range digits {
						for ai, al := range algos {
							if !thorough && (di+ai+len(iss)+len(acc))%3 != 0 {
								continue
							}
							add("generateOTPURL", "generateOTPURL", ty, iss, acc, sec, d, al)
						}
					}
				}
			}
		}
	}
	return out
}

// malformed calls with probes interleaved: bad, probe (, bad, probe)
func c20Malformed(thorough bool) []jcall {
	u := ref.B32Encode(c20Key)
	good := map[string][]any{
		"generateHOTP":   {u, 1, "6", "SHA1"},
		"generateTOTP":   {u, 59, "8", "SHA256", 30},
		"validateHOTP":   {u, ref.HOTP(c20Key, 2, 6, 0), 1, "6", "SHA1", 1},
		"validateTOTP":   {u, ref.HOTP(c20Key, 1, 6, 0), 59, "6", "SHA1", 0, 30},
		"generateOTPURL": {"totp", "Iss", "acc", "JBSWY3DPEHPK3PXP", "6", "SHA1"},
	}
	var names []string
	for n := range good {
		names = append(names, n)
	}
	sort.Strings(names)
	badVals := []any{sp("undefined"), nil, sp("NaN"), -1, 1.9, 1e30, true, sp("obj"), sp("arr"), "", sp("Infinity"), sp("fn"), -0.5, 0}
	var bads []jcall
	for _, f := range names {
		g := good[f]
		for pos := range g {
			for _, bv := range badVals {
				a := append([]any{}, g...)
				a[pos] = bv
				bads = append(bads, jcall{F: f, A: a, Want: expectNative(f, a), Origin: fmt.Sprintf("malformed %s arg %d", f, pos)})
			}
		}
		for n := 0; n <= len(g)+1; n++ {
			if n == len(g) {
				continue
			}
			a := append([]any{}, g...)
			for len(a) < n {
				a = append(a, "extra")
			}
			a = a[:n]
			bads = append(bads, jcall{F: f, A: a, Want: "error", Origin: fmt.Sprintf("malformed %s with %d arguments", f, n)})
		}
	}
	probe := func(i int) jcall {
		f := names[i%len(names)]
		return jcall{F: f, A: good[f], Want: expectNative(f, good[f]), Probe: true, Origin: "probe " + f}
	}
	var out []jcall
	for i, b := range bads {
		out = append(out, b, probe(i))
	}
	core := bads
	if !thorough {
		core = nil
		for i := 0; i < len(bads); i += len(bads)/40 + 1 {
			core = append(core, bads[i])
		}
	}
	for i, a := range core {
		for j, b := range core {
			out = append(out, a, probe(i+j), b, probe(i+2*j+1))
		}
	}
	return out
}

func runNode(stage string, calls []jcall, work string, tag int) (nodeOut, error) {
	cf := filepath.Join(work, fmt.Sprintf("calls%d.json", tag))
	rf := filepath.Join(work, fmt.Sprintf("res%d.json", tag))
	type wire struct {
		F string `json:"f"`
		A []any  `json:"a"`
	}
	w := make([]wire, len(calls))
	for i, c := range calls {
		w[i] = wire{c.F, c.A}
	}
	b, _ := json.Marshal(w)
	if err := os.WriteFile(cf, b, 0o644); err != nil {
		return nodeOut{}, err
	}
	cmd := exec.Command("node", filepath.Join(ev.VerifDir(), "node", "driver.js"), stage, cf, rf)
	cmd.Stdout, cmd.Stderr = nil, nil
	if err := cmd.Run(); err != nil {
		return nodeOut{}, fmt.Errorf("node: %v", err)
	}
	rb, err := os.ReadFile(rf)
	if err != nil {
		return nodeOut{}, err
	}
	var out nodeOut
	if err := json.Unmarshal(rb, &out); err != nil {
		return nodeOut{}, err
	}
	os.Remove(cf)
	os.Remove(rf)
	if out.Fatal != "" {
		return out, fmt.Errorf("%s", out.Fatal)
	}
	return out, nil
}

type c20Case struct {
	Calls []jcall `json:"calls"`
}

func c20(r *ev.Run) {
	stage, work := os.Getenv("VERIF_WASM_STAGE"), os.Getenv("VERIF_WORK")
	judgeOne := func(c jcall, res map[string]jres) string {
		for _, via := range []string{"g", "e"} {
			name := map[string]string{"g": "globalThis." + c.F, "e": "exported " + c.F}[via]
			got := res[via]
			if got.T == "missing" {
				return name + " is not a function"
			}
			if c.Want == "error" {
				if s, _ := got.V.(string); got.T != "string" || !strings.HasPrefix(s, "error:") {
					return fmt.Sprintf("%s returned %s; a call with a malformed or out-of-range argument must return a string starting with 'error:'", name, got)
				}
				continue
			}
			if got.String() != c.Want {
				return fmt.Sprintf("%s returned %s, native library gives %s", name, got, c.Want)
			}
		}
		return ""
	}
	r.Scenario("js-calls", func(raw []byte) (string, string) {
		c := unjson[c20Case](raw)
		if stage == "" {
			return "", ""
		}
		for i := range c.Calls {
			c.Calls[i].Want = expectNative(c.Calls[i].F, c.Calls[i].A)
		}
		out, err := runNode(stage, c.Calls, work, 999)
		if err != nil {
			return "", ""
		}
		obs := ""
		for i, cl := range c.Calls {
			obs += out.Results[i]["g"].String() + ";"
			if d := judgeOne(cl, out.Results[i]); d != "" {
				return obs, fmt.Sprintf("call %d %s%v: %s", i, cl.F, cl.A, d)
			}
		}
		return obs, ""
	})
	r.Scenario("export-table", func(raw []byte) (string, string) {
		if stage == "" {
			return "", ""
		}
		out, err := runNode(stage, nil, work, 998)
		if err != nil {
			return "", ""
		}
		return exportTable(out)
	})
	if ReplayOnly {
		return
	}
	if stage == "" {
		r.NotExhaustive("wasm build / Node unavailable: only the native half could run")
		r.Eval(1)
		r.State(1)
		r.Transition(1)
		r.Sample("unavailable")
		return
	}
	calls := c20Calls(r.Thorough())
	mal := c20Malformed(r.Thorough())
	r.Set("well_formed_calls", len(calls))
	r.Set("malformed_history_calls", len(mal))
	// shard over Node processes; malformed histories stay contiguous (4 calls per sequence)
	nproc := 8
	type shard struct {
		calls []jcall
		seq   bool
	}
	var shards []shard
	per := (len(calls) + nproc - 1) / nproc
	for i := 0; i < len(calls); i += per {
		j := i + per
		if j > len(calls) {
			j = len(calls)
		}
		shards = append(shards, shard{calls[i:j], false})
	}
	perM := ((len(mal)/4+nproc-1)/nproc + 1) * 4
	for i := 0; i < len(mal); i += perM {
		j := i + perM
		if j > len(mal) {
			j = len(mal)
		}
		shards = append(shards, shard{mal[i:j], true})
	}
	outs := make([]nodeOut, len(shards))
	errs := make([]error, len(shards))
	var wg sync.WaitGroup
	for i := range shards {
		wg.Add(1)
		go func(i int) {
			defer wg.Done()
			outs[i], errs[i] = runNode(stage, shards[i].calls, work, i)
		}(i)
	}
	wg.Wait()
	perOrigin := map[string]int{}
	for i, sh := range shards {
		if errs[i] != nil {
			r.Broken = append(r.Broken, "node worker failed: "+errs[i].Error())
			continue
		}
		if len(outs[i].Results) != len(sh.calls) {
			r.Broken = append(r.Broken, fmt.Sprintf("node worker returned %d results for %d calls", len(outs[i].Results), len(sh.calls)))
			continue
		}
		if i == 0 {
			if obs, bad := exportTable(outs[i]); bad != "" {
				r.Fail("export-table", bad, c20Case{}, "every name exported, none holding another function", obs)
			}
			r.Set("export_table", outs[i].ExportIdentity)
		}
		for k, c := range sh.calls {
			r.Eval(2)
			r.Transition(2)
			perOrigin[strings.SplitN(c.Origin, " arg", 2)[0]]++
			r.DistinctS(c.F + outs[i].Results[k]["g"].String())
			if d := judgeOne(c, outs[i].Results[k]); d != "" {
				// report with its history (the malformed call before a failing probe)
				lo := k
				if sh.seq {
					lo = k - k%2
					if c.Probe && k > 0 {
						lo = k - 1
					}
				}
				cs := c20Case{append([]jcall{}, sh.calls[lo:k+1]...)}
				r.Fail("js-calls", fmt.Sprintf("%s: %s", c.Origin, d), cs, c.Want, outs[i].Results[k]["g"].String()+" / "+outs[i].Results[k]["e"].String())
			}
		}
		r.State(int64(len(sh.calls)))
	}
	r.Trace(r.Evals())
	r.Set("calls_per_enumeration", perOrigin)
	r.Sample(jcall{F: "validateHOTP", A: []any{ref.B32Encode(c20Key), ref.HOTP(c20Key, 1, 6, 0), 0, "6", "SHA1", 2}, Want: "b:true", Origin: "validateHOTP"})
	r.Sample(map[string]any{"history": []any{jcall{F: "generateTOTP", A: []any{sp("undefined"), 59, "6", "SHA1", 30}, Want: "error"}, "probe generateHOTP(...) must still return the native value"}})
	r.Rule("two configurations built from the same tree - native (this process) and js/wasm under Node, loaded through the package's own src/index.js: the full product of counters/timestamps {0,1,59,2^31-1,2^31,2^32,2^53-1,2^53} x digits spellings x hash spellings x periods x skews 0..10 x codes at every window distance -(s+2)..+(s+2) and edited codes x URL arguments, each call made through globalThis.<name> AND through the exported object; oracle: value == native library's value for the mapped arguments; export table: every name must be exported and must not hold ANOTHER of the five functions (which object it holds otherwise is evidence only; behaviour through the exported object decides); malformed calls (every argument position x 14 JS values, argument counts 0..n+1) explored as histories bad,probe and bad,probe,bad,probe: 'error:' string and the probe still answers natively; state = position in a call history, transition = one call; distinct = distinct (function, result) pairs")
	r.Assume("Node v20 stands in for JavaScript hosts (no browser); the shipped otp-js/lib/otp.wasm is a build artefact and is not what is tested: the module is rebuilt from the current tree", "periods above 3600 and empty strings are outside the common domain (the binding answers them with 'error:')")
}

func exportTable(out nodeOut) (obs, bad string) {
	b, _ := json.Marshal(out.ExportIdentity)
	obs = string(b)
	want := []string{"generateHOTP", "generateOTPURL", "generateTOTP", "validateHOTP", "validateTOTP"}
	g := append([]string{}, out.GlobalNames...)
	sort.Strings(g)
	if strings.Join(g, ",") != strings.Join(want, ",") {
		return obs, fmt.Sprintf("global functions registered: %v, want %v", g, want)
	}
	for _, n := range want {
		id, ok := out.ExportIdentity[n]
		if !ok {
			return obs, "the package does not export " + n
		}
		// WHICH function object the name holds is not part of the property (a wrapper that forwards faithfully is as
		// good as the global itself): identity is recorded as evidence, and decided only where it is unambiguous
		// that the name holds ANOTHER of the five functions; everything else is decided by calling it
		if len(id) == 1 && id[0] != n {
			return obs, fmt.Sprintf("exported %s is globalThis.%s", n, id[0])
		}
	}
	return obs, ""
}
