// empty: allows the body-less go:linkname declarations in window.go
