//go:build instr

package checks

import (
	"crypto/rand"
	"fmt"
	"io"
	"strings"

	"github.com/ja7ad/otp/verifharness/ev"
	"github.com/ja7ad/otp/verifharness/irt"
	"github.com/ja7ad/otp/verifharness/xplore"
)

// Interleaved call histories of RandomSecret (instrumented build): all interleavings of 2-3 logical threads
// under the cooperative scheduler, preemption-bounded, on a position-coded stream - every secret must be one
// contiguous, unmodified chunk of the stream and no stream byte may be handed out twice.  (The scenarios and
// the runner are C11's; here they decide C08's "interleaved calls consume disjoint parts of the stream".)
var c08Env *c11Env

func init() {
	setRandomSeam = func(r io.Reader) bool {
		if !irt.SeamInstalled() {
			return false
		}
		irt.SetRandom(r)
		return true
	}
	randomSeamLog = irt.SeamLog
	c08Scheduled = func(r *ev.Run, register bool) {
		old := rand.Reader
		defer func() { rand.Reader = old }()
		if c08Env == nil {
			c08Env = newC11Env() // first call: before anything of the library has run
		}
		e := c08Env
		posStream.install()
		var scs []scen
		for _, sc := range c11Scens {
			if strings.HasPrefix(sc.name, "random") {
				scs = append(scs, sc)
			}
		}
		r.Scenario("random-schedule", func(raw []byte) (string, string) {
			old := rand.Reader
			defer func() { rand.Reader = old }()
			posStream.install()
			c := unjson[c11Sched](raw)
			for _, sc := range scs {
				if sc.name == c.Scenario {
					var o, bad string
					xplore.Run(c.Choices, func(x *xplore.X) { o, _, bad = e.runSchedule(sc, x) })
					return o, bad
				}
			}
			return "", "unknown scenario"
		})
		if register {
			return
		}
		var execs int64
		per := map[string]int64{}
		for _, sc := range scs {
			bound := sc.bound[0]
			if r.Thorough() {
				bound = sc.bound[1]
			}
			res := e.exploreShard(sc, bound, 0, 1, 0)
			execs += res.Executions
			per[sc.name] = res.Executions
			if res.Broken != "" {
				r.Broken = append(r.Broken, sc.name+": "+res.Broken)
			}
			if res.Capped {
				r.NotExhaustive("schedule exploration of " + sc.name + " capped")
			}
			for _, f := range res.Fails {
				r.Fail("random-schedule", sc.name+": "+f.Bad, c11Sched{sc.name, f.Choices}, "every secret is an unmodified chunk of the stream, no byte handed out twice", f.Obs+" "+f.Bad)
			}
			for _, o := range res.Outcomes {
				r.Distinct(o)
			}
		}
		r.Eval(execs)
		r.State(execs)
		r.Transition(execs)
		r.Set("interleaved_histories", map[string]any{"schedules_explored": per, "bound": fmt.Sprintf("preemptions+deviations <= %d (thorough %d)", scs[0].bound[0], scs[0].bound[1])})
	}
}
