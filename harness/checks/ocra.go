package checks

import (
	"fmt"

	"github.com/ja7ad/otp"
	"github.com/ja7ad/otp/verifharness/ref"
)

// shape is one hand-built suite configuration, convertible to the library's and the
// reference's notion of a suite.
type shape struct {
	Text          string `json:"text"`
	Hash          int    `json:"hash"`
	Digits        int    `json:"digits"`
	C, Q, P, S, T bool
	QF            int `json:"qformat"`
	PH            int `json:"phash"`
	TS            int `json:"timestep"`
}

func (s shape) lib() otp.SuiteConfig {
	return otp.SuiteConfig{Raw: s.Text, Hash: otp.Algorithm(s.Hash), Digits: s.Digits, Challenge: otp.ChallengeFormat(s.QF),
		IncludeCounter: s.C, IncludeChallenge: s.Q, IncludePassword: s.P, IncludeSession: s.S, IncludeTimestamp: s.T,
		PasswordHash: otp.PasswordHashAlgorithm(s.PH), TimeStep: s.TS}
}

func (s shape) ref() ref.OCRASuite {
	return ref.OCRASuite{Text: s.Text, Hash: s.Hash, Digits: s.Digits, C: s.C, Q: s.Q, P: s.P, S: s.S, T: s.T, QFormat: s.QF, PHash: s.PH, TimeStep: s.TS}
}

func shapeOfRef(r ref.OCRASuite) shape {
	return shape{r.Text, r.Hash, r.Digits, r.C, r.Q, r.P, r.S, r.T, r.QFormat, r.PHash, r.TimeStep}
}

func shapeOfLib(c otp.SuiteConfig) shape {
	return shape{c.Raw, int(c.Hash), c.Digits, c.IncludeCounter, c.IncludeChallenge, c.IncludePassword, c.IncludeSession, c.IncludeTimestamp, int(c.Challenge), int(c.PasswordHash), c.TimeStep}
}

func (s shape) sig() string {
	f := ""
	for i, b := range []bool{s.C, s.Q, s.P, s.S, s.T} {
		if b {
			f += string("CQPST"[i])
		}
	}
	return fmt.Sprintf("hash=%d digits=%d fields=%s qf=%d ph=%d ts=%d", s.Hash, s.Digits, f, s.QF, s.PH, s.TS)
}

// oin is an OCRA input in JSON-friendly form (nil vs empty is preserved by the *Nil flags).
type oin struct {
	Counter, Challenge, Password, Session, Timestamp []byte
}

func (i oin) lib() otp.OCRAInput {
	return otp.OCRAInput{Counter: i.Counter, Challenge: i.Challenge, Password: i.Password, SessionInfo: i.Session, Timestamp: i.Timestamp}
}
func (i oin) ref() ref.OCRAIn {
	return ref.OCRAIn{Counter: i.Counter, Challenge: i.Challenge, Password: i.Password, Session: i.Session, Timestamp: i.Timestamp}
}

// allShapes enumerates subset x format x password hash x time step for usable shapes
// (formats and password hashes only where the field is selected).
func usableShapes(tsteps []int) []shape {
	var out []shape
	for m := 0; m < 32; m++ {
		s := shape{C: m&1 != 0, Q: m&2 != 0, P: m&4 != 0, S: m&8 != 0, T: m&16 != 0}
		qfs := []int{0}
		if s.Q {
			qfs = []int{1, 2, 3, 4, 5, 6}
		}
		phs := []int{0}
		if s.P {
			phs = []int{1, 2, 3}
		}
		tss := []int{0}
		if s.T {
			tss = tsteps
		}
		for _, qf := range qfs {
			for _, ph := range phs {
				for _, ts := range tss {
					x := s
					x.QF, x.PH, x.TS = qf, ph, ts
					out = append(out, x)
				}
			}
		}
	}
	return out
}

func patt(n int, seed byte) []byte {
	b := make([]byte, n)
	for i := range b {
		b[i] = seed + byte(i*13)
	}
	return b
}

// admissible builds an admissible input for a shape; k selects among length/content variants.
func admissible(s shape, k int) oin {
	var in oin
	cvals := [][]byte{{0, 0, 0, 0, 0, 0, 0, 0}, {0xff, 0xff, 0xff, 0xff, 0xff, 0xff, 0xff, 0xff}, {1, 2, 3, 4, 5, 6, 7, 8}}
	if s.C {
		in.Counter = cvals[k%3]
	}
	if s.Q {
		min := ref.QMin(s.QF)
		lens := []int{min, min + 1, 64, 127, 128}
		in.Challenge = patt(lens[k%5], byte(0x30+k))
	}
	if s.P {
		in.Password = patt(ref.PLen(s.PH), byte(0x80+k))
	}
	if s.S {
		lens := []int{0, 1, 64, 127, 128}
		in.Session = patt(lens[(k/2)%5], byte(0x11*k))
		if lens[(k/2)%5] == 0 && k%4 == 0 {
			in.Session = nil
		}
	}
	if s.T {
		in.Timestamp = cvals[(k+1)%3]
	}
	return in
}

// junk fills the fields the shape does not select with variant j of arbitrary data.
func junk(s shape, in oin, j int) oin {
	variants := func(n int) []byte {
		switch j % 5 {
		case 0:
			return nil
		case 1:
			return []byte{}
		case 2:
			return []byte{0x5a}
		case 3:
			return patt(n, 0xc3)
		}
		return patt(200, 0xa5)
	}
	if !s.C {
		in.Counter = variants(8)
	}
	if !s.Q {
		in.Challenge = variants(16)
	}
	if !s.P {
		in.Password = variants(20)
	}
	if !s.S {
		in.Session = variants(32)
	}
	if !s.T {
		in.Timestamp = variants(8)
	}
	return in
}

var ocraKeys = func() [][]byte {
	keys := [][]byte{{}, []byte("12345678901234567890"), []byte("12345678901234567890123456789012"), []byte("1234567890123456789012345678901234567890123456789012345678901234"), patt(100, 7)}
	// keys whose canonical base32 text also reads as hexadecimal / decimal (only A-F and 2-7, even length)
	for _, text := range []string{"AAAAAAAAAAAAAAAA", "ABCDEFAB", "22334455", "7777777777777777", "BADCAFE2", "FEEDFACEDEADBEEF", "2345672345672345"} {
		if v, k := ref.B32Classify(text); v == ref.MustAccept && ref.B32Encode(k) == text {
			keys = append(keys, k)
		}
	}
	return keys
}()

// framed re-homes the fields of an input into ONE backing array, each field directly followed
// by the next and sliced WITHOUT a capacity limit (fields cut out of a wire frame or a read
// buffer): an operation that writes behind a field's length lands in its neighbour.
func framed(in oin) (out oin, frame []byte) {
	total := 256
	for _, f := range [][]byte{in.Challenge, in.Counter, in.Password, in.Session, in.Timestamp} {
		total += len(f)
	}
	frame = make([]byte, 0, total)
	place := func(f []byte) []byte {
		if f == nil {
			return nil
		}
		start := len(frame)
		frame = append(frame, f...)
		return frame[start:len(frame):cap(frame)]
	}
	// challenge first, so that its spare capacity covers every later field
	out.Challenge = place(in.Challenge)
	out.Session = place(in.Session)
	out.Counter = place(in.Counter)
	out.Password = place(in.Password)
	out.Timestamp = place(in.Timestamp)
	for i := 0; i < 200; i++ {
		frame = append(frame, 0xC9)
	}
	return out, frame
}
