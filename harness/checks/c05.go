package checks

import (
	"fmt"
	"sort"
	"strings"

	"github.com/ja7ad/otp"
	"github.com/ja7ad/otp/verifharness/ev"
	"github.com/ja7ad/otp/verifharness/ref"
)

func init() { register("C05", "exploration", c05) }

type c05Case struct {
	Via    string `json:"via"` // "config" (SuiteConfig value), "newsuite" (NewSuite), "raw" (NewRawSuite of Shape.Text)
	Shape  shape  `json:"shape"`
	KeyIdx int    `json:"key"`
	In     oin    `json:"input"`
}

func mkSuite(via string, s shape) (otp.Suite, error) {
	if base, ok := strings.CutSuffix(via, "-ptr"); ok {
		// the same suite handed over behind a pointer (*SuiteConfig / *RawSuite satisfy Suite as well)
		su, err := mkSuite(base, s)
		switch v := su.(type) {
		case otp.SuiteConfig:
			return &v, err
		case otp.RawSuite:
			return &v, err
		}
		return su, err
	}
	if via == "edited-raw" || via == "edited-newsuite" {
		// what a caller gets by taking a constructor's result, copying its configuration and EDITING the copy: the
		// suite text is kept, the selection flags and formats are set to what the case says (anything a constructor
		// resolved and tucked away inside the value must not outlive the edit)
		var su otp.Suite
		var err error
		if via == "edited-raw" {
			su, err = otp.NewRawSuite(s.Text)
		} else {
			base := s
			base.C, base.Q, base.P, base.S, base.T = !s.C, true, !s.P, !s.S, !s.T
			base.QF, base.PH, base.TS = 1, 1, 60
			su, err = otp.NewSuite(base.lib())
		}
		if err != nil {
			return nil, err
		}
		cfg := su.Config()
		e := s.lib()
		cfg.IncludeCounter, cfg.IncludeChallenge, cfg.IncludePassword, cfg.IncludeSession, cfg.IncludeTimestamp = e.IncludeCounter, e.IncludeChallenge, e.IncludePassword, e.IncludeSession, e.IncludeTimestamp
		cfg.Challenge, cfg.PasswordHash, cfg.TimeStep, cfg.Hash, cfg.Digits, cfg.Raw = e.Challenge, e.PasswordHash, e.TimeStep, e.Hash, e.Digits, e.Raw
		return cfg, nil
	}
	switch via {
	case "config", "config-framed":
		return s.lib(), nil
	case "newsuite":
		return otp.NewSuite(s.lib())
	default:
		return otp.NewRawSuite(s.Text)
	}
}

func (c c05Case) SecretText() string { return ref.B32Encode(ocraKeys[c.KeyIdx%len(ocraKeys)]) }

// ocraGen runs one generation and compares with the reference.  For via=="raw" the
// reference suite is what the NAME says (independent parser), not what the library parsed.
func ocraGen(c c05Case) (obs, bad string) {
	key := ocraKeys[c.KeyIdx]
	sec := ref.B32Encode(key)
	if c.Via == "config-framed" {
		c.In, _ = framed(c.In)
	}
	var code string
	var err error
	p := try(func() {
		var su otp.Suite
		su, err = mkSuite(c.Via, c.Shape)
		if err != nil {
			return
		}
		code, err = otp.GenerateOCRA(sec, su, c.In.lib())
	})
	if p != "" {
		return "panic:" + p, "panicked: " + p
	}
	obs = code + "|" + errStr(err)
	rs := c.Shape.ref()
	if !ref.Usable(rs) || !ref.Admit(rs, c.In.ref()) {
		return obs, "" // admission is C14's concern
	}
	want := ref.OCRA(key, rs, c.In.ref())
	if err != nil || code != want {
		return obs, "want " + want
	}
	return obs, ""
}

var suiteTexts = []string{"", "x", "OCRA-1:HOTP-SHA1-6:QN08", strings.Repeat("suite-text-", 28), "a\x00b",
	// bytes >= 0x80: well-formed multi-byte UTF-8, lone continuation / lead bytes, every byte value once
	"Caf\u00e9-1:HOTP-SHA1-6:QN08", "\u20ac\U0001F511", "\xe9", "OCRA-1\xff\xfe:\x80", allBytes}

var allBytes = func() string {
	b := make([]byte, 256)
	for i := range b {
		b[i] = byte(255 - i)
	}
	return string(b)
}()

func c05(r *ev.Run) {
	r.Scenario("ocra-generate", func(raw []byte) (string, string) { return ocraGen(unjson[c05Case](raw)) })
	{
		var cs []c05Case
		for i, sh := range usableShapes([]int{60}) {
			x := sh
			x.Hash, x.Digits = i%3, 4+i%7
			x.Text = suiteTexts[i%len(suiteTexts)]
			for k := 0; k < 3; k++ {
				cs = append(cs, c05Case{"config", x, (i + k) % len(ocraKeys), junk(x, admissible(x, k*5+i), k+i)})
			}
		}
		afterWarmups(r, "ocra-generate-after-other-operations", cs, ocraGen)
	}
	if ReplayOnly {
		return
	}
	// (1) registered names
	names := otp.ListSuites()
	sort.Strings(names)
	var n1 int64
	for _, name := range names {
		rs, ok := ref.ParseSuite(name)
		if !ok {
			r.Fail("ocra-generate", "registered-name-outside-scheme "+name, name, "a name of the RFC 6287 scheme", "reference parser cannot read it")
			continue
		}
		sh := shapeOfRef(rs)
		for k := 0; k < 15; k++ {
			for ki := range ocraKeys {
				in := junk(sh, admissible(sh, k), k+ki)
				c := c05Case{[]string{"raw", "raw-ptr"}[ki%2], sh, ki, in}
				obs, bad := ocraGen(c)
				n1++
				if bad != "" {
					r.Fail("ocra-generate", "registered "+name, c, bad, obs)
				}
				r.DistinctS("reg:" + name + obs)
			}
		}
	}
	// edited copies of constructor results: every registered name with each of its five selection flags flipped
	// (formats filled in where a field is switched on), and NewSuite results edited to every usable shape
	var ne int64
	for ni, name := range names {
		rs, ok := ref.ParseSuite(name)
		if !ok {
			continue
		}
		for f := 0; f < 5; f++ {
			sh := shapeOfRef(rs)
			switch f {
			case 0:
				sh.C = !sh.C
			case 1:
				sh.Q = !sh.Q
			case 2:
				sh.P = !sh.P
			case 3:
				sh.S = !sh.S
			case 4:
				sh.T = !sh.T
			}
			if sh.Q && sh.QF == 0 {
				sh.QF = 1
			}
			if sh.P && sh.PH == 0 {
				sh.PH = 1
			}
			if sh.T && sh.TS <= 0 {
				sh.TS = 60
			}
			if !ref.Usable(sh.ref()) {
				continue
			}
			for _, via := range []string{"edited-raw", "edited-newsuite"} {
				c := c05Case{via, sh, (ni + f) % len(ocraKeys), admissible(sh, ni+f)}
				obs, bad := ocraGen(c)
				ne++
				if bad != "" {
					r.Fail("ocra-generate", fmt.Sprintf("%s %s flag#%d flipped", via, name, f), c, bad, obs)
				}
			}
		}
	}
	r.Eval(ne)
	r.Set("edited_constructor_results", ne)
	r.Eval(n1)
	r.Set("registered_suites", len(names))
	// (2) hand-built configurations
	shapes := usableShapes([]int{1, 60})
	// the same shapes with LEFT-OVER metadata on the fields they do not select (a challenge
	// format without Q, a password hash without P, a time step without T): still usable
	// suites, and the unselected fields must stay out of the message
	for _, sh := range usableShapes([]int{60}) {
		x := sh
		if !x.Q {
			x.QF = 3
		}
		if !x.P {
			x.PH = 2
		}
		if !x.T {
			x.TS = 60
		}
		if x != sh {
			shapes = append(shapes, x)
		}
	}
	var jobs []shape
	for _, sh := range shapes {
		for h := 0; h < 3; h++ {
			for d := 4; d <= 10; d++ {
				x := sh
				x.Hash, x.Digits = h, d
				jobs = append(jobs, x)
			}
		}
	}
	r.Set("hand_built_shapes", len(jobs))
	ev.Par(len(jobs), func(i int) {
		base := jobs[i]
		var local int64
		for ti, text := range suiteTexts {
			sh := base
			sh.Text = text
			nin := 6
			if r.Thorough() {
				nin = 15
			}
			for k := 0; k < nin; k++ {
				kk := k + i + ti
				plain := admissible(sh, kk)
				var first string
				jn := 2
				if r.Thorough() {
					jn = 5
				}
				for j := 0; j < jn; j++ {
					in := junk(sh, plain, j*3+kk) // j=0 with kk%5==0 => nil
					if j == 0 {
						in = plain
					}
					for vi, via := range []string{"config", "newsuite", "config-ptr", "newsuite-ptr"} {
						if vi >= 1 && (k+j)%3 != vi-1 && !r.Thorough() {
							continue
						}
						c := c05Case{via, sh, (kk + j) % len(ocraKeys), in}
						if j > 0 {
							c.KeyIdx = kk % len(ocraKeys)
						} else {
							c.KeyIdx = kk % len(ocraKeys)
						}
						obs, bad := ocraGen(c)
						local++
						if bad != "" {
							r.Fail("ocra-generate", "hand-built "+sh.sig()+fmt.Sprintf(" text#%d via=%s", ti, via), c, bad, obs)
						}
						if first == "" {
							first = obs
						} else if obs != first {
							r.Fail("ocra-generate", "unselected-field-influence "+sh.sig(), c, first, obs)
						}
					}
				}
				// the same input with all fields cut out of one frame buffer
				if fin, _ := framed(plain); true {
					c := c05Case{"config", sh, kk % len(ocraKeys), fin}
					obs, bad := ocraGen(c)
					local++
					if bad != "" || obs != first {
						r.Fail("ocra-generate", "framed-input "+sh.sig(), c05Case{"config-framed", sh, kk % len(ocraKeys), plain}, first, obs+" "+bad)
					}
				}
				if ti == 0 {
					r.DistinctS(sh.sig() + first)
				}
			}
		}
		r.Eval(local)
	})
	// (2b) field CONTENTS: the message is bytes - text in any encoding, binary, blanks, zeros - never interpreted
	{
		var nc int64
		for i, sh := range usableShapes([]int{60}) {
			x := sh
			x.Hash, x.Digits, x.Text = i%3, 4+i%7, suiteTexts[(i+2)%len(suiteTexts)]
			for k := 0; k < 5; k++ {
				lens := admissible(x, k)
				for ct := 1; ct < len(c14Contents); ct++ {
					in := oin{refill(lens.Counter, ct), refill(lens.Challenge, ct), refill(lens.Password, ct), refill(lens.Session, ct), refill(lens.Timestamp, ct)}
					c := c05Case{"config", x, (i + k) % len(ocraKeys), in}
					obs, bad := ocraGen(c)
					nc++
					if bad != "" {
						r.Fail("ocra-generate", "content="+c14Contents[ct]+" "+x.sig(), c, bad, obs)
					}
				}
			}
		}
		r.Eval(nc)
		r.Set("content_class_cases", nc)
	}
	// (3) parsed suite strings the library accepts (reduced input set)
	var n3, acc int64
	gs := grammarStrings(false)
	// and other letter cases of the same strings: the message starts with the text AS GIVEN, whatever the parser folds
	for i, name := range grammarStrings(false) {
		switch i % 7 {
		case 0:
			gs = append(gs, strings.ToLower(name))
		case 3:
			b := []byte(name)
			for k := range b {
				if k%2 == 1 && b[k] >= 'A' && b[k] <= 'Z' {
					b[k] |= 0x20
				}
			}
			gs = append(gs, string(b))
		}
	}
	for _, name := range gs {
		su, err := otp.NewRawSuite(name)
		if err != nil {
			continue
		}
		_ = su
		rs, ok := ref.ParseSuite(name)
		if !ok {
			continue // C15 reports fidelity problems
		}
		if !ref.Usable(rs) {
			continue
		}
		acc++
		sh := shapeOfRef(rs)
		for k := 0; k < 3; k++ {
			c := c05Case{"raw", sh, (k + int(acc)) % len(ocraKeys), admissible(sh, k+int(acc))}
			obs, bad := ocraGen(c)
			n3++
			if bad != "" {
				r.Fail("ocra-generate", "parsed "+name, c, bad, obs)
			}
		}
	}
	r.Eval(n3)
	r.Set("parsed_suites_accepted", acc)
	sh := jobs[len(jobs)/2]
	sh.Text = "x"
	r.Sample(map[string]any{"case": c05Case{"config", sh, 1, admissible(sh, 3)}, "ref": ref.OCRA(ocraKeys[1], sh.ref(), admissible(sh, 3).ref())})
	r.Set("alphabet", map[string]any{"suites": "45 registered names; subsets of {C,Q,P,S,T} x 6 challenge formats x 3 password hashes x time steps {1,60} x hash 0..2 x digits 4..10 x 5 suite texts (empty, 1 char, canonical name, 308 bytes, text with NUL) as SuiteConfig and via NewSuite; accepted grammar strings", "inputs": "counter/timestamp 00..,FF..,ramp; challenge min,min+1,64,127,128; session nil,0,1,64,127,128; password exact; unselected fields nil/empty/1 byte/right length/200 bytes", "keys": "lengths 0,20,32,64,100"})
	r.Rule("every suite of the alphabet x rotating admissible inputs x key through GenerateOCRA vs an independent RFC 6287 implementation over the documented layout; for each input the unselected fields are varied and the code must not move; distinct = distinct (suite, output) pairs")
	r.Assume("crypto/hmac; right-padding of session data to 128 bytes as the property states (not RFC 6287's S064 convention)")
}

// grammarStrings enumerates the RFC 6287 naming grammar (full: every time value; otherwise a boundary set).
func grammarStrings(full bool) []string {
	var out []string
	tvals := []string{"", "-T1S", "-T30S", "-T59S", "-T1M", "-T59M", "-T1H", "-T48H"}
	if full {
		tvals = []string{""}
		for n := 1; n <= 59; n++ {
			tvals = append(tvals, fmt.Sprintf("-T%dS", n), fmt.Sprintf("-T%dM", n))
		}
		for n := 1; n <= 48; n++ {
			tvals = append(tvals, fmt.Sprintf("-T%dH", n))
		}
	}
	for _, h := range []string{"SHA1", "SHA256", "SHA512"} {
		for d := 0; d <= 11; d++ {
			for _, c := range []string{"", "C-"} {
				for _, qf := range []string{"N", "A", "H"} {
					for _, ql := range []string{"08", "10"} {
						for _, p := range []string{"", "-PSHA1", "-PSHA256", "-PSHA512"} {
							for _, s := range []string{"", "-S", "-S064", "-S128", "-S512"} {
								for _, t := range tvals {
									out = append(out, fmt.Sprintf("OCRA-1:HOTP-%s-%d:%sQ%s%s%s%s%s", h, d, c, qf, ql, p, s, t))
								}
							}
						}
					}
				}
			}
		}
	}
	return out
}

// refill keeps a field's length (and nil-ness) and replaces its bytes by a content class of C14.
func refill(b []byte, content int) []byte {
	if b == nil {
		return nil
	}
	return fillContent(len(b), 0, content)
}
