package checks

import (
	"bytes"
	"compress/gzip"
	"compress/zlib"
	"encoding/hex"
	"encoding/json"
	"fmt"
	"io"
	"net/url"
	"sort"
	"strings"
	"sync"

	"github.com/ja7ad/otp/verifharness/ref"
)

// rreq is one REST request of the alphabet.
type rreq struct {
	Method string         `json:"method"`
	Path   string         `json:"path"`
	Query  string         `json:"query,omitempty"`
	Fields map[string]any `json:"fields,omitempty"` // JSON body (nil = no body)
	Raw    *string        `json:"raw_body,omitempty"`
	// Headers are request header fields sent besides Host / Content-Type / Content-Length ("" = sent with an empty value)
	Headers map[string]string `json:"headers,omitempty"`
	// Packed, if set, is the body: compressed bytes generated from a description (binary bodies do not survive JSON)
	Packed *packed `json:"packed_body,omitempty"`
}

func (q rreq) uri() string {
	if q.Query != "" {
		return q.Path + "?" + q.Query
	}
	return q.Path
}

// packed describes a compressed request body by what it inflates to: Head + Blanks spaces + Tail.
type packed struct {
	Encoding string `json:"encoding"` // "gzip" or "deflate" (zlib framing, RFC 9110)
	Head     string `json:"head"`
	Blanks   int    `json:"blanks"`
	Tail     string `json:"tail"`
}

var packedCache sync.Map

func (p packed) bytes() []byte {
	k := fmt.Sprint(p)
	if b, ok := packedCache.Load(k); ok {
		return b.([]byte)
	}
	var buf bytes.Buffer
	var w io.WriteCloser
	if p.Encoding == "gzip" {
		w, _ = gzip.NewWriterLevel(&buf, gzip.BestCompression)
	} else {
		w, _ = zlib.NewWriterLevel(&buf, zlib.BestCompression)
	}
	io.WriteString(w, p.Head)
	chunk := bytes.Repeat([]byte{' '}, 1<<20)
	for n := p.Blanks; n > 0; n -= len(chunk) {
		if n < len(chunk) {
			chunk = chunk[:n]
		}
		w.Write(chunk)
	}
	io.WriteString(w, p.Tail)
	w.Close()
	packedCache.Store(k, buf.Bytes())
	return buf.Bytes()
}

func (q rreq) body() []byte {
	if q.Packed != nil {
		return q.Packed.bytes()
	}
	if q.Raw != nil {
		return []byte(*q.Raw)
	}
	if q.Fields == nil {
		return nil
	}
	b, _ := json.Marshal(q.Fields)
	return b
}

// rexp is what the reference says about a well-formed request.
type rexp struct {
	Fail   bool           // a failure status (>= 400) is expected
	Fields map[string]any // on success: these JSON fields must be present with exactly these values
	Either bool           // both verdicts acceptable (clock moved across a step boundary)
	Now0   int64          // the instants bracketing the request (for requests without a timestamp)
	Now1   int64
	Note   string
}

func fstr(f map[string]any, k string) (string, bool) {
	v, ok := f[k]
	if !ok {
		return "", false
	}
	s, ok := v.(string)
	return s, ok
}

func fu64(f map[string]any, k string) uint64 {
	switch v := f[k].(type) {
	case uint64:
		return v
	case int:
		return uint64(v)
	case int64:
		return uint64(v)
	case float64:
		return uint64(v)
	case json.Number:
		var u uint64
		fmt.Sscan(string(v), &u)
		return u
	}
	return 0
}

func refAlgo(s string) int {
	switch s {
	case "SHA256":
		return 1
	case "SHA512":
		return 2
	}
	return 0 // "SHA1" and every unknown spelling fall back to SHA-1
}

func refDigits(s string) int {
	switch s {
	case "8":
		return 8
	case "9":
		return 9
	case "10":
		return 10
	}
	return 6
}

func refAlgoName(a int) string { return []string{"SHA1", "SHA256", "SHA512"}[a] }

// secretKey decodes the request's secret the way the property demands (surrounding white
// space is insignificant); ok=false if it is blank/absent or not base32.
func secretKey(f map[string]any) (key []byte, present, ok bool) {
	s, has := fstr(f, "secret")
	if !has || strings.TrimSpace(s) == "" {
		return nil, false, false
	}
	v, k := ref.B32Classify(s)
	if v == ref.MustAccept {
		return k, true, true
	}
	return nil, true, false
}

// restExpect is the reference mapping of request fields onto results.  now0/now1 bracket
// the instant the request was processed (for requests without a timestamp).
func restExpect(q rreq, now0, now1 int64) rexp {
	f := q.Fields
	if f == nil {
		f = map[string]any{}
	}
	algoS, _ := fstr(f, "algorithm")
	digS, _ := fstr(f, "digits")
	a, d := refAlgo(algoS), refDigits(digS)
	switch q.Path {
	case "/hotp/generate":
		key, present, ok := secretKey(f)
		if !present || !ok {
			return rexp{Fail: true}
		}
		c := fu64(f, "counter")
		out := map[string]any{"code": ref.HOTP(key, c, d, a)}
		if c != 0 {
			out["counter"] = c
		}
		return rexp{Fields: out}
	case "/totp/generate":
		key, present, ok := secretKey(f)
		if !present || !ok {
			return rexp{Fail: true}
		}
		per := fu64(f, "period")
		ts := int64(fu64(f, "timestamp"))
		if ts <= 0 {
			return rexp{Note: "now", Now0: now0, Now1: now1, Fields: map[string]any{"code": func(echo int64) string { return ref.HOTP(key, ref.Step(echo, per), d, a) }}}
		}
		return rexp{Fields: map[string]any{"code": ref.HOTP(key, ref.Step(ts, per), d, a), "timestamp": uint64(ts)}}
	case "/hotp/validate", "/totp/validate":
		key, present, ok := secretKey(f)
		code, hasCode := fstr(f, "code")
		if !present || !hasCode || strings.TrimSpace(code) == "" {
			return rexp{Fail: true}
		}
		if !ok {
			return rexp{Fields: map[string]any{"valid": false}}
		}
		s := fu64(f, "skew")
		if s > 10 {
			return rexp{Fields: map[string]any{"valid": false}}
		}
		// the window below counter 0: the library's HOTP validator cuts it at 0 (C03); its TOTP validator computes
		// step-s ... step+s modulo 2^64, so for an instant in the first s steps the codes of counters 2^64-s ... belong
		// to the window (C04 leaves those instants out; the service has to give the LIBRARY's verdict there too)
		wrap := q.Path == "/totp/validate"
		verdict := func(center uint64) bool {
			lo := uint64(0)
			if center >= s || wrap {
				lo = center - s
			}
			for x := lo; ; x++ {
				if ref.HOTP(key, x, d, a) == code {
					return true
				}
				if x == center+s {
					break
				}
			}
			return false
		}
		if q.Path == "/hotp/validate" {
			return rexp{Fields: map[string]any{"valid": verdict(fu64(f, "counter"))}}
		}
		per := fu64(f, "period")
		ts := int64(fu64(f, "timestamp"))
		if ts <= 0 {
			v0, v1 := verdict(ref.Step(now0, per)), verdict(ref.Step(now1, per))
			return rexp{Fields: map[string]any{"valid": v0}, Either: v0 != v1}
		}
		return rexp{Fields: map[string]any{"valid": verdict(ref.Step(ts, per))}}
	case "/ocra/generate", "/ocra/validate":
		key, present, ok := secretKey(f)
		if !present {
			return rexp{Fail: true}
		}
		var rs ref.OCRASuite
		raw, _ := fstr(f, "raw_suite")
		sm, hasSuite := f["suite"].(map[string]any)
		switch {
		case strings.TrimSpace(raw) != "":
			s, good := ref.ParseSuite(raw)
			if !good || !restKnown(raw) {
				return rexp{Fail: true}
			}
			rs = s
		case hasSuite:
			hs, _ := fstr(sm, "hash_function")
			rs = ref.OCRASuite{Text: "", Hash: refAlgo(hs), Digits: int(int64(fu64(sm, "code_digits"))), QFormat: int(fu64(sm, "challenge_format")), PHash: int(fu64(sm, "password_hash")), TimeStep: int(fu64(sm, "timestep"))}
			rs.C, _ = sm["include_counter"].(bool)
			rs.Q, _ = sm["include_challenge"].(bool)
			rs.P, _ = sm["include_password"].(bool)
			rs.S, _ = sm["include_session"].(bool)
			rs.T, _ = sm["include_timestamp"].(bool)
		default:
			return rexp{Fail: true}
		}
		im, hasIn := f["input"].(map[string]any)
		if !hasIn {
			return rexp{Fail: true}
		}
		var in ref.OCRAIn
		bad := false
		dec := func(k string) []byte {
			s, _ := fstr(im, k)
			if s == "" {
				return nil
			}
			b, err := hex.DecodeString(s)
			if err != nil {
				bad = true
			}
			return b
		}
		in.Counter, in.Challenge, in.Password, in.Session, in.Timestamp = dec("counter_hex"), dec("challenge_hex"), dec("password_hex"), dec("session_info_hex"), dec("timestamp_hex")
		if q.Path == "/ocra/validate" {
			code, hasCode := fstr(f, "code")
			if !hasCode || strings.TrimSpace(code) == "" {
				return rexp{Fail: true}
			}
			if !ref.Usable(rs) && raw == "" || bad {
				return rexp{Fail: true}
			}
			if !ok || !ref.Admit(rs, in) {
				return rexp{Fields: map[string]any{"valid": false}}
			}
			return rexp{Fields: map[string]any{"valid": ref.OCRA(key, rs, in) == code}}
		}
		if !ok || bad || !ref.Usable(rs) || !ref.Admit(rs, in) {
			return rexp{Fail: true}
		}
		return rexp{Fields: map[string]any{"code": ref.OCRA(key, rs, in), "suite?": rs.Text}}
	case "/ocra/suite":
		raw, _ := fstr(f, "raw_suite")
		rs, good := ref.ParseSuite(raw)
		if !good || !restKnown(raw) {
			return rexp{Fail: true}
		}
		cfg := map[string]any{"hash_function": refAlgoName(rs.Hash), "code_digits": uint64(rs.Digits), "include_counter": rs.C, "include_challenge": rs.Q, "include_password": rs.P, "include_session": rs.S, "include_timestamp": rs.T}
		// metadata of inputs the name does not select is absent or zero (uint64 0 also matches an absent field):
		// the reported configuration says what the name says and nothing else
		cfg["challenge_format"], cfg["password_hash"], cfg["timestep"] = uint64(0), uint64(0), uint64(0)
		if rs.Q {
			cfg["challenge_format"] = uint64(rs.QFormat)
		}
		if rs.P {
			cfg["password_hash"] = uint64(rs.PHash)
		}
		if rs.T {
			cfg["timestep"] = uint64(rs.TimeStep)
		}
		return rexp{Fields: map[string]any{"raw": raw, "config": cfg}}
	case "/otp/url":
		ty, _ := fstr(f, "type")
		sec, _ := fstr(f, "secret")
		iss, _ := fstr(f, "issuer")
		acc, _ := fstr(f, "account_name")
		if strings.TrimSpace(ty) == "" || strings.TrimSpace(sec) == "" || strings.TrimSpace(iss) == "" || strings.TrimSpace(acc) == "" || (ty != "totp" && ty != "hotp") {
			return rexp{Fail: true}
		}
		per := fu64(f, "period")
		if per == 0 {
			per = 30
		}
		return rexp{Fields: map[string]any{"url": func(got string) string {
			u, err := url.Parse(got)
			if err != nil {
				return "unparsable url"
			}
			if u.Scheme != "otpauth" || u.Host != ty {
				return "scheme/type"
			}
			label := strings.TrimPrefix(u.Path, "/")
			if label != iss+":"+acc {
				return fmt.Sprintf("label %q, want %q", label, iss+":"+acc)
			}
			qv := u.Query()
			if qv.Get("secret") != sec || qv.Get("issuer") != iss || qv.Get("algorithm") != refAlgoName(a) || qv.Get("digits") != fmt.Sprint(d) {
				return "query parameters " + u.RawQuery
			}
			if ty == "totp" && qv.Get("period") != fmt.Sprint(per) {
				return "period " + qv.Get("period")
			}
			return ""
		}}}
	case "/otp/secret":
		qa, _ := url.ParseQuery(q.Query)
		al := refAlgo(qa.Get("algorithm"))
		return rexp{Fields: map[string]any{"algorithm": refAlgoName(al), "secret": ref.HashLen(al)}}
	case "/ocra/suites":
		return rexp{Fields: map[string]any{"suites": "registry"}}
	}
	return rexp{Fail: true}
}

// the advertised registry as the reference sees it (filled once from the library's list,
// whose fidelity is C15's concern)
var restKnownSet map[string]bool

func restKnown(name string) bool { return restKnownSet[name] }

// compareResp checks a response against the expectation; echoTS handles "now".
func compareResp(q rreq, e rexp, resp restResp, streamWant func(n int) string) string {
	if e.Fail {
		if resp.Status < 400 {
			return fmt.Sprintf("status %d, want a failure status (>= 400)", resp.Status)
		}
		return ""
	}
	if resp.Status != 200 {
		return fmt.Sprintf("status %d body %s, want 200", resp.Status, trunc80(resp.Body))
	}
	var got map[string]any
	dec := json.NewDecoder(strings.NewReader(resp.Body))
	dec.UseNumber()
	if err := dec.Decode(&got); err != nil {
		return "response body is not a JSON object: " + trunc80(resp.Body)
	}
	num := func(v any) (uint64, bool) {
		n, ok := v.(json.Number)
		if !ok {
			return 0, false
		}
		var u uint64
		_, err := fmt.Sscan(string(n), &u)
		return u, err == nil
	}
	var cmp func(path string, want, have any) string
	cmp = func(path string, want, have any) string {
		switch w := want.(type) {
		case string:
			if h, ok := have.(string); !ok || h != w {
				return fmt.Sprintf("%s = %v, want %q", path, have, w)
			}
		case bool:
			if h, ok := have.(bool); !ok || h != w {
				if e.Either {
					return ""
				}
				return fmt.Sprintf("%s = %v, want %v", path, have, w)
			}
		case uint64:
			if h, ok := num(have); !ok || h != w {
				if have == nil && w == 0 {
					return ""
				}
				return fmt.Sprintf("%s = %v, want %d", path, have, w)
			}
		case map[string]any:
			hm, ok := have.(map[string]any)
			if !ok {
				return path + " is not an object"
			}
			for _, k := range sortedKeys(w) {
				if d := cmp(path+"."+k, w[k], hm[k]); d != "" {
					return d
				}
			}
		}
		return ""
	}
	for _, k := range sortedKeys(e.Fields) {
		w := e.Fields[k]
		switch {
		case k == "suite?":
			if s, _ := got["suite"].(string); s != w.(string) {
				return fmt.Sprintf("suite = %q, want %q", s, w)
			}
		case k == "code" && e.Note == "now":
			ts, ok := num(got["timestamp"])
			if !ok {
				return fmt.Sprintf("no (non-negative) timestamp echoed for a request without timestamp: %v", got["timestamp"])
			}
			if e.Now0 > 0 && (int64(ts) < e.Now0-1 || int64(ts) > e.Now1+1) {
				return fmt.Sprintf("a request without timestamp was answered for instant %d, but it was sent between %d and %d", ts, e.Now0, e.Now1)
			}
			if want := w.(func(int64) string)(int64(ts)); got["code"] != want {
				return fmt.Sprintf("code = %v, want %s (reference at the echoed timestamp %d)", got["code"], want, ts)
			}
		case k == "url":
			s, _ := got["url"].(string)
			if d := w.(func(string) string)(s); d != "" {
				return "url " + s + ": " + d
			}
		case k == "secret" && q.Path == "/otp/secret":
			s, _ := got["secret"].(string)
			n := w.(int)
			if streamWant != nil {
				if want := streamWant(n); s != want {
					return fmt.Sprintf("secret = %q, want %q (base32 of the next %d bytes of the random source)", s, want, n)
				}
			} else if v, b := ref.B32Classify(s); v != ref.MustAccept || len(b) != n || s != strings.ToUpper(s) || strings.Contains(s, "=") {
				return fmt.Sprintf("secret %q is not unpadded upper-case base32 of %d bytes", s, n)
			}
		case k == "suites":
			l, _ := got["suites"].([]any)
			var names []string
			for _, x := range l {
				s, _ := x.(string)
				names = append(names, s)
			}
			sort.Strings(names)
			var want []string
			for n := range restKnownSet {
				want = append(want, n)
			}
			sort.Strings(want)
			if strings.Join(names, ",") != strings.Join(want, ",") {
				return fmt.Sprintf("suite list has %d entries, registry %d (or differs)", len(names), len(want))
			}
		default:
			if d := cmp(k, w, got[k]); d != "" {
				return d
			}
		}
	}
	return ""
}

func sortedKeys(m map[string]any) []string {
	var ks []string
	for k := range m {
		ks = append(ks, k)
	}
	sort.Strings(ks)
	return ks
}
