//go:build instr

package checks

import (
	"bufio"
	"encoding/json"
	"fmt"
	"hash"
	"net/url"
	"os"
	"os/exec"
	"sort"
	"strings"
	"sync"
	"time"

	"github.com/ja7ad/otp"
	"github.com/ja7ad/otp/verifharness/ev"
	"github.com/ja7ad/otp/verifharness/irt"
	"github.com/ja7ad/otp/verifharness/ref"
)

func init() { register("C10", "exploration", c10) }

type c10Case struct {
	Op    string `json:"op"`
	Index int    `json:"index"`
	Desc  string `json:"args,omitempty"`
}

// desc is one exported operation: how many argument combinations there are and how to
// run combination i (mixed radix over the per-parameter alphabets).
type desc struct {
	name  string
	api   string // name in the exported-API list
	radix []int
	run   func(ix []int) (args string, f func())
}

func (d desc) count() int {
	n := 1
	for _, r := range d.radix {
		n *= r
	}
	return n
}

func (d desc) at(i int) (string, func()) {
	ix := make([]int, len(d.radix))
	for k := len(d.radix) - 1; k >= 0; k-- {
		ix[k] = i % d.radix[k]
		i /= d.radix[k]
	}
	return d.run(ix)
}

const c10Budget = 10_000_000

var lastSteps int64

var (
	aSecrets = []string{"", " ", "GEZDGNBVGY3TQOJQGEZDGNBVGY3TQOJQ", "gezdgnbvgy3tqojq", "MZXW6===", "!!!!", "123456", strings.Repeat("A", 65536), strings.Repeat("-", 65536), "\xff\xfe", "\x00", "ıſK", "MZXW6YTB0", "MZ=XW"}
	aCodes   = []string{"", "123456", "1234567", "0", strings.Repeat("7", 65536), "\xff\xfe\xfd\xfc\xfb\xfa", "１２３４５６", "12345\x00", "      "}
	aU64     = []uint64{0, 1, 2, 10, 11, 29, 30, 1<<31 - 1, 1 << 31, 1<<32 - 1, 1 << 32, 1<<63 - 1, 1 << 63, ^uint64(0)}
	aTimes   = []time.Time{{}, time.Unix(-(1 << 62), 0), time.Unix(-1, 0), time.Unix(0, 0), time.Unix(1, 0), time.Unix(59, 999999999), time.Unix(1<<31, 0), time.Unix(1<<62, 0), time.Date(1, 1, 1, 0, 0, 0, 0, time.UTC), time.Date(9999, 12, 31, 23, 59, 59, 0, time.FixedZone("x", -12*3600))}
	aLens    = []int{-1, 0, 1, 7, 8, 9, 10, 19, 20, 21, 31, 32, 33, 63, 64, 65, 127, 128, 129, 255, 256, 257, 65536}
	aStrings = []string{"", " ", "0", "12345678", "-1", "+1", "18446744073709551616", strings.Repeat("9", 65536), strings.Repeat("0", 65536), "abc", "\xff\xfe", "\x00", "ıſK", strings.Repeat(":", 32768), strings.Repeat("-T1M", 8192), "0x10", "1e9", "FFFFFFFFFFFFFFFF", "abcdef0", strings.Repeat("f", 65536)}
	aSuiteS  = []string{"", "OCRA-1:HOTP-SHA1-6:QN08", "OCRA-1:HOTP-SHA256-8:C-QA10-PSHA256-S-T1", "OCRA-1:HOTP-SHA512-10:C-QN10-PSHA512-S064-T48H", "OCRA-1:HOTP-SHA1-0:QN08", "OCRA-1:HOTP-SHA1-99999999999999999999:QN08", "OCRA-1:HOTP-SHA1-6:QN08-T99999999999999999H", "OCRA-1:HOTP-SHA1-6:QN08-T9223372036854775807S", "OCRA-1:HOTP-SHA1-6:T", "OCRA-1:HOTP-SHA1-6:TM", "OCRA-1:HOTP-:QN08", "OCRA-1:HOTP:QN08", "OCRA-1:H", "::", strings.Repeat(":", 32768), "OCRA-1:HOTP-SHA1-6:" + strings.Repeat("-T1M", 8192), "OCRA-1:HOTP-SHA1-6:" + strings.Repeat("C-", 30000), "\xff:\xfe:\xfd", "OCRA-1:HOTP-SHA1-6:QN08-PSHA", "OCRA-1:HOTP-SHA1-6:Q", "OCRA-1:HOTP-SHA1-6:S", "OCRA-1:HOTP-SHA1-6:P"}
)

// editNeighbours returns every single-position edit of s over a small alphabet of traps:
// letters that case-fold into ASCII (U+017F, U+0131, U+212A), invalid UTF-8, deletion,
// duplication, a digit, a sign, a separator.
func editNeighbours(s string) []string {
	subs := []string{"ſ", "ı", "K", "\xff", "", "9", "+", "-", ":", " "}
	var out []string
	for i := 0; i < len(s); i++ {
		for _, r := range subs {
			out = append(out, s[:i]+r+s[i+1:])
		}
		out = append(out, s[:i]+s[i:i+1]+s[i:]) // duplicate one character
	}
	return out
}

func init() {
	// accepted suite strings of every length class around the pooled buffer's capacity
	for _, n := range []int{100, 116, 117, 118, 119, 500, 30000} {
		aSuiteS = append(aSuiteS, "OCRA-1:HOTP-SHA1-6:QN08"+strings.Repeat("-C", n), "OCRA-1:HOTP-SHA512-8:C-QH10-PSHA1-S128-T1M"+strings.Repeat("-S", n))
	}
	for _, base := range []string{"OCRA-1:HOTP-SHA1-6:QN08-S12", "OCRA-1:HOTP-SHA256-8:C-QA10-PSHA256-S064-T1M", "OCRA-1:HOTP-SHA512-10:QH10-T48H"} {
		aSuiteS = append(aSuiteS, editNeighbours(base)...)
	}
	// the same traps in the other text-taking operations
	for _, base := range []string{"GEZDGNBVGY3TQOJQ", "12345678", "0123456789abcdef"} {
		for i, e := range editNeighbours(base) {
			if i%3 == 0 {
				aStrings = append(aStrings, e)
			}
		}
	}
}

func aSuiteSLong() []string {
	var out []string
	for _, n := range []int{100, 116, 117, 118, 119, 500, 30000} {
		out = append(out, "OCRA-1:HOTP-SHA1-6:QN08"+strings.Repeat("-C", n), "OCRA-1:HOTP-SHA512-8:C-QH10-PSHA1-S128-T1M"+strings.Repeat("-S", n))
	}
	return out
}

func mkLen(n int, seed byte) []byte {
	if n < 0 {
		return nil
	}
	b := make([]byte, n)
	for i := 0; i < n && i < 300; i++ {
		b[i] = seed + byte(i)
	}
	return b
}

// params: nil, zero value, and every field from its alphabet.
type pSpec struct {
	nilP         bool
	d, a         int
	period, skew uint64
}

func (p pSpec) param() *otp.Param {
	if p.nilP {
		return nil
	}
	return &otp.Param{Digits: otp.Digits(p.d), Algorithm: otp.Algorithm(p.a), Period: uint(p.period), Skew: uint(p.skew)}
}

var aParams = func() []pSpec {
	out := []pSpec{{nilP: true}, {}}
	// all 256 x 256 (digits, hash) with ordinary period/skew
	for d := 0; d < 256; d++ {
		for a := 0; a < 256; a++ {
			out = append(out, pSpec{d: d, a: a, period: 30, skew: 1})
		}
	}
	// period/skew extremes with a small (digits, hash) set
	for _, d := range []int{0, 1, 6, 10, 11, 255} {
		for _, a := range []int{0, 2, 3, 255} {
			for _, per := range []uint64{0, 1, 30, 1<<32 - 1, 1 << 32, 1<<63 - 1, 1 << 63, ^uint64(0)} {
				for _, sk := range []uint64{0, 1, 10, 11, 1 << 32, 1<<63 - 1, 1 << 63, ^uint64(0)} {
					out = append(out, pSpec{d: d, a: a, period: per, skew: sk})
				}
			}
		}
	}
	return out
}()

// a reduced parameter set for operations whose other arguments are many
var aParamsSmall = func() []pSpec {
	var out []pSpec
	for i, p := range aParams {
		if i < 2 || (p.period != 30 || (p.d%37 == 0 && p.a%51 == 0)) {
			out = append(out, p)
		}
	}
	return out
}()

func suiteConfigs() []otp.SuiteConfig {
	var out []otp.SuiteConfig
	for m := 0; m < 32; m++ {
		for _, qf := range []int{-1, 0, 1, 2, 3, 4, 5, 6, 7, 1 << 31} {
			for _, ph := range []int{-1, 0, 1, 2, 3, 7, 1 << 31} {
				for _, d := range []int{-1 << 63, -1, 0, 3, 4, 6, 10, 11, 12, 255, 1 << 31, 1<<63 - 1, 260, 262, 266, 65542, 1<<32 + 6, -250} {
					for _, h := range []int{0, 1, 2, 3, 4, 255} {
						for _, ts := range []int{-1, 0, 1, 60} {
							if (m+qf+ph+d+h+ts)%3 != 0 && !(qf >= 0 && qf <= 6 && ph >= 0 && ph <= 3) {
								continue
							}
							out = append(out, otp.SuiteConfig{Raw: "x", Hash: otp.Algorithm(h), Digits: d, Challenge: otp.ChallengeFormat(qf), IncludeCounter: m&1 != 0, IncludeChallenge: m&2 != 0, IncludePassword: m&4 != 0, IncludeSession: m&8 != 0, IncludeTimestamp: m&16 != 0, PasswordHash: otp.PasswordHashAlgorithm(ph), TimeStep: ts})
						}
					}
				}
			}
		}
	}
	// arbitrary suite-string text on usable configurations: empty, around 256 bytes, huge
	for i, n := range []int{0, 1, 254, 255, 256, 257, 1024, 65536} {
		raw := strings.Repeat("r", n)
		out = append(out, otp.SuiteConfig{Raw: raw, Hash: otp.Algorithm(i % 3), Digits: 6, Challenge: 1, IncludeChallenge: true},
			otp.SuiteConfig{Raw: raw, Hash: otp.Algorithm(i % 3), Digits: 8, Challenge: 6, IncludeCounter: true, IncludeChallenge: true, IncludePassword: true, IncludeSession: true, IncludeTimestamp: true, PasswordHash: 1, TimeStep: 60})
	}
	return out
}

func ocraInputs() []otp.OCRAInput {
	var out []otp.OCRAInput
	base := [5]int{8, 16, 20, 5, 8}
	for f := 0; f < 5; f++ {
		for _, n := range aLens {
			l := base
			l[f] = n
			out = append(out, otp.OCRAInput{Counter: mkLen(l[0], 1), Challenge: mkLen(l[1], 2), Password: mkLen(l[2], 3), SessionInfo: mkLen(l[3], 4), Timestamp: mkLen(l[4], 5)})
		}
	}
	for _, n := range aLens {
		out = append(out, otp.OCRAInput{Counter: mkLen(n, 1), Challenge: mkLen(n, 2), Password: mkLen(n, 3), SessionInfo: mkLen(n, 4), Timestamp: mkLen(n, 5)})
	}
	return out
}

func urls() []*url.URL {
	out := []*url.URL{nil, {}}
	for _, s := range []string{"otpauth://totp/I:a?secret=A", "otpauth://hotp/I:a?secret=A&digits=262&period=-1", "otpauth://totp/?", "otpauth://totp", "otpauth:///", "otpauth:opaque", "http://x/y", "otpauth://totp/%FF:%00?secret=%FF&digits=%FF", "otpauth://TOTP/a:b:c?algorithm=&digits=&period=", "otpauth://totp/I:a?digits=99999999999999999999&period=99999999999999999999", "otpauth://totp/" + strings.Repeat("A", 65536) + ":" + strings.Repeat("b", 65536), "otpauth://totp/I:a?" + strings.Repeat("digits=6&", 8000)} {
		if u, err := url.Parse(s); err == nil {
			out = append(out, u)
		}
	}
	// label / issuer-parameter relations and parameter forms
	for _, ty := range []string{"totp", "hotp", "TOTP", "xotp", ""} {
		for _, label := range []string{"", "x", "x:", ":y", "x:y", "x:y:z", "x%3Ay", "Acme", "Acme:", "%41cme", "a%2Fb:c", "%zz",
			// labels whose issuer or account part is empty after trimming, or nothing but blanks / controls
			"x:%20", "x:%20%20%20", "%20:y", "%20", "%20:%20", "%20%20:%20%20", "x:%09", "x:%0A", "x:+", "x:%00", "x:%20y%20", "%3A", "x%3A%20", "x:%E2%80%83", "x:%C2%A0", ":%20", "%20:", "x:%20:%20"} {
			for _, iss := range []string{"\x00absent", "", "x", "y", "Acme", "Acme:", "x:y", "Acm", "Acmee"} {
				for _, rest := range []string{"secret=A", "", "secret=A&digits=8&period=60&algorithm=SHA256", "digits=&period=&algorithm=", "secret=%zz"} {
					q := rest
					if iss != "\x00absent" {
						q = "issuer=" + url.QueryEscape(iss) + "&" + rest
					}
					if u, err := url.Parse("otpauth://" + ty + "/" + label + "?" + q); err == nil {
						out = append(out, u)
					}
				}
			}
		}
	}
	out = append(out, &url.URL{Scheme: "otpauth", Host: "totp", Path: "no-leading-slash:x"}, &url.URL{Scheme: "otpauth", Host: "totp", Path: "/a:b", RawQuery: "%zz=%zz&digits=;;;"}, &url.URL{Scheme: "otpauth", Host: "hotp", Opaque: "x", Path: ":"}, &url.URL{Scheme: "otpauth", Host: "totp", Path: "/:", RawQuery: "period=007"})
	return out
}

func c10Descs() []desc {
	P, PS := aParams, aParamsSmall
	sc := suiteConfigs()
	oi := ocraInputs()
	us := urls()
	sh := func(s string) string {
		if len(s) > 24 {
			return fmt.Sprintf("%q…(%d bytes)", s[:24], len(s))
		}
		return fmt.Sprintf("%q", s)
	}
	ps := func(p pSpec) string {
		if p.nilP {
			return "nil"
		}
		return fmt.Sprintf("{Digits:%d Algorithm:%d Period:%d Skew:%d}", p.d, p.a, p.period, p.skew)
	}
	var suitesV func(i int) (otp.Suite, string)
	// every third suite argument goes behind a pointer (*RawSuite / *SuiteConfig implement Suite as well)
	suites := func(i int) (otp.Suite, string) {
		su, d := suitesV(i)
		if i%3 == 1 {
			switch v := su.(type) {
			case otp.RawSuite:
				return &v, "&" + d
			case otp.SuiteConfig:
				return &v, "&" + d
			}
		}
		return su, d
	}
	suitesV = func(i int) (otp.Suite, string) {
		if i < len(aSuiteS) {
			s, err := otp.NewRawSuite(aSuiteS[i])
			if err != nil {
				return otp.RawSuite{}, "RawSuite{} (from rejected " + sh(aSuiteS[i]) + ")"
			}
			return s, "NewRawSuite(" + sh(aSuiteS[i]) + ")"
		}
		c := sc[(i-len(aSuiteS))%len(sc)]
		return c, fmt.Sprintf("%+v", c)
	}
	nSuites := len(aSuiteS) + len(sc)
	ds := []desc{
		{"GenerateHOTP", "GenerateHOTP", []int{len(aSecrets), len(aU64), len(P)}, func(ix []int) (string, func()) {
			s, c, p := aSecrets[ix[0]], aU64[ix[1]], P[ix[2]]
			if ix[0] > 3 && ix[2] > 300 && ix[2]%17 != 0 {
				return "", nil
			}
			return fmt.Sprintf("%s, %d, %s", sh(s), c, ps(p)), func() { otp.GenerateHOTP(s, c, p.param()) }
		}},
		{"ValidateHOTP", "ValidateHOTP", []int{4, len(aCodes), len(aU64), len(PS)}, func(ix []int) (string, func()) {
			s, code, c, p := aSecrets[[]int{2, 0, 5, 7}[ix[0]]], aCodes[ix[1]], aU64[ix[2]], PS[ix[3]]
			if p.skew > 10 && p.skew < 1<<62 && len(code) == p.d {
				// a refused window must not be walked: bounded by the statement budget anyway
			}
			return fmt.Sprintf("%s, %s, %d, %s", sh(s), sh(code), c, ps(p)), func() { otp.ValidateHOTP(s, code, c, p.param()) }
		}},
		{"ValidateHOTP-code-of-length-digits", "ValidateHOTP", []int{256, 6, 3}, func(ix []int) (string, func()) {
			d, a, c := ix[0], []int{0, 1, 2, 3, 4, 255}[ix[1]], []uint64{0, 1 << 63, ^uint64(0)}[ix[2]]
			code := strings.Repeat("1", d)
			p := pSpec{d: d, a: a, skew: 2}
			return fmt.Sprintf("%s, %s, %d, %s", sh(aSecrets[2]), sh(code), c, ps(p)), func() { otp.ValidateHOTP(aSecrets[2], code, c, p.param()) }
		}},
		{"GenerateTOTP", "GenerateTOTP", []int{len(aSecrets), len(aTimes), len(PS)}, func(ix []int) (string, func()) {
			s, t, p := aSecrets[ix[0]], aTimes[ix[1]], PS[ix[2]]
			return fmt.Sprintf("%s, unix %d, %s", sh(s), t.Unix(), ps(p)), func() { otp.GenerateTOTP(s, t, p.param()) }
		}},
		{"GenerateTOTP-all-digits-hash", "GenerateTOTP", []int{3, len(P)}, func(ix []int) (string, func()) {
			t, p := aTimes[[]int{0, 5, 7}[ix[0]]], P[ix[1]]
			return fmt.Sprintf("%s, unix %d, %s", sh(aSecrets[2]), t.Unix(), ps(p)), func() { otp.GenerateTOTP(aSecrets[2], t, p.param()) }
		}},
		{"ValidateTOTP", "ValidateTOTP", []int{3, len(aCodes), len(aTimes), len(PS)}, func(ix []int) (string, func()) {
			s, code, t, p := aSecrets[[]int{2, 0, 5}[ix[0]]], aCodes[ix[1]], aTimes[ix[2]], PS[ix[3]]
			return fmt.Sprintf("%s, %s, unix %d, %s", sh(s), sh(code), t.Unix(), ps(p)), func() { otp.ValidateTOTP(s, code, t, p.param()) }
		}},
		{"ValidateTOTP-code-of-length-digits", "ValidateTOTP", []int{256, 6, 4}, func(ix []int) (string, func()) {
			d, a, t := ix[0], []int{0, 1, 2, 3, 4, 255}[ix[1]], aTimes[[]int{0, 2, 5, 7}[ix[2]]]
			code := strings.Repeat("1", d)
			p := pSpec{d: d, a: a, skew: 1, period: uint64(ix[2]) * 30}
			return fmt.Sprintf("%s, %s, unix %d, %s", sh(aSecrets[2]), sh(code), t.Unix(), ps(p)), func() { otp.ValidateTOTP(aSecrets[2], code, t, p.param()) }
		}},
		{"TimeCounterFunc(default)", "", []int{len(aTimes), len(aU64)}, func(ix []int) (string, func()) {
			t, p := aTimes[ix[0]], aU64[ix[1]]
			return fmt.Sprintf("unix %d, %d", t.Unix(), p), func() { otp.TimeCounterFunc(t, uint(p)) }
		}},
		{"GenerateOCRA", "GenerateOCRA", []int{5, nSuites, len(oi)}, func(ix []int) (string, func()) {
			s := aSecrets[[]int{2, 0, 5, 7, 9}[ix[0]]]
			if ix[0] > 0 && (ix[1]+ix[2])%11 != 0 {
				return "", nil
			}
			if ix[1] >= len(aSuiteS) && (ix[1]+ix[2])%7 != 0 {
				return "", nil
			}
			su, sd := suites(ix[1])
			in := oi[ix[2]]
			return fmt.Sprintf("%s, %s, lens(%d,%d,%d,%d,%d)", sh(s), sd, len(in.Counter), len(in.Challenge), len(in.Password), len(in.SessionInfo), len(in.Timestamp)), func() { otp.GenerateOCRA(s, su, in) }
		}},
		{"ValidateOCRA", "ValidateOCRA", []int{3, len(aCodes), nSuites, len(oi)}, func(ix []int) (string, func()) {
			if (ix[0]+ix[1]+ix[2]+ix[3])%13 != 0 && !(ix[0] == 0 && ix[1] == 1 && ix[3] == 0) {
				return "", nil
			}
			s, code := aSecrets[[]int{2, 0, 5}[ix[0]]], aCodes[ix[1]]
			su, sd := suites(ix[2])
			in := oi[ix[3]]
			return fmt.Sprintf("%s, %s, %s, lens(%d,%d,%d,%d,%d)", sh(s), sh(code), sd, len(in.Counter), len(in.Challenge), len(in.Password), len(in.SessionInfo), len(in.Timestamp)), func() { otp.ValidateOCRA(s, code, su, in) }
		}},
		{"chosen HMAC output: every code value class x digits through every deriving entry point", "GenerateHOTP", []int{len(c01Windows()), 12, 3}, func(ix []int) (string, func()) {
			// the formatting stage sees values that real keys produce once in 10^8 calls (0, 1..9, 10^k-1, 10^k, 2^31-1 ...)
			w := c01Windows()[ix[0]]
			d := []int{1, 2, 3, 4, 5, 6, 7, 8, 9, 10, 0, 11}[ix[1]]
			sumLen := []int{20, 32, 64}[ix[2]]
			return fmt.Sprintf("31-bit value %d, %d digits, %d-byte digest", w&0x7fffffff, d, sumLen), func() {
				sum := markerSum(sumLen, int(w)%16, w, 0x3)
				restore := otp.VerifSetHMAC(otp.Algorithm(ix[2]), func(key []byte) hash.Hash { return &fakeHash{sum: sum} })
				defer restore()
				p := &otp.Param{Digits: otp.Digits(d), Algorithm: otp.Algorithm(ix[2]), Skew: 1, Period: 30}
				code, _ := otp.GenerateHOTP(aSecrets[2], 1, p)
				otp.ValidateHOTP(aSecrets[2], code, 1, p)
				otp.ValidateHOTP(aSecrets[2], strings.Repeat("1", d), 1, p)
				otp.GenerateTOTP(aSecrets[2], time.Unix(59, 0), p)
				otp.ValidateTOTP(aSecrets[2], strings.Repeat("0", d), time.Unix(59, 0), p)
				cfg := otp.SuiteConfig{Raw: "x", Hash: otp.Algorithm(ix[2]), Digits: d, IncludeChallenge: true, Challenge: 1}
				oc, _ := otp.GenerateOCRA(aSecrets[2], cfg, otp.OCRAInput{Challenge: mkLen(8, 1)})
				otp.ValidateOCRA(aSecrets[2], oc, cfg, otp.OCRAInput{Challenge: mkLen(8, 1)})
				otp.DeriveRFC4226Wasm(mkLen(20, 1), 1, d, otp.Algorithm(ix[2]))
			}
		}},
		{"length sweep: every text length 0..1100 in three contents", "DecodeSecret", []int{14, 1101, 3}, func(ix []int) (string, func()) {
			if ix[1] > 300 && ix[1]%8 == 0 && ix[1]%7 != 0 && ix[0] > 1 {
				return "", nil // beyond 300 the whole-block lengths are thinned out for the slower operations
			}
			// scratch buffers, padding arithmetic and block loops have their boundaries at lengths nobody lists by hand
			text := strings.Repeat([]string{"A", "7", "="}[ix[2]], ix[1])
			if ix[2] == 2 && ix[1] > 0 {
				text = strings.Repeat("A", ix[1]-ix[1]%8%7) + strings.Repeat("=", ix[1]%8%7) // valid letters followed by up to 6 '='
			}
			op := []string{"DecodeSecret", "GenerateHOTP(secret)", "ValidateTOTP(secret)", "GenerateOCRA(secret)", "ValidateHOTP(code)", "NewRawSuite", "ParseOTPAuthURL(secret)", "ParseDecimalChallengeRFC6287", "ParseDecimalToBigEndian8", "ParseHexTimestamp", "LeftPadHex(s)", "LeftPadHex(width)", "HexInputToOCRA", "DigitsFromStr/AlgorithmFromStr"}[ix[0]]
			return fmt.Sprintf("%s with %d x %q", op, ix[1], []string{"A", "7", "A..="}[ix[2]]), func() {
				switch ix[0] {
				case 0:
					otp.DecodeSecret(text)
				case 1:
					otp.GenerateHOTP(text, 1, nil)
				case 2:
					otp.ValidateTOTP(text, "123456", time.Unix(59, 0), nil)
				case 3:
					su, _ := otp.NewRawSuite("OCRA-1:HOTP-SHA1-6:QN08")
					otp.GenerateOCRA(text, su, otp.OCRAInput{Challenge: mkLen(8, 1)})
				case 4:
					otp.ValidateHOTP(aSecrets[2], text, 1, &otp.Param{Digits: otp.Digits(ix[1] % 256), Skew: 1})
				case 5:
					otp.NewRawSuite("OCRA-1:HOTP-SHA1-6:QN08-S" + text)
					otp.NewRawSuite(text)
				case 6:
					if u, err := url.Parse("otpauth://totp/I:a?secret=" + text + "&issuer=" + text); err == nil {
						otp.ParseOTPAuthURL(u)
					}
				case 7:
					otp.ParseDecimalChallengeRFC6287(text)
				case 8:
					otp.ParseDecimalToBigEndian8(text)
					otp.ParseDecimal64BigEndian(text)
				case 9:
					otp.ParseHexTimestamp(text)
				case 10:
					otp.LeftPadHex(text, 16)
					otp.LeftPadHex(text, ix[1]+3)
				case 11:
					otp.LeftPadHex([]string{"", "a", "abc"}[ix[2]], ix[1])
				case 12:
					otp.HexInputToOCRA(text, text, text, text, text)
				case 13:
					otp.DigitsFromStr(text)
					otp.AlgorithmFromStr(text)
				}
			}
		}},
		{"volume: many DISTINCT values of one argument in one process", "NewRawSuite", []int{6}, func(ix []int) (string, func()) {
			// anything that remembers arguments (a memo, a ring, an index) meets more distinct values here than it has
			// room for: 600 distinct accepted suite strings, secrets, URLs, questions ... each family in one call
			fam := []string{"suite strings", "secrets", "provisioning URLs", "decimal questions", "hex inputs", "enum renderings"}[ix[0]]
			return "600 distinct " + fam, func() {
				for k := 0; k < 600; k++ {
					switch ix[0] {
					case 0:
						name := fmt.Sprintf("OCRA-1:HOTP-SHA%s-%d:%sQN%s-T%d%s", []string{"1", "256", "512"}[k%3], 4+k%7, []string{"", "C-"}[k%2], []string{"08", "10"}[(k/2)%2], 1+k/12, []string{"S", "M", "H"}[(k/4)%3])
						if su, err := otp.NewRawSuite(name); err == nil {
							_ = su.String()
							otp.GenerateOCRA(aSecrets[2], su, otp.OCRAInput{Counter: mkLen(8, 1), Challenge: mkLen(10, 2), Timestamp: mkLen(8, 3)})
						}
						otp.IsKnownSuite(name)
						otp.SuiteConfigFromRaws(name)
					case 1:
						sec := ref.B32Encode([]byte(fmt.Sprintf("key-%04d-0123456789", k)))
						otp.DecodeSecret(sec)
						otp.GenerateHOTP(sec, uint64(k), nil)
						otp.ValidateTOTP(sec, "123456", time.Unix(int64(k)*30, 0), nil)
					case 2:
						if u, err := otp.GenerateTOTPURL(otp.URLParam{Issuer: fmt.Sprint("I", k), AccountName: fmt.Sprint("a", k), Secret: "JBSWY3DPEHPK3PXP", Period: uint(30 + k)}); err == nil {
							otp.ParseOTPAuthURL(u)
						}
					case 3:
						otp.ParseDecimalChallengeRFC6287(fmt.Sprint(10000000 + k*7919))
						otp.ParseDecimalToBigEndian8(fmt.Sprint(uint64(k) << 40))
					case 4:
						otp.HexInputToOCRA(fmt.Sprintf("%016x", k), fmt.Sprintf("%020x", k*31), "", fmt.Sprintf("%04x", k), fmt.Sprintf("%x", 20000000+k))
						otp.ParseHexTimestamp(fmt.Sprintf("%x", 20000000+k))
					case 5:
						_ = otp.Algorithm(k % 256).String()
						_ = otp.Digits(k % 256).Int()
						otp.DigitsFromStr(fmt.Sprint(k))
						otp.AlgorithmFromStr(fmt.Sprint("SHA", k))
					}
				}
			}
		}},
		{"GenerateOCRA/ValidateOCRA-inconsistent-suite-values", "GenerateOCRA", []int{5, 12, 6, 6, 2, 3}, func(ix []int) (string, func()) {
			// suite VALUES whose name and numbers contradict one another: a registered / parsable / junk name on a
			// configuration with out-of-range digits or hash, as a bare SuiteConfig and wrapped in RawSuite (what a
			// caller gets by editing a constructor's result)
			raw := []string{"OCRA-1:HOTP-SHA1-6:QN08", "OCRA-1:HOTP-SHA512-8:C-QN08-PSHA1-S064-T1M", "OCRA-1:HOTP-SHA1-7:QN08", "", "junk"}[ix[0]]
			d := []int{-1 << 63, -1, 0, 3, 4, 6, 10, 11, 12, 200, 1 << 31, 1<<63 - 1}[ix[1]]
			h := []int{0, 1, 2, 3, -1, 255}[ix[2]]
			cfg := otp.SuiteConfig{Raw: raw, Hash: otp.Algorithm(h), Digits: d}
			switch ix[3] {
			case 0:
				cfg.IncludeChallenge, cfg.Challenge = true, 1
			case 1:
				cfg.IncludeChallenge, cfg.Challenge = true, 7
			case 2:
				cfg.IncludeChallenge = true
			case 3:
				cfg.IncludeCounter, cfg.IncludeChallenge, cfg.IncludePassword, cfg.IncludeSession, cfg.IncludeTimestamp, cfg.Challenge, cfg.PasswordHash, cfg.TimeStep = true, true, true, true, true, 1, 1, 60
			case 4:
				cfg.IncludeCounter, cfg.IncludeChallenge, cfg.IncludePassword, cfg.IncludeSession, cfg.IncludeTimestamp, cfg.Challenge, cfg.PasswordHash, cfg.TimeStep = true, true, true, true, true, 6, 9, -1
			}
			var su otp.Suite = cfg
			kind := "SuiteConfig"
			if ix[4] == 1 {
				su, kind = otp.RawSuite{SuiteConfig: cfg}, "RawSuite"
				if ix[5] == 2 {
					// what a caller holds after EDITING a constructor's result (hidden fields of the value are kept)
					if s0, err := otp.NewRawSuite("OCRA-1:HOTP-SHA1-6:QN08"); err == nil {
						if rs, ok := s0.(otp.RawSuite); ok {
							rs.SuiteConfig = cfg
							su, kind = rs, "NewRawSuite(...) result with its configuration replaced by"
						}
					}
				}
			}
			in := []otp.OCRAInput{{Challenge: mkLen(8, 2)}, {Counter: mkLen(8, 1), Challenge: mkLen(16, 2), Password: mkLen(20, 3), SessionInfo: mkLen(5, 4), Timestamp: mkLen(8, 5)}, {}}[ix[5]]
			code := "1"
			if d > 0 && d < 300 {
				code = strings.Repeat("1", d)
			}
			return fmt.Sprintf("%s{Raw:%s Digits:%d Hash:%d fields#%d}, input#%d", kind, sh(raw), d, h, ix[3], ix[5]), func() {
				otp.GenerateOCRA(aSecrets[2], su, in)
				otp.ValidateOCRA(aSecrets[2], code, su, in)
				_ = su.Validate()
				_ = su.String()
				_ = su.Config()
				_ = in.Validate(cfg)
			}
		}},
		{"GenerateOCRA/ValidateOCRA-long-suite-text", "GenerateOCRA", []int{16 + 14, len(oi)}, func(ix []int) (string, func()) {
			var su otp.Suite
			var sd string
			if ix[0] < 16 {
				c := sc[len(sc)-16+ix[0]]
				su, sd = c, fmt.Sprintf("SuiteConfig with %d bytes of suite text, digits %d", len(c.Raw), c.Digits)
			} else {
				name := aSuiteS[len(aSuiteS)-14-3*10*0+0:][0]
				_ = name
				k := ix[0] - 16
				longNames := aSuiteSLong()
				s, err := otp.NewRawSuite(longNames[k%len(longNames)])
				if err != nil {
					return "", nil
				}
				su, sd = s, fmt.Sprintf("NewRawSuite(%d bytes)", len(longNames[k%len(longNames)]))
			}
			in := oi[ix[1]]
			return fmt.Sprintf("%s, lens(%d,%d,%d,%d,%d)", sd, len(in.Counter), len(in.Challenge), len(in.Password), len(in.SessionInfo), len(in.Timestamp)), func() {
				otp.GenerateOCRA(aSecrets[2], su, in)
				otp.ValidateOCRA(aSecrets[2], strings.Repeat("1", su.Config().Digits%300), su, in)
			}
		}},
		{"ValidateOCRA-code-of-length-digits", "ValidateOCRA", []int{len(sc)}, func(ix []int) (string, func()) {
			c := sc[ix[0]]
			if c.Digits < 0 || c.Digits > 300 {
				return "", nil
			}
			code := strings.Repeat("1", c.Digits)
			return fmt.Sprintf("%s, %+v", sh(code), c), func() { otp.ValidateOCRA(aSecrets[2], code, c, oi[0]) }
		}},
		{"SuiteConfig.Validate/Config/String+NewSuite", "NewSuite", []int{len(sc)}, func(ix []int) (string, func()) {
			c := sc[ix[0]]
			return fmt.Sprintf("%+v", c), func() {
				c.Validate()
				c.Config()
				_ = c.String()
				if s, err := otp.NewSuite(c); err == nil {
					s.Validate()
					s.Config()
					_ = s.String()
				}
			}
		}},
		{"OCRAInput.Validate", "OCRAInput.Validate", []int{len(oi), len(sc)}, func(ix []int) (string, func()) {
			if (ix[0]+ix[1])%5 != 0 {
				return "", nil
			}
			in, c := oi[ix[0]], sc[ix[1]]
			return fmt.Sprintf("lens(%d,%d,%d,%d,%d) %+v", len(in.Counter), len(in.Challenge), len(in.Password), len(in.SessionInfo), len(in.Timestamp), c), func() { in.Validate(c) }
		}},
		{"NewRawSuite/IsKnownSuite/SuiteConfigFromRaws", "NewRawSuite", []int{len(aSuiteS) + len(aStrings)}, func(ix []int) (string, func()) {
			var s string
			if ix[0] < len(aSuiteS) {
				s = aSuiteS[ix[0]]
			} else {
				s = aStrings[ix[0]-len(aSuiteS)]
			}
			return sh(s), func() {
				if su, err := otp.NewRawSuite(s); err == nil {
					su.Validate()
					su.Config()
					_ = su.String()
				}
				otp.IsKnownSuite(s)
				otp.SuiteConfigFromRaws(s).Validate()
			}
		}},
		{"RawSuite{} methods + ListSuites", "ListSuites", []int{1}, func(ix []int) (string, func()) {
			return "", func() {
				var z otp.RawSuite
				z.Validate()
				z.Config()
				_ = z.String()
				otp.ListSuites()
			}
		}},
		{"DecodeSecret", "DecodeSecret", []int{len(aSecrets) + len(aStrings)}, func(ix []int) (string, func()) {
			s := append(append([]string{}, aSecrets...), aStrings...)[ix[0]]
			return sh(s), func() { otp.DecodeSecret(s) }
		}},
		{"RandomSecret", "RandomSecret", []int{256}, func(ix []int) (string, func()) {
			return fmt.Sprint(ix[0]), func() { otp.RandomSecret(otp.Algorithm(ix[0])) }
		}},
		{"enum helpers", "DigitsFromStr", []int{len(aStrings), 256}, func(ix []int) (string, func()) {
			s, v := aStrings[ix[0]], ix[1]
			return fmt.Sprintf("%s, %d", sh(s), v), func() {
				otp.DigitsFromStr(s)
				otp.AlgorithmFromStr(s)
				_ = otp.Digits(v).Int()
				_ = otp.Algorithm(v).String()
			}
		}},
		{"Generate*URL", "GenerateTOTPURL", []int{len(aStrings), len(aStrings), 4, 6, 5}, func(ix []int) (string, func()) {
			if (ix[0]*7+ix[1]*3+ix[2]+ix[3]+ix[4])%5 != 0 {
				return "", nil
			}
			p := otp.URLParam{Issuer: aStrings[ix[0]], AccountName: aStrings[ix[1]], Secret: aSecrets[[]int{0, 2, 7, 9}[ix[2]]], Digits: otp.Digits([]int{0, 1, 6, 10, 11, 255}[ix[3]]), Algorithm: otp.Algorithm([]int{0, 1, 2, 3, 255}[ix[4]]), Period: uint(aU64[(ix[0]+ix[1])%len(aU64)])}
			return fmt.Sprintf("{Issuer:%s Account:%s Secret:%s Digits:%d Algorithm:%d Period:%d}", sh(p.Issuer), sh(p.AccountName), sh(p.Secret), p.Digits, p.Algorithm, p.Period), func() {
				if u, err := otp.GenerateTOTPURL(p); err == nil && u != nil {
					_ = u.String()
				}
				if u, err := otp.GenerateHOTPURL(p); err == nil && u != nil {
					_ = u.String()
				}
			}
		}},
		{"ParseOTPAuthURL", "ParseOTPAuthURL", []int{len(us)}, func(ix []int) (string, func()) {
			u := us[ix[0]]
			d := "nil"
			if u != nil {
				d = sh(u.String())
			}
			return d, func() { otp.ParseOTPAuthURL(u) }
		}},
		{"decimal/hex helpers", "ParseDecimalToBigEndian8", []int{len(aStrings)}, func(ix []int) (string, func()) {
			s := aStrings[ix[0]]
			return sh(s), func() {
				otp.ParseDecimalToBigEndian8(s)
				otp.ParseDecimal64BigEndian(s)
				otp.ParseHexTimestamp(s)
				otp.ParseDecimalChallengeRFC6287(s)
			}
		}},
		{"LeftPadHex", "LeftPadHex", []int{len(aStrings), 9}, func(ix []int) (string, func()) {
			s, w := aStrings[ix[0]], []int{0, 1, 2, 15, 16, 17, 256, 65536, 1 << 20}[ix[1]]
			return fmt.Sprintf("%s, %d", sh(s), w), func() { otp.LeftPadHex(s, w) }
		}},
		{"To8ByteBigEndian", "To8ByteBigEndian", []int{len(aU64)}, func(ix []int) (string, func()) {
			return fmt.Sprint(aU64[ix[0]]), func() { otp.To8ByteBigEndian(aU64[ix[0]]) }
		}},
		{"HexInputToOCRA", "HexInputToOCRA", []int{len(aStrings), len(aStrings), 3, 3, 3}, func(ix []int) (string, func()) {
			if (ix[0]+ix[1]*3+ix[2]+ix[3]+ix[4])%4 != 0 {
				return "", nil
			}
			v := []string{"", "zz", "00ff"}
			a := []string{aStrings[ix[0]], aStrings[ix[1]], v[ix[2]], v[ix[3]], v[ix[4]]}
			return fmt.Sprintf("%s,%s,%s,%s,%s", sh(a[0]), sh(a[1]), sh(a[2]), sh(a[3]), sh(a[4])), func() {
				otp.HexInputToOCRA(a[0], a[1], a[2], a[3], a[4])
				otp.HexInputToOCRA(a[4], a[3], a[2], a[1], a[0])
			}
		}},
		// exported only in the js/wasm build configuration; run here through the natively built copy.
		// Code lengths are taken from the Digits type's range (the binding only ever passes 6, 8, 9, 10).
		{"DeriveRFC4226Wasm/ValidateOTPWasm (js build)", "DeriveRFC4226Wasm", []int{256, 6, 3}, func(ix []int) (string, func()) {
			d, a, c := ix[0], []int{0, 1, 2, 3, 4, 255}[ix[1]], []uint64{0, 1 << 63, ^uint64(0)}[ix[2]]
			return fmt.Sprintf("key, %d, digits %d, algo %d", c, d, a), func() {
				otp.DeriveRFC4226Wasm(c09Key, c, d, otp.Algorithm(a))
				otp.ValidateOTPWasm(strings.Repeat("1", d), c09Key, c, otp.Digits(d), otp.Algorithm(a))
				otp.ValidateOTPWasm("123456", nil, c, otp.Digits(d), otp.Algorithm(a))
			}
		}},
	}
	return ds
}

// c10MaxWait bounds the waiting one call may ask for.
const c10MaxWait = time.Second

// c10MaxAlloc bounds the heap allocation (of the worker process) during one call; arguments are at most 64 KiB
// (LeftPadHex: widths up to 2^20), a call of the unchanged library stays below a few MiB.
const c10MaxAlloc = 1 << 30

// c10Run evaluates one argument combination: returns normally, no panic, within the statement budget.
func c10Run(d desc, i int) (args, bad string, ran bool) {
	var f func()
	var apv any
	func() {
		// building the arguments already calls the library (NewRawSuite for suite arguments)
		defer func() { apv = recover() }()
		irt.SetBudget(c10Budget)
		args, f = d.at(i)
	}()
	irt.SetBudget(0)
	if apv != nil {
		return fmt.Sprintf("%s combination %d (while building the arguments)", d.name, i), fmt.Sprintf("panicked: %v", apv), true
	}
	if f == nil {
		return "", "", false
	}
	irt.SetBudget(c10Budget)
	defer func() { lastSteps = irt.StepCount(); irt.SetBudget(0) }()
	// waiting the library asks for (time.Sleep, timers) is added up and skipped: a deterministic bound like the
	// statement budget - no operation of this library has a reason to wait at all
	irt.VirtualTime(true)
	irt.ResetWaited()
	irt.ArmAlloc(c10MaxAlloc)
	var pv any
	func() {
		defer func() { pv = recover() }()
		f()
	}()
	irt.ArmAlloc(0)
	if a, ok := irt.AllocExceeded(pv); ok {
		return args, fmt.Sprintf("allocated %d MiB (more than %d MiB) for arguments of at most 64 KiB (work unbounded in an argument)", a>>20, c10MaxAlloc>>20), true
	}
	if w := irt.Waited(); w > c10MaxWait {
		return args, fmt.Sprintf("asked to wait %v in total (sleeps / timers) before returning", w), true
	}
	if pv != nil {
		if irt.IsBudget(pv) {
			return args, fmt.Sprintf("did not return within %d statements (hang / work unbounded in an argument)", int64(c10Budget)), true
		}
		return args, fmt.Sprintf("panicked: %v", pv), true
	}
	return args, "", true
}

type c10Shard struct {
	Ran   map[string]int64 `json:"ran"`
	Fails []struct {
		Op    string `json:"op"`
		Index int    `json:"index"`
		Args  string `json:"args"`
		Bad   string `json:"bad"`
	} `json:"fails"`
	MaxSteps int64 `json:"max_steps"`
}

func c10(r *ev.Run) {
	descs := c10Descs()
	byName := map[string]desc{}
	for _, d := range descs {
		byName[d.name] = d
	}
	r.Scenario("call", func(raw []byte) (string, string) {
		c := unjson[c10Case](raw)
		d, ok := byName[c.Op]
		if !ok {
			return "", "unknown operation"
		}
		var args, bad string
		if !irt.RunGuarded(func() { args, bad, _ = c10Run(d, c.Index) }) {
			a, _ := d.at(c.Index)
			return a, fmt.Sprintf("blocked: did not return and executed no statement for %d s", irt.StallSeconds)
		}
		return args, bad
	})
	if ReplayOnly {
		return
	}
	stride := 1
	if !r.Thorough() {
		stride = 3 // quick: every third combination of the big products (small ones are always complete)
	}
	if ch := os.Getenv("VERIF_CHILD"); ch != "" {
		var shard, shards int
		fmt.Sscanf(ch, "%d/%d", &shard, &shards)
		out := c10Shard{Ran: map[string]int64{}}
		var curOp string
		var curIdx int
		stop := irt.WatchStall(func() {
			// the call in flight is blocked (no statement executed, not returned): report it and stop this worker
			out.Fails = append(out.Fails, struct {
				Op    string `json:"op"`
				Index int    `json:"index"`
				Args  string `json:"args"`
				Bad   string `json:"bad"`
			}{curOp, curIdx, "", fmt.Sprintf("blocked: did not return and executed no statement for %d s", irt.StallSeconds)})
			b, _ := json.Marshal(out)
			fmt.Println("SHARD-RESULT " + string(b))
			os.Exit(0)
		})
		defer stop()
		for _, d := range descs {
			n := d.count()
			st := stride
			if n < 20000 || strings.HasPrefix(d.name, "length sweep") {
				st = 1 // sweeps over every length are always complete
			}
			perOpFails := 0
			for i := shard * st; i < n; i += shards * st {
				curOp, curIdx = d.name, i
				irt.Heartbeat.Add(1)
				childBeat()
				args, bad, ran := c10Run(d, i)
				if !ran {
					continue
				}
				out.Ran[d.name]++
				if s := lastSteps; s > out.MaxSteps {
					out.MaxSteps = s
				}
				if bad != "" && perOpFails < 3 {
					perOpFails++
					out.Fails = append(out.Fails, struct {
						Op    string `json:"op"`
						Index int    `json:"index"`
						Args  string `json:"args"`
						Bad   string `json:"bad"`
					}{d.name, i, args, bad})
				}
			}
		}
		b, _ := json.Marshal(out)
		fmt.Println("SHARD-RESULT " + string(b))
		os.Exit(0)
	}
	shards := 16
	results := make([]c10Shard, shards)
	broken := make([]string, shards)
	var wg sync.WaitGroup
	self, _ := os.Executable()
	for s := 0; s < shards; s++ {
		wg.Add(1)
		go func(s int) {
			defer wg.Done()
			cmd := exec.Command("/bin/sh", "-c", "ulimit -v 8000000; exec \"$0\" C10", self)
			bm := beatMarker(s)
			cmd.Env = append(os.Environ(), fmt.Sprintf("VERIF_CHILD=%d/%d", s, shards), "GOMAXPROCS=2", "VERIF_BEAT="+bm)
			stopBeat := make(chan struct{})
			go superviseBeat(bm, r.Beat, stopBeat)
			outp, err := cmd.Output()
			close(stopBeat)
			got := false
			sc := bufio.NewScanner(strings.NewReader(string(outp)))
			sc.Buffer(make([]byte, 1<<20), 1<<26)
			for sc.Scan() {
				if l := sc.Text(); strings.HasPrefix(l, "SHARD-RESULT ") {
					got = json.Unmarshal([]byte(l[13:]), &results[s]) == nil
				}
			}
			if !got {
				broken[s] = fmt.Sprintf("worker %d produced no result (%v): %s", s, err, lastLines(string(outp), 5))
			}
		}(s)
	}
	wg.Wait()
	ran := map[string]int64{}
	var maxSteps int64
	for s := 0; s < shards; s++ {
		if broken[s] != "" {
			// a worker that died (fatal error, out of memory) is a failure of the check, never silently dropped
			r.Broken = append(r.Broken, broken[s])
			continue
		}
		for k, v := range results[s].Ran {
			ran[k] += v
			r.Eval(v)
		}
		if results[s].MaxSteps > maxSteps {
			maxSteps = results[s].MaxSteps
		}
		for _, f := range results[s].Fails {
			r.Fail("call", f.Op+": "+f.Bad, c10Case{f.Op, f.Index, f.Args}, "returns normally (error result or documented default)", f.Bad+" on ("+f.Args+")")
		}
	}
	for k, v := range ran {
		for i := int64(0); i < v && i < 50000; i++ {
			r.Distinct(ev.H(fmt.Sprint(k, i)))
		}
	}
	// exported API without a descriptor is reported, not failed
	var uncovered []string
	if b, err := os.ReadFile(os.Getenv("VERIF_POINTS")); err == nil {
		var pj struct {
			Exported []string `json:"exported_api"`
		}
		json.Unmarshal(b, &pj)
		covered := map[string]bool{"MustRawSuite": true, "MustHexPadLeft": true}
		for _, n := range []string{"GenerateHOTP", "GenerateHOTPURL", "ValidateHOTP", "GenerateTOTP", "GenerateTOTPURL", "ValidateTOTP", "GenerateOCRA", "ValidateOCRA", "DecodeSecret", "RandomSecret", "ParseOTPAuthURL", "DigitsFromStr", "AlgorithmFromStr", "Digits.Int", "Algorithm.String", "HexInputToOCRA", "OCRAInput.Validate", "NewSuite", "NewRawSuite", "ListSuites", "IsKnownSuite", "SuiteConfigFromRaws", "SuiteConfig.Config", "SuiteConfig.String", "SuiteConfig.Validate", "RawSuite.Config", "RawSuite.String", "RawSuite.Validate", "ParseDecimalToBigEndian8", "LeftPadHex", "ParseDecimal64BigEndian", "ParseHexTimestamp", "ParseDecimalChallengeRFC6287", "To8ByteBigEndian", "DeriveRFC4226Wasm", "ValidateOTPWasm"} {
			covered[n] = true
		}
		for _, n := range pj.Exported {
			if !covered[n] {
				uncovered = append(uncovered, n)
			}
		}
		r.Set("exported_api_in_tree", len(pj.Exported))
	}
	sort.Strings(uncovered)
	r.Set("UNCOVERED-API", uncovered)
	r.Set("calls_per_operation", ran)
	r.Set("max_statements_of_one_call", maxSteps)
	r.Set("statement_budget_per_call", c10Budget)
	if stride > 1 {
		r.Set("quick_stride", "products above 20000 combinations are visited at every 3rd index (thorough: all)")
	}
	d0 := descs[0]
	a0, _ := d0.at(17)
	r.Sample(c10Case{d0.name, 17, a0})
	a1, _ := byName["ValidateTOTP-code-of-length-digits"].at(0)
	r.Sample(c10Case{"ValidateTOTP-code-of-length-digits", 0, a1})
	r.Rule("for every exported operation (except the two documented Must* helpers and a caller-replaced TimeCounterFunc) the product of small per-parameter alphabets (all 256 values of both enums; 64-bit boundaries; empty/huge/invalid-UTF-8/case-folding strings; nil/empty/boundary/64 KiB byte fields; zero/negative/extreme instants; nil and hand-built URLs; the suite configuration grid incl. undefined enum values) is executed on the instrumented library; oracle: returns normally - no panic, and within a budget of 10^7 instrumented statements (a deterministic hang detector, no wall clock); distinct = argument combinations executed per operation")
	r.Assume("nil Suite interface values, user-defined Suite implementations and hex-padding widths outside 0..2^20 are excluded as the property states", "DeriveRFC4226Wasm/ValidateOTPWasm exist only in the js/wasm build; they are run through a natively built copy with code lengths from the Digits type's range")
}
