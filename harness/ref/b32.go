package ref

import (
	"strings"
	"unicode"
)

const b32Alpha = "ABCDEFGHIJKLMNOPQRSTUVWXYZ234567"

// B32Encode is RFC 4648 base32 without padding, written bit-wise.
func B32Encode(b []byte) string {
	var out []byte
	acc, nbits := uint32(0), 0
	for _, x := range b {
		acc = acc<<8 | uint32(x)
		nbits += 8
		for nbits >= 5 {
			out = append(out, b32Alpha[(acc>>(uint(nbits)-5))&31])
			nbits -= 5
		}
		acc &= (1 << uint(nbits)) - 1
	}
	if nbits > 0 {
		out = append(out, b32Alpha[(acc<<(5-uint(nbits)))&31])
	}
	return string(out)
}

// B32Pad returns the canonical number of '=' for n symbols.
func B32Pad(n int) int { return (8 - n%8) % 8 }

func b32Val(c byte) int {
	switch {
	case c >= 'A' && c <= 'Z':
		return int(c - 'A')
	case c >= 'a' && c <= 'z':
		return int(c - 'a')
	case c >= '2' && c <= '7':
		return int(c-'2') + 26
	}
	return -1
}

// B32Verdict classifies a secret text according to the property.
type B32Verdict int

const (
	MustReject B32Verdict = iota
	MustAccept
	DontCare // if accepted, the bytes must still be Bytes
)

func isASCIISpace(c byte) bool {
	return c == ' ' || c == '\t' || c == '\n' || c == '\r' || c == '\v' || c == '\f'
}

// B32Classify decides what decoding `text` must do.  Leading/trailing ASCII white space
// is insignificant; letters are case-insensitive in ASCII only.
func B32Classify(text string) (v B32Verdict, bytes []byte) {
	// Unicode white space other than ASCII (NEL, NBSP, U+2028 ...) at the ends: the property speaks of
	// "white space" and lists space, tab, newline; whether such a character is stripped or rejected is
	// deliberately not decided - but if the text is accepted, it must decode as the stripped text does.
	if t2 := strings.TrimFunc(text, unicode.IsSpace); t2 != strings.TrimFunc(text, func(r rune) bool { return r < 0x80 && isASCIISpace(byte(r)) }) {
		v2, b2 := B32Classify(t2)
		if v2 == MustReject {
			return MustReject, nil
		}
		return DontCare, b2
	}
	s := text
	for len(s) > 0 && isASCIISpace(s[0]) {
		s = s[1:]
	}
	for len(s) > 0 && isASCIISpace(s[len(s)-1]) {
		s = s[:len(s)-1]
	}
	k := 0
	for len(s) > 0 && s[len(s)-1] == '=' {
		s = s[:len(s)-1]
		k++
	}
	interiorNL := false
	for i := 0; i < len(s); i++ {
		if b32Val(s[i]) < 0 {
			if s[i] == '\r' || s[i] == '\n' {
				interiorNL = true
				continue
			}
			return MustReject, nil
		}
	}
	if interiorNL {
		// encoding/base32 is documented to skip CR/LF; the property's invalid classes do
		// not name them: deliberately not decided.
		return DontCare, nil
	}
	n := len(s)
	switch n % 8 {
	case 1, 3, 6:
		return MustReject, nil
	}
	acc, nbits := uint32(0), 0
	var out []byte
	for i := 0; i < n; i++ {
		acc = acc<<5 | uint32(b32Val(s[i]))
		nbits += 5
		if nbits >= 8 {
			out = append(out, byte(acc>>(uint(nbits)-8)))
			nbits -= 8
			acc &= (1 << uint(nbits)) - 1
		}
	}
	if out == nil {
		out = []byte{}
	}
	if acc != 0 {
		return DontCare, out // non-zero trailing bits: RFC 4648 §3.5 leaves it to the decoder
	}
	if k > B32Pad(n) {
		return DontCare, out
	}
	return MustAccept, out
}
