// Package ref holds the reference models: deliberately boring, written from the RFC
// texts and the property statements, sharing no code with ja7ad/otp.
package ref

import (
	"crypto/hmac"
	"crypto/sha1"
	"crypto/sha256"
	"crypto/sha512"
	"encoding/binary"
	"fmt"
	"hash"
	"strings"
)

// Hash ids follow the library's enum: 0 SHA-1, 1 SHA-256, 2 SHA-512.
func newHash(algo int) func() hash.Hash {
	switch algo {
	case 0:
		return sha1.New
	case 1:
		return sha256.New
	case 2:
		return sha512.New
	}
	return nil
}

// HashLen is the output length of a supported hash (0 if unsupported).
func HashLen(algo int) int {
	switch algo {
	case 0:
		return 20
	case 1:
		return 32
	case 2:
		return 64
	}
	return 0
}

// Pow10 by repeated multiplication (no table).
func Pow10(d int) uint64 {
	m := uint64(1)
	for i := 0; i < d; i++ {
		m *= 10
	}
	return m
}

// DT31 is RFC 4226 dynamic truncation to a 31-bit number.
func DT31(sum []byte) uint32 {
	o := int(sum[len(sum)-1] & 0x0f)
	return binary.BigEndian.Uint32(sum[o:o+4]) & 0x7fffffff
}

// Format renders bin mod 10^digits as exactly digits decimal characters.
func Format(bin uint32, digits int) string {
	if digits > 19 {
		// outside every supported length (only used to build submissions for refused configurations): the
		// value zero-padded to that many characters, capped at 70000
		if digits > 70000 {
			digits = 70000
		}
		v := fmt.Sprint(bin)
		return strings.Repeat("0", digits-len(v)) + v
	}
	return fmt.Sprintf("%0*d", digits, uint64(bin)%Pow10(digits))
}

// HOTPSupported says whether (digits, algo) is inside the supported domain.
func HOTPSupported(digits, algo int) bool {
	return digits >= 1 && digits <= 10 && algo >= 0 && algo <= 2
}

// HOTP is RFC 4226 for a raw key.
func HOTP(key []byte, counter uint64, digits, algo int) string {
	var c [8]byte
	binary.BigEndian.PutUint64(c[:], counter)
	m := hmac.New(newHash(algo), key)
	m.Write(c[:])
	return Format(DT31(m.Sum(nil)), digits)
}

// Step is RFC 6238's T = floor(unix / period), period 0 meaning 30.
func Step(unix int64, period uint64) uint64 {
	if period == 0 {
		period = 30
	}
	return uint64(unix) / period
}

// ---------------------------------------------------------------- OCRA

// OCRASuite is the reference notion of a suite.
type OCRASuite struct {
	Text          string // the suite text that is fed to the HMAC
	Hash          int
	Digits        int
	C, Q, P, S, T bool
	QFormat       int // 0 none, 1 N08, 2 N10, 3 A08, 4 A10, 5 H08, 6 H10
	PHash         int // 0 none, 1 SHA1, 2 SHA256, 3 SHA512
	TimeStep      int // seconds
}

// OCRAIn is the reference notion of an input.
type OCRAIn struct {
	Counter, Challenge, Password, Session, Timestamp []byte
}

func rpad(b []byte, n int) []byte {
	out := make([]byte, n)
	copy(out, b)
	return out
}

// Usable: digits 4..10, supported hash, each selected field has its format /
// password hash / positive time step specified.
func Usable(s OCRASuite) bool {
	if s.Digits < 4 || s.Digits > 10 {
		return false
	}
	if s.Hash < 0 || s.Hash > 2 {
		return false
	}
	if s.Q && s.QFormat == 0 {
		return false
	}
	if s.P && s.PHash == 0 {
		return false
	}
	if s.T && s.TimeStep <= 0 {
		return false
	}
	return true
}

// QMin is the minimum challenge length of a (defined) format.
func QMin(f int) int {
	switch f {
	case 1, 3, 5:
		return 8
	case 2, 4, 6:
		return 10
	}
	return 0
}

// PLen is the required password-hash length.
func PLen(p int) int {
	switch p {
	case 1:
		return 20
	case 2:
		return 32
	case 3:
		return 64
	}
	return -1
}

// Admit is the admission predicate of the property text (only meaningful for usable suites
// with defined format / password-hash values).
func Admit(s OCRASuite, in OCRAIn) bool {
	if s.C && len(in.Counter) != 8 {
		return false
	}
	if s.Q && (len(in.Challenge) < QMin(s.QFormat) || len(in.Challenge) > 128) {
		return false
	}
	if s.P && (len(in.Password) == 0 || len(in.Password) != PLen(s.PHash)) {
		return false
	}
	if s.S && len(in.Session) > 128 {
		return false
	}
	if s.T && len(in.Timestamp) != 8 {
		return false
	}
	return true
}

// OCRA computes the RFC 6287 value over the documented layout for an admissible input.
func OCRA(key []byte, s OCRASuite, in OCRAIn) string {
	msg := []byte(s.Text)
	msg = append(msg, 0)
	if s.C {
		msg = append(msg, in.Counter...)
	}
	if s.Q {
		msg = append(msg, rpad(in.Challenge, 128)...)
	}
	if s.P {
		msg = append(msg, in.Password...)
	}
	if s.S {
		msg = append(msg, rpad(in.Session, 128)...)
	}
	if s.T {
		msg = append(msg, in.Timestamp...)
	}
	m := hmac.New(newHash(s.Hash), key)
	m.Write(msg)
	return Format(DT31(m.Sum(nil)), s.Digits)
}

// DecimalQuestion is RFC 6287's numeric-question conversion: decimal -> hex text ->
// right-padded with '0' to 256 hex digits -> 128 bytes.  ok=false for text that is not a
// plain non-negative decimal number.
func DecimalQuestion(q string) ([]byte, bool) {
	if q == "" {
		return nil, false
	}
	for i := 0; i < len(q); i++ {
		if q[i] < '0' || q[i] > '9' {
			return nil, false
		}
	}
	// schoolbook base conversion on nibbles (little-endian), independent of math/big which the library uses
	var nib []byte
	for i := 0; i < len(q); i++ {
		carry := int(q[i] - '0')
		for k := range nib {
			v := int(nib[k])*10 + carry
			nib[k], carry = byte(v&15), v>>4
		}
		for carry > 0 {
			nib, carry = append(nib, byte(carry&15)), carry>>4
		}
	}
	if len(nib) == 0 {
		nib = []byte{0}
	}
	hxb := make([]byte, len(nib))
	for k, v := range nib {
		hxb[len(nib)-1-k] = "0123456789ABCDEF"[v]
	}
	hx := string(hxb)
	if len(hx) > 256 {
		return nil, false
	}
	hx += strings.Repeat("0", 256-len(hx))
	out := make([]byte, 128)
	for i := 0; i < 128; i++ {
		out[i] = hexNib(hx[2*i])<<4 | hexNib(hx[2*i+1])
	}
	return out, true
}

func hexNib(c byte) byte {
	switch {
	case c >= '0' && c <= '9':
		return c - '0'
	case c >= 'A' && c <= 'F':
		return c - 'A' + 10
	case c >= 'a' && c <= 'f':
		return c - 'a' + 10
	}
	return 0xff
}

// ParseSuite is an independent reader of the RFC 6287 naming scheme
//
//	OCRA-1:HOTP-<SHA1|SHA256|SHA512>-<digits>:[C-]Q<N|A|H><08|10>[-PSHA<1|256|512>][-S[nnn]][-T<n>[S|M|H]]
//
// (case-insensitive; a bare "S" and a unit-less "T<n>" - both used by the library's own
// registry - are read as "session included" and "n seconds").  It is strict about
// everything else.  ok=false when the string is outside the scheme.
func ParseSuite(name string) (OCRASuite, bool) {
	var s OCRASuite
	s.Text = name
	// the naming scheme is ASCII: Unicode case mapping (U+017F long s -> S ...) is no part of "case-insensitive"
	for i := 0; i < len(name); i++ {
		if name[i] >= 0x80 {
			return s, false
		}
	}
	parts := strings.Split(name, ":")
	if len(parts) != 3 {
		return s, false
	}
	if strings.ToUpper(parts[0]) != "OCRA-1" {
		return s, false
	}
	cf := strings.Split(strings.ToUpper(parts[1]), "-")
	if len(cf) != 3 || cf[0] != "HOTP" {
		return s, false
	}
	switch cf[1] {
	case "SHA1":
		s.Hash = 0
	case "SHA256":
		s.Hash = 1
	case "SHA512":
		s.Hash = 2
	default:
		return s, false
	}
	d, ok := plainInt(cf[2])
	if !ok {
		return s, false
	}
	s.Digits = d
	toks := strings.Split(strings.ToUpper(parts[2]), "-")
	stage := 0 // C < Q < P < S < T
	for _, t := range toks {
		switch {
		case t == "C":
			if stage > 0 {
				return s, false
			}
			stage = 1
			s.C = true
		case len(t) == 4 && t[0] == 'Q':
			if stage > 1 {
				return s, false
			}
			stage = 2
			s.Q = true
			var base int
			switch t[1] {
			case 'N':
				base = 1
			case 'A':
				base = 3
			case 'H':
				base = 5
			default:
				return s, false
			}
			switch t[2:] {
			case "08":
				s.QFormat = base
			case "10":
				s.QFormat = base + 1
			default:
				return s, false
			}
		case strings.HasPrefix(t, "PSHA"):
			if stage > 2 {
				return s, false
			}
			stage = 3
			s.P = true
			switch t[4:] {
			case "1":
				s.PHash = 1
			case "256":
				s.PHash = 2
			case "512":
				s.PHash = 3
			default:
				return s, false
			}
		case t == "S" || (len(t) == 4 && t[0] == 'S' && allDigits(t[1:])):
			if stage > 3 {
				return s, false
			}
			stage = 4
			s.S = true
		case len(t) >= 2 && t[0] == 'T':
			if stage > 4 {
				return s, false
			}
			stage = 5
			s.T = true
			body := t[1:]
			mult := 1
			switch body[len(body)-1] {
			case 'S':
				body = body[:len(body)-1]
			case 'M':
				mult = 60
				body = body[:len(body)-1]
			case 'H':
				mult = 3600
				body = body[:len(body)-1]
			}
			// any plain decimal number whose product with the unit is representable says exactly that many
			// seconds; beyond that the string cannot be represented and is outside what may be accepted
			n, ok := plainUint63(body)
			if !ok || n <= 0 || n > (1<<63-1)/int64(mult) {
				return s, false
			}
			s.TimeStep = int(n) * mult
		default:
			return s, false
		}
	}
	return s, true
}

func allDigits(s string) bool {
	if s == "" {
		return false
	}
	for i := 0; i < len(s); i++ {
		if s[i] < '0' || s[i] > '9' {
			return false
		}
	}
	return true
}

// plainUint63 reads a plain decimal number below 2^63 (ok=false otherwise).
func plainUint63(s string) (int64, bool) {
	if !allDigits(s) || len(s) > 40 {
		return 0, false
	}
	var n int64
	for i := 0; i < len(s); i++ {
		d := int64(s[i] - '0')
		if n > (1<<63-1-d)/10 {
			return 0, false
		}
		n = n*10 + d
	}
	return n, true
}

func plainInt(s string) (int, bool) {
	if !allDigits(s) {
		return 0, false
	}
	for len(s) > 1 && s[0] == '0' {
		s = s[1:] // leading zeros do not change what a number says
	}
	if len(s) > 6 {
		return 0, false
	}
	n := 0
	for i := 0; i < len(s); i++ {
		n = n*10 + int(s[i]-'0')
	}
	return n, true
}

// NewHMAC returns a constructor of the standard HMAC for a supported hash id.
func NewHMAC(algo int) func(key []byte) hash.Hash {
	h := newHash(algo)
	return func(key []byte) hash.Hash { return hmac.New(h, key) }
}
