package ref

import (
	"encoding/hex"
	"fmt"
)

// Anchor runs the reference models against vectors typed in from the RFCs.  A reference
// that disagrees with an RFC vector makes the check *broken*; it never yields a violation.
func Anchor() error {
	k20 := []byte("12345678901234567890")
	k32 := []byte("12345678901234567890123456789012")
	k64 := []byte("1234567890123456789012345678901234567890123456789012345678901234")

	// RFC 4226 Appendix D: 31-bit intermediate decimals and 6-digit values.
	dec := []uint32{1284755224, 1094287082, 137359152, 1726969429, 1640338314, 868254676, 1918287922, 82162583, 673399871, 645520489}
	six := []string{"755224", "287082", "359152", "969429", "338314", "254676", "287922", "162583", "399871", "520489"}
	for c := 0; c < 10; c++ {
		if g := HOTP(k20, uint64(c), 6, 0); g != six[c] {
			return fmt.Errorf("RFC 4226 vector %d: ref gives %s want %s", c, g, six[c])
		}
		if g := HOTP(k20, uint64(c), 10, 0); g != fmt.Sprintf("%010d", dec[c]) {
			return fmt.Errorf("RFC 4226 intermediate %d: ref gives %s want %010d", c, g, dec[c])
		}
	}
	// RFC 6238 Appendix B.
	times := []int64{59, 1111111109, 1111111111, 1234567890, 2000000000, 20000000000}
	want := [3][]string{
		{"94287082", "07081804", "14050471", "89005924", "69279037", "65353130"},
		{"46119246", "68084774", "67062674", "91819424", "90698825", "77737706"},
		{"90693936", "25091201", "99943326", "93441116", "38618901", "47863826"},
	}
	keys := [][]byte{k20, k32, k64}
	for a := 0; a < 3; a++ {
		for i, t := range times {
			if g := HOTP(keys[a], Step(t, 30), 8, a); g != want[a][i] {
				return fmt.Errorf("RFC 6238 vector algo %d t=%d: ref gives %s want %s", a, t, g, want[a][i])
			}
		}
	}
	// RFC 4648 §10.
	b32 := map[string]string{"": "", "f": "MY", "fo": "MZXQ", "foo": "MZXW6", "foob": "MZXW6YQ", "fooba": "MZXW6YTB", "foobar": "MZXW6YTBOI"}
	for in, out := range b32 {
		if g := B32Encode([]byte(in)); g != out {
			return fmt.Errorf("RFC 4648 vector %q: ref gives %s want %s", in, g, out)
		}
		v, b := B32Classify(out)
		if v != MustAccept || string(b) != in {
			return fmt.Errorf("RFC 4648 decode vector %q: ref gives %v %q", out, v, b)
		}
	}
	// RFC 6287 Appendix C (one-way challenge response), all 45 vectors.
	pin, _ := hex.DecodeString("7110eda4d09e062aa5e4a390b0a572ac0d2c0220")
	ctr := func(c int) []byte { return []byte{0, 0, 0, 0, 0, 0, 0, byte(c)} }
	rep := func(d int) string {
		s := ""
		for i := 0; i < 8; i++ {
			s += string(rune('0' + d))
		}
		return s
	}
	type vec struct {
		suite string
		key   []byte
		in    OCRAIn
		q     string
		want  string
	}
	var vs []vec
	w1 := []string{"237653", "243178", "653583", "740991", "608993", "388898", "816933", "224598", "750600", "294470"}
	for d := 0; d < 10; d++ {
		vs = append(vs, vec{"OCRA-1:HOTP-SHA1-6:QN08", k20, OCRAIn{}, rep(d), w1[d]})
	}
	w2 := []string{"65347737", "86775851", "78192410", "71565254", "10104329", "65983500", "70069104", "91771096", "75011558", "08522129"}
	for c := 0; c < 10; c++ {
		vs = append(vs, vec{"OCRA-1:HOTP-SHA256-8:C-QN08-PSHA1", k32, OCRAIn{Counter: ctr(c), Password: pin}, "12345678", w2[c]})
	}
	w3 := []string{"83238735", "01501458", "17957585", "86776967", "86807031"}
	for d := 0; d < 5; d++ {
		vs = append(vs, vec{"OCRA-1:HOTP-SHA256-8:QN08-PSHA1", k32, OCRAIn{Password: pin}, rep(d), w3[d]})
	}
	w4 := []string{"07016083", "63947962", "70123924", "25341727", "33203315", "34205738", "44343969", "51946085", "20403879", "31409299"}
	for c := 0; c < 10; c++ {
		vs = append(vs, vec{"OCRA-1:HOTP-SHA512-8:C-QN08", k64, OCRAIn{Counter: ctr(c)}, rep(c), w4[c]})
	}
	w5 := []string{"95209754", "55907591", "22048402", "24218844", "36209546"}
	ts, _ := hex.DecodeString("000000000132d0b6")
	for d := 0; d < 5; d++ {
		vs = append(vs, vec{"OCRA-1:HOTP-SHA512-8:QN08-T1M", k64, OCRAIn{Timestamp: ts}, rep(d), w5[d]})
	}
	if len(vs) != 40 {
		return fmt.Errorf("anchor table size %d", len(vs))
	}
	for _, v := range vs {
		s, ok := ParseSuite(v.suite)
		if !ok {
			return fmt.Errorf("ref parser rejects RFC suite %s", v.suite)
		}
		q, ok := DecimalQuestion(v.q)
		if !ok {
			return fmt.Errorf("ref question conversion rejects %s", v.q)
		}
		in := v.in
		in.Challenge = q
		if !Usable(s) || !Admit(s, in) {
			return fmt.Errorf("ref admission rejects RFC vector %s", v.suite)
		}
		if g := OCRA(v.key, s, in); g != v.want {
			return fmt.Errorf("RFC 6287 vector %s Q=%s: ref gives %s want %s", v.suite, v.q, g, v.want)
		}
	}
	return nil
}
