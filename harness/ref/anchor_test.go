package ref

import "testing"

func TestAnchor(t *testing.T) {
	if err := Anchor(); err != nil {
		t.Fatal(err)
	}
}
