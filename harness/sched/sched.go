// Package sched is the cooperative scheduler: logical threads are goroutines of which
// exactly one runs at a time; at every scheduling point the running thread asks the
// explorer which enabled thread continues.  Switching away from a thread that could have
// continued is a preemption (a costly choice).
package sched

import (
	"fmt"

	"github.com/ja7ad/otp/verifharness/xplore"
)

type thread struct {
	id      int
	fn      func()
	resume  chan struct{}
	done    bool
	blocked func() bool // non-nil: disabled until it returns true
}

// Result is what one scheduled execution produced.
type Result struct {
	Deadlock  bool
	Overrun   bool // step horizon exceeded
	Panics    []string
	Switches  int
	Points    int
	Handovers int // context switches that happened between two sync operations on the same object (diagnostic)
}

type abortExecution struct{}

// S is one execution's scheduler.
type S struct {
	x       *xplore.X
	threads []*thread
	cur     int
	finish  chan struct{}
	res     Result
	horizon int
	aborted bool
}

// Run executes the thread bodies under the explorer handle x and returns when all have
// finished (or the execution deadlocked / overran its horizon).  attach is called with the
// scheduler before the first thread starts and detach afterwards (to (un)install hooks).
func Run(x *xplore.X, horizon int, bodies []func(), attach func(s *S), detach func()) Result {
	s := &S{x: x, finish: make(chan struct{}), horizon: horizon, cur: -1}
	for i, b := range bodies {
		t := &thread{id: i, fn: b, resume: make(chan struct{})}
		s.threads = append(s.threads, t)
	}
	attach(s)
	defer detach()
	for _, t := range s.threads {
		t := t
		go func() {
			<-t.resume
			func() {
				defer func() {
					if v := recover(); v != nil {
						if _, ok := v.(abortExecution); !ok {
							s.res.Panics = append(s.res.Panics, fmt.Sprintf("thread %d: %v", t.id, v))
						}
					}
				}()
				if !s.aborted {
					t.fn()
				}
			}()
			t.done = true
			s.leave()
		}()
	}
	// first thread: a free choice
	en := s.enabled(-1)
	k := 0
	if len(en) > 1 {
		k = x.Choose(len(en), false)
	}
	s.cur = en[k].id
	en[k].resume <- struct{}{}
	<-s.finish
	return s.res
}

// enabled lists the enabled threads in canonical order: the running thread first (if it
// is enabled), then ascending ids.
func (s *S) enabled(running int) []*thread {
	var out []*thread
	if running >= 0 {
		t := s.threads[running]
		if !t.done && (t.blocked == nil || t.blocked()) {
			out = append(out, t)
		}
	}
	for _, t := range s.threads {
		if t.id == running || t.done {
			continue
		}
		if t.blocked != nil && !t.blocked() {
			continue
		}
		out = append(out, t)
	}
	return out
}

// Cur is the id of the running thread.
func (s *S) Cur() int { return s.cur }

// Point is a scheduling point reached by the running thread.
func (s *S) Point() {
	if s.aborted {
		panic(abortExecution{})
	}
	s.res.Points++
	if s.res.Points > s.horizon {
		s.res.Overrun = true
		s.aborted = true
		panic(abortExecution{})
	}
	en := s.enabled(s.cur)
	if len(en) <= 1 {
		return
	}
	k := s.x.Choose(len(en), true)
	if k == 0 {
		return
	}
	s.switchTo(en[k])
}

func (s *S) switchTo(next *thread) {
	me := s.threads[s.cur]
	s.res.Switches++
	s.cur = next.id
	next.blocked = nil
	next.resume <- struct{}{}
	<-me.resume
	if s.aborted {
		panic(abortExecution{})
	}
}

// Block parks the running thread until cond holds.
func (s *S) Block(cond func() bool) {
	me := s.threads[s.cur]
	for !cond() {
		me.blocked = cond
		en := s.enabled(-1)
		var others []*thread
		for _, t := range en {
			if t.id != me.id {
				others = append(others, t)
			}
		}
		if len(others) == 0 {
			s.res.Deadlock = true
			s.abortAll()
			panic(abortExecution{})
		}
		k := 0
		if len(others) > 1 {
			k = s.x.Choose(len(others), false)
		}
		s.switchTo(others[k])
	}
	me.blocked = nil
}

// leave is called by a thread that has finished.
func (s *S) leave() {
	en := s.enabled(-1)
	if len(en) == 0 {
		alive := false
		for _, t := range s.threads {
			if !t.done {
				alive = true
			}
		}
		if !alive {
			close(s.finish)
			return
		}
		s.res.Deadlock = true
		s.abortAll()
		en = s.enabled(-1)
	}
	k := 0
	if len(en) > 1 && !s.aborted {
		k = s.x.Choose(len(en), false)
	}
	s.cur = en[k].id
	en[k].blocked = nil
	en[k].resume <- struct{}{}
}

// abortAll makes every parked thread unwind when it is next woken (leave() wakes them one by one).
func (s *S) abortAll() {
	s.aborted = true
	for _, t := range s.threads {
		t.blocked = nil
	}
}
