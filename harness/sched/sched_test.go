package sched

import (
	"testing"

	"github.com/ja7ad/otp/verifharness/xplore"
)

// two threads, each: read shared; point; write shared+1  => lost update visible in some schedules
func TestLostUpdate(t *testing.T) {
	outcomes := map[int]int{}
	var cur *S
	st := xplore.Explore(xplore.Options{Bound: -1}, func(x *xplore.X) {
		shared := 0
		body := func() {
			cur.Point()
			v := shared
			cur.Point()
			shared = v + 1
			cur.Point()
		}
		res := Run(x, 1000, []func(){body, body}, func(s *S) { cur = s }, func() { cur = nil })
		if res.Deadlock || res.Overrun || len(res.Panics) > 0 {
			t.Fatal(res)
		}
		outcomes[shared]++
	}, func(x *xplore.X) bool { return true })
	if outcomes[1] == 0 || outcomes[2] == 0 {
		t.Fatal(outcomes, st)
	}
	t.Log(outcomes, st.Executions, st.ByCost)
}

func TestDeadlock(t *testing.T) {
	var cur *S
	dead := 0
	xplore.Explore(xplore.Options{Bound: -1}, func(x *xplore.X) {
		a, b := false, false
		lock := func(m *bool) { cur.Point(); cur.Block(func() bool { return !*m }); *m = true }
		t1 := func() { lock(&a); lock(&b); b = false; a = false }
		t2 := func() { lock(&b); lock(&a); a = false; b = false }
		res := Run(x, 1000, []func(){t1, t2}, func(s *S) { cur = s }, func() { cur = nil })
		if res.Deadlock {
			dead++
		}
	}, func(x *xplore.X) bool { return true })
	if dead == 0 {
		t.Fatal("no deadlock found")
	}
}
