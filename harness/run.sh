#!/bin/bash
# run.sh <ID> <workdir> [args]: build the right binary for the property and run it.
set -u
ID="$1"; WORK="$2"; shift 2
cd "$VERIF_DIR/harness" || exit 2
if ! go build -tags verif -o "$WORK/vrun" ./cmd/vrun 2>"$WORK/build.err"; then
  echo "HARNESS-ERROR: harness does not build against the current tree:" >&2
  head -30 "$WORK/build.err" >&2
  exit 2
fi
cd "$VERIF_DIR" || exit 2
"$WORK/vrun" "$@" "$ID"
