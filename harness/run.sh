#!/bin/bash
# run.sh <ID> <workdir> [args]: build the right binary for the property and run it.
set -u
ID="$1"; WORK="$2"; shift 2
cd "$VERIF_DIR/harness" || exit 2
case "$ID" in
  C08|C09|C10|C11|C12|C18|C19|PROBE) MODE=instr ;;
  *) MODE=plain ;;
esac
if [ "$MODE" = instr ]; then
  go build -o "$WORK/instr" ./cmd/instr 2>"$WORK/build.err" || { echo "HARNESS-ERROR: instrumenter does not build" >&2; cat "$WORK/build.err" >&2; exit 2; }
  "$WORK/instr" -repo "$REPO" -out "$WORK/ov" -rt "$VERIF_DIR/rt/verifrt" > "$WORK/instr.log" 2>&1 || { echo "HARNESS-ERROR: instrumenter failed" >&2; cat "$WORK/instr.log" >&2; exit 2; }
  export VERIF_POINTS="$WORK/ov/points.json"
  if [ "$ID" = C18 ] || [ "$ID" = C19 ]; then
    # the real server binary, built the way the repository builds it (workspace mode, no tags)
    if (cd "$REPO/internal/app" && GOFLAGS= go build -o "$WORK/otp-api" ./cmd) 2>"$WORK/api.err"; then export VERIF_OTPAPI="$WORK/otp-api"; else echo "note: server binary does not build: $(head -3 "$WORK/api.err")" >&2; fi
  fi
  if [ "$ID" = C11 ]; then
    if go build -race -tags verif -o "$WORK/racemon" ./cmd/racemon 2>"$WORK/race.err"; then export VERIF_RACEMON="$WORK/racemon"; else echo "note: race monitor does not build: $(head -3 "$WORK/race.err")" >&2; fi
  fi
  if ! go build -tags "verif instr" -overlay "$WORK/ov/overlay.json" -o "$WORK/vrun" ./cmd/vrun 2>"$WORK/build.err"; then
    echo "HARNESS-ERROR: instrumented harness does not build against the current tree:" >&2
    head -40 "$WORK/build.err" >&2
    exit 2
  fi
else
  if [ "$ID" = C20 ]; then
    # the js/wasm module built from the current tree, staged next to the package's own entry module
    mkdir -p "$WORK/stage/lib" && cp -r "$REPO/otp-js/src" "$WORK/stage/src" 2>/dev/null
    if command -v node >/dev/null && (cd "$REPO" && GOFLAGS= GOOS=js GOARCH=wasm go build -o "$WORK/stage/lib/otp.wasm" ./wasm) 2>"$WORK/wasm.err"; then export VERIF_WASM_STAGE="$WORK/stage"; else echo "note: wasm build or node unavailable: $(head -3 "$WORK/wasm.err" 2>/dev/null)" >&2; fi
  fi
  if ! go build -tags verif -o "$WORK/vrun" ./cmd/vrun 2>"$WORK/build.err"; then
    echo "HARNESS-ERROR: harness does not build against the current tree:" >&2
    head -30 "$WORK/build.err" >&2
    exit 2
  fi
fi
cd "$VERIF_DIR" || exit 2
"$WORK/vrun" "$@" "$ID"
