// Package xplore is the stateless explorer: a body calls Choose wherever something is to
// be enumerated (an environment answer, which pooled buffer Get returns, which thread runs
// next); the explorer re-executes the body for every choice vector by depth-first search,
// optionally bounded in the number of costly (deviation / preemption) choices.
package xplore

import (
	"fmt"
)

// Point is one recorded choice point of an execution.
type Point struct {
	N      int  // number of alternatives
	Chosen int  // alternative taken
	Costly bool // a non-zero choice here counts against the deviation bound
}

// X is the handle a body uses during one execution.
type X struct {
	prefix []int
	Trace  []Point
	cost   int
}

// NondeterminismError is raised (by panic) when a replayed prefix meets a different
// number of alternatives than when it was recorded: the body is not deterministic.
type NondeterminismError struct{ Msg string }

func (e NondeterminismError) Error() string { return e.Msg }

// Choose returns a value in [0,n).  Beyond the replayed prefix it returns 0.
func (x *X) Choose(n int, costly bool) int {
	if n <= 0 {
		panic(NondeterminismError{"Choose with no alternatives"})
	}
	i := len(x.Trace)
	c := 0
	if i < len(x.prefix) {
		c = x.prefix[i]
		if c >= n {
			panic(NondeterminismError{fmt.Sprintf("replay diverged at point %d: choice %d of %d alternatives", i, c, n)})
		}
	}
	if costly && c != 0 {
		x.cost++
	}
	x.Trace = append(x.Trace, Point{n, c, costly})
	return c
}

// Cost is the number of costly non-default choices taken so far.
func (x *X) Cost() int { return x.cost }

// Choices returns the choice vector of the execution.
func (x *X) Choices() []int {
	out := make([]int, len(x.Trace))
	for i, p := range x.Trace {
		out[i] = p.Chosen
	}
	return out
}

// Options bound an exploration.
type Options struct {
	Bound    int   // max costly non-default choices per execution; <0 = unbounded
	MaxExec  int64 // stop after this many executions (0 = no cap); hitting it makes the result non-exhaustive
	Shard    int   // this worker's index
	Shards   int   // number of workers (0/1 = no sharding)
	OnlyRoot []int // explore only the subtree below this prefix (nil = everything)
}

// Stats reports what an exploration covered.
type Stats struct {
	Executions int64
	Points     int64 // total choice points met
	MaxPoints  int   // longest execution
	ByCost     []int64
	Capped     bool
}

// Run executes body once with the given choice prefix.
func Run(prefix []int, body func(x *X)) *X {
	x := &X{prefix: prefix}
	body(x)
	return x
}

// Explore enumerates all choice vectors (within the bound) depth-first.  visit is called
// after each execution; returning false stops the exploration.
func Explore(opt Options, body func(x *X), visit func(x *X) bool) Stats {
	var st Stats
	stop := false
	var rec func(prefix []int, frozen int)
	// rec explores all executions extending prefix; choices at indices < frozen are fixed.
	rec = func(prefix []int, frozen int) {
		if stop {
			return
		}
		x := Run(prefix, body)
		st.Executions++
		st.Points += int64(len(x.Trace))
		if len(x.Trace) > st.MaxPoints {
			st.MaxPoints = len(x.Trace)
		}
		for len(st.ByCost) <= x.cost {
			st.ByCost = append(st.ByCost, 0)
		}
		st.ByCost[x.cost]++
		if !visit(x) {
			stop = true
			return
		}
		if opt.MaxExec > 0 && st.Executions >= opt.MaxExec {
			st.Capped = true
			stop = true
			return
		}
		// alternatives at every point at or after `frozen` (beyond the given prefix all choices were 0)
		costBefore := 0
		for i := 0; i < len(x.Trace); i++ {
			p := x.Trace[i]
			if i >= frozen && i >= len(prefix) {
				for alt := 1; alt < p.N; alt++ {
					c := costBefore
					if p.Costly {
						c++
					}
					if opt.Bound >= 0 && c > opt.Bound {
						break
					}
					np := make([]int, i+1)
					for k := 0; k < i; k++ {
						np[k] = x.Trace[k].Chosen
					}
					np[i] = alt
					rec(np, i+1)
					if stop {
						return
					}
				}
			}
			if p.Costly && p.Chosen != 0 {
				costBefore++
			}
		}
	}
	if opt.OnlyRoot != nil {
		rec(opt.OnlyRoot, len(opt.OnlyRoot))
		return st
	}
	if opt.Shards <= 1 {
		rec(nil, 0)
		return st
	}
	// sharded: the default execution belongs to shard 0; the subtrees rooted at each
	// (point, alternative) of the default execution are dealt round-robin.
	x := Run(nil, body)
	if opt.Shard == 0 {
		st.Executions++
		st.Points += int64(len(x.Trace))
		st.MaxPoints = len(x.Trace)
		st.ByCost = append(st.ByCost, 1)
		if !visit(x) {
			return st
		}
	}
	k := 0
	for i, p := range x.Trace {
		for alt := 1; alt < p.N; alt++ {
			if p.Costly && opt.Bound == 0 {
				break
			}
			if k%opt.Shards == opt.Shard {
				np := make([]int, i+1)
				np[i] = alt
				rec(np, i+1)
				if stop {
					return st
				}
			}
			k++
		}
	}
	return st
}
