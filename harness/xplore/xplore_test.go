package xplore

import "testing"

// all vectors over 3 points with 2,3,2 alternatives = 12; with bound 1 on all-costly points: 1 + (1+2+1) = 5
func TestCounts(t *testing.T) {
	body := func(x *X) { x.Choose(2, true); x.Choose(3, true); x.Choose(2, true) }
	seen := map[string]bool{}
	st := Explore(Options{Bound: -1}, body, func(x *X) bool {
		seen[string(rune('0'+x.Trace[0].Chosen))+string(rune('0'+x.Trace[1].Chosen))+string(rune('0'+x.Trace[2].Chosen))] = true
		return true
	})
	if st.Executions != 12 || len(seen) != 12 {
		t.Fatal(st, len(seen))
	}
	st = Explore(Options{Bound: 1}, body, func(x *X) bool { return true })
	if st.Executions != 5 {
		t.Fatal(st)
	}
	total := int64(0)
	all := map[string]bool{}
	for w := 0; w < 3; w++ {
		st = Explore(Options{Bound: -1, Shard: w, Shards: 3}, body, func(x *X) bool {
			k := string(rune('0'+x.Trace[0].Chosen)) + string(rune('0'+x.Trace[1].Chosen)) + string(rune('0'+x.Trace[2].Chosen))
			if all[k] {
				t.Fatal("dup", k)
			}
			all[k] = true
			return true
		})
		total += st.Executions
	}
	if total != 12 || len(all) != 12 {
		t.Fatal(total, len(all))
	}
}
