// instr rewrites the current sources of /repo into an overlay for `go build -overlay`:
// statement points, sync -> shim, comparison hooks, wasm-tagged files made buildable
// natively, a generated accessor for all package-level variables, and the runtime package.
// Rewrites are text splices at AST positions, so line numbers and directives stay put.
package main

import (
	"encoding/json"
	"flag"
	"fmt"
	"go/ast"
	"go/build/constraint"
	"go/importer"
	"go/parser"
	"go/token"
	"go/types"
	"os"
	"path/filepath"
	"runtime"
	"sort"
	"strconv"
	"strings"
)

const rtPath = "github.com/ja7ad/otp/internal/verifrt"

type splice struct {
	off, del int
	text     string
	close    bool
	seq      int
}

type pointInfo struct {
	ID   int    `json:"id"`
	File string `json:"file"`
	Line int    `json:"line"`
	Func string `json:"func"`
	Pkg  string `json:"pkg"`
}

type siteInfo struct {
	ID   int    `json:"id"`
	File string `json:"file"`
	Line int    `json:"line"`
	Kind string `json:"kind"`
}

var stdImporter types.Importer

var exported []string

var (
	points []pointInfo
	sites  []siteInfo
	skips  []string
	seq    int
)

func main() {
	repo := flag.String("repo", "/repo", "repository root")
	out := flag.String("out", "", "output directory (overlay.json, rewritten files)")
	rt := flag.String("rt", "/verif/rt/verifrt", "runtime package sources")
	flag.Parse()
	if *out == "" {
		fatal("need -out")
	}
	must(os.MkdirAll(*out, 0o755))
	replace := map[string]string{}

	// package otp: everything
	instrumentPkg(*repo, ".", "otp", *out, replace, true, false)
	// REST layer: statement points + comparison hooks (types of module dependencies stay unresolved, which is tolerated)
	instrumentPkg(*repo, "internal/app/api", "api", *out, replace, false, false)
	// the WebAssembly binding's Go code, made runnable natively over a fake syscall/js
	instrumentPkg(*repo, "wasm", "main", *out, replace, false, true)

	// runtime package as a virtual package of the repository
	filepath.Walk(*rt, func(p string, fi os.FileInfo, err error) error {
		if err == nil && !fi.IsDir() && strings.HasSuffix(p, ".go") {
			rel, _ := filepath.Rel(*rt, p)
			replace[filepath.Join(*repo, "internal/verifrt", rel)] = p
		}
		return nil
	})
	b, _ := json.MarshalIndent(map[string]any{"Replace": replace}, "", " ")
	must(os.WriteFile(filepath.Join(*out, "overlay.json"), b, 0o644))
	b, _ = json.Marshal(map[string]any{"points": points, "cmp_sites": sites, "skipped": skips, "exported_api": exported})
	must(os.WriteFile(filepath.Join(*out, "points.json"), b, 0o644))
	fmt.Printf("instr: %d points, %d comparison sites, %d skipped, %d files\n", len(points), len(sites), len(skips), len(replace))
}

func fatal(a ...any) { fmt.Fprintln(os.Stderr, append([]any{"instr:"}, a...)...); os.Exit(2) }
func must(err error) {
	if err != nil {
		fatal(err)
	}
}

// multiImporter resolves the library from the pass that already checked it, the standard
// library from source, and gives every other (module dependency) path an empty package.
type multiImporter struct {
	known map[string]*types.Package
	std   types.Importer
}

func (m *multiImporter) Import(path string) (*types.Package, error) {
	if p, ok := m.known[path]; ok {
		return p, nil
	}
	first := strings.SplitN(path, "/", 2)[0]
	if !strings.Contains(first, ".") {
		return m.std.Import(path)
	}
	p := types.NewPackage(path, filepath.Base(path))
	p.MarkComplete()
	return p, nil
}

var knownPkgs = map[string]*types.Package{}

func instrumentPkg(repo, rel, pkgName, out string, replace map[string]string, full, wasmMain bool) {
	dir := filepath.Join(repo, rel)
	ents, err := os.ReadDir(dir)
	must(err)
	fset := token.NewFileSet()
	type srcFile struct {
		path string
		src  []byte
		f    *ast.File
	}
	var files []srcFile
	for _, e := range ents {
		n := e.Name()
		if e.IsDir() || !strings.HasSuffix(n, ".go") || strings.HasSuffix(n, "_test.go") {
			continue
		}
		p := filepath.Join(dir, n)
		src, err := os.ReadFile(p)
		must(err)
		f, err := parser.ParseFile(fset, p, src, parser.ParseComments)
		if err != nil {
			fatal("parse", p, err)
		}
		if f.Name.Name != pkgName {
			continue
		}
		files = append(files, srcFile{p, src, f})
	}
	info := &types.Info{Types: map[ast.Expr]types.TypeAndValue{}, Uses: map[*ast.Ident]types.Object{}, Defs: map[*ast.Ident]types.Object{}}
	{
		if stdImporter == nil {
			stdImporter = importer.ForCompiler(token.NewFileSet(), "source", nil)
		}
		conf := types.Config{Importer: &multiImporter{knownPkgs, stdImporter}, Error: func(error) {}, FakeImportC: true}
		var afs []*ast.File
		for _, sf := range files {
			afs = append(afs, sf.f)
		}
		ipath := "github.com/ja7ad/otp"
		if rel != "." {
			ipath += "/" + rel
		}
		pkg, _ := conf.Check(ipath, fset, afs, info) // errors tolerated: partial info is enough
		if pkg != nil && full {
			knownPkgs[ipath] = pkg
		}
	}
	var globals []string
	for _, sf := range files {
		var sp []splice
		add := func(off, del int, text string, close bool) {
			seq++
			sp = append(sp, splice{off, del, text, close, seq})
		}
		base := fset.File(sf.f.Pos()).Base()
		off := func(p token.Pos) int { return int(p) - base }
		relName, _ := filepath.Rel(repo, sf.path)
		used := false
		timeAlias := ""

		if wasmMain {
			add(off(sf.f.Name.Pos()), len(sf.f.Name.Name), "verifwasm", false)
			for _, d := range sf.f.Decls {
				if fd, ok := d.(*ast.FuncDecl); ok && fd.Recv == nil && fd.Name.Name == "main" {
					add(off(fd.Name.Pos()), 4, "verifMainUnused", false)
				}
			}
			add(len(sf.src), 0, "\n// VerifRegister registers the binding's functions with the fake global object.\nfunc VerifRegister() { registerFunctions() }\n", false)
		}
		// build constraints: js && wasm files become verif-only native files
		if full || wasmMain {
			// a file that the NATIVE build already includes keeps its constraint; a file that only the js/wasm build
			// includes (the binding) is offered to the native instrumented build; any other file stays excluded
			lines := strings.SplitN(string(sf.src), "\n", 3)
			if len(lines) > 0 && strings.HasPrefix(lines[0], "//go:build") {
				if x, err := constraint.Parse(lines[0]); err == nil {
					native := x.Eval(func(tag string) bool {
						return tag == runtime.GOOS || tag == runtime.GOARCH || tag == "verif" || tag == "instr" || tag == "unix" || tag == "gc" || strings.HasPrefix(tag, "go1.")
					})
					wasm := x.Eval(func(tag string) bool {
						return tag == "js" || tag == "wasm" || tag == "verif" || tag == "instr" || tag == "gc" || strings.HasPrefix(tag, "go1.")
					})
					if !native && wasm {
						add(0, len(lines[0]), "//go:build verif", false)
					}
				}
			}
		}
		// imports: sync -> shim
		pkgAlias := map[string]string{} // local name -> import path
		for _, im := range sf.f.Imports {
			path, _ := strconv.Unquote(im.Path.Value)
			name := filepath.Base(path)
			if im.Name != nil {
				name = im.Name.Name
			}
			pkgAlias[name] = path
			if path == "syscall/js" && wasmMain {
				if im.Name == nil {
					add(off(im.Path.Pos()), len(im.Path.Value), `js "`+rtPath+`/fakejs"`, false)
				} else {
					add(off(im.Path.Pos()), len(im.Path.Value), `"`+rtPath+`/fakejs"`, false)
				}
			}
			if path == "sync" && (full || pkgName == "api") {
				if im.Name == nil {
					add(off(im.Path.Pos()), len(im.Path.Value), `sync "`+rtPath+`/vsync"`, false)
				} else {
					add(off(im.Path.Pos()), len(im.Path.Value), `"`+rtPath+`/vsync"`, false)
				}
			}
		}
		// package-level variables
		if full || pkgName == "api" {
			for _, d := range sf.f.Decls {
				if gd, ok := d.(*ast.GenDecl); ok && gd.Tok == token.VAR {
					for _, s := range gd.Specs {
						for _, n := range s.(*ast.ValueSpec).Names {
							if n.Name != "_" {
								globals = append(globals, n.Name)
							}
						}
					}
				}
			}
		}
		// statement points
		var funcName string
		var instrList func(list []ast.Stmt)
		instrList = func(list []ast.Stmt) {
			for _, st := range list {
				id := len(points)
				pos := fset.Position(st.Pos())
				points = append(points, pointInfo{id, relName, pos.Line, funcName, pkgName})
				add(off(st.Pos()), 0, fmt.Sprintf("verifrt.P(%d);", id), false)
				used = true
			}
		}
		for _, d := range sf.f.Decls {
			fd, ok := d.(*ast.FuncDecl)
			var root ast.Node = d
			funcName = ""
			if ok {
				if fd.Body == nil {
					continue
				}
				funcName = fd.Name.Name
				if fd.Recv != nil && len(fd.Recv.List) > 0 {
					funcName = typeName(fd.Recv.List[0].Type) + "." + funcName
				}
				if full && fd.Name.IsExported() && !strings.HasPrefix(fd.Name.Name, "Verif") && (fd.Recv == nil || ast.IsExported(typeName(fd.Recv.List[0].Type))) {
					exported = append(exported, funcName)
				}
			} else {
				funcName = "<init>"
			}
			ast.Inspect(root, func(n ast.Node) bool {
				switch x := n.(type) {
				case *ast.BlockStmt:
					// the body of a switch/select is a block whose "statements" are clauses: skip those
					if len(x.List) > 0 {
						if _, isCase := x.List[0].(*ast.CaseClause); isCase {
							return true
						}
						if _, isComm := x.List[0].(*ast.CommClause); isComm {
							return true
						}
					}
					instrList(x.List)
				case *ast.CaseClause:
					instrList(x.Body)
				case *ast.CommClause:
					instrList(x.Body)
				case *ast.SwitchStmt:
					if rewriteSwitch(x, info, fset, relName, sf.src, base, add) {
						used = true
					}
				case *ast.IndexExpr:
					if rewriteMapIndex(x, info, fset, relName, sf.src, base, add) {
						used = true
					}
				case *ast.BinaryExpr:
					if rewriteCompare(x, info, fset, relName, off, add) {
						used = true
					}
					if rewriteShortCircuit(x, info, fset, relName, off, add) {
						used = true
					}
				case *ast.CallExpr:
					if rewriteCall(x, info, pkgAlias, fset, relName, off, add) {
						used = true
					}
					if rewriteSubtleValue(x, info, pkgAlias, fset, relName, off, add) {
						used = true
					}
					if al := rewriteTimeWait(x, info, pkgAlias, off, add); al != "" {
						used = true
						timeAlias = al
					}
				}
				return true
			})
		}
		if !used && len(sp) == 0 {
			continue
		}
		if timeAlias != "" {
			add(len(sf.src), 0, "\nvar _ = "+timeAlias+".Now // the rewritten waits may have been the only use of the import\n", false)
			timeAlias = ""
		}
		if used {
			// import on the package clause line keeps every line number intact
			add(off(sf.f.Name.End()), 0, `; import verifrt "`+rtPath+`"`, false)
			add(len(sf.src), 0, "\nvar _ = verifrt.P\n", false)
		}
		outPath := filepath.Join(out, pkgName+"__"+filepath.Base(sf.path))
		must(os.WriteFile(outPath, apply(sf.src, sp), 0o644))
		if wasmMain {
			replace[filepath.Join(repo, "internal/verifwasm", filepath.Base(sf.path))] = outPath
		} else if strings.HasSuffix(sf.path, "_wasm.go") || strings.HasSuffix(sf.path, "_js.go") {
			// the file NAME carries an implicit GOOS/GOARCH constraint: offer the rewritten copy under a neutral name
			replace[strings.TrimSuffix(sf.path, ".go")+"_verifnative.go"] = outPath
		} else {
			replace[sf.path] = outPath
		}
	}
	if full || pkgName == "api" {
		sort.Strings(globals)
		var b strings.Builder
		b.WriteString("//go:build verif\n\npackage " + pkgName + "\n\n// VerifGlobals returns pointers to every package-level variable (generated).\nfunc VerifGlobals() map[string]any {\n\treturn map[string]any{\n")
		for _, g := range globals {
			fmt.Fprintf(&b, "\t\t%q: &%s,\n", g, g)
		}
		b.WriteString("\t}\n}\n")
		p := filepath.Join(out, pkgName+"__zz_verif_globals.go")
		must(os.WriteFile(p, []byte(b.String()), 0o644))
		replace[filepath.Join(dir, "zz_verif_globals.go")] = p
	}
}

func typeName(e ast.Expr) string {
	switch x := e.(type) {
	case *ast.StarExpr:
		return typeName(x.X)
	case *ast.Ident:
		return x.Name
	case *ast.IndexExpr:
		return typeName(x.X)
	}
	return "?"
}

func newSite(fset *token.FileSet, file string, pos token.Pos, kind string) int {
	id := len(sites)
	sites = append(sites, siteInfo{id, file, fset.Position(pos).Line, kind})
	return id
}

func isStringType(t types.Type) bool {
	if t == nil {
		return false
	}
	b, ok := t.Underlying().(*types.Basic)
	return ok && b.Info()&types.IsString != 0
}

func isArrayType(t types.Type) bool {
	if t == nil {
		return false
	}
	_, ok := t.Underlying().(*types.Array)
	return ok
}

func rewriteCompare(x *ast.BinaryExpr, info *types.Info, fset *token.FileSet, file string, off func(token.Pos) int, add func(int, int, string, bool)) bool {
	switch x.Op {
	case token.EQL, token.NEQ, token.LSS, token.LEQ, token.GTR, token.GEQ:
	default:
		return false
	}
	if info == nil {
		return false
	}
	if tv, ok := info.Types[x]; ok && tv.Value != nil {
		return false // constant expression
	}
	tx, ty := info.TypeOf(x.X), info.TypeOf(x.Y)
	op := x.Op.String()
	switch {
	case isStringType(tx) || isStringType(ty):
		id := newSite(fset, file, x.OpPos, "string"+op)
		switch x.Op {
		case token.EQL:
			add(off(x.X.Pos()), 0, fmt.Sprintf("verifrt.EqS(%d, string(", id), false)
		case token.NEQ:
			add(off(x.X.Pos()), 0, fmt.Sprintf("!verifrt.EqS(%d, string(", id), false)
		default:
			add(off(x.X.Pos()), 0, fmt.Sprintf("verifrt.OrdS(%d, %q, string(", id, op), false)
		}
		add(off(x.X.End()), 0, ")", true)
		add(off(x.OpPos), len(op), ", string(", false)
		add(off(x.Y.End()), 0, "))", true)
		return true
	case isArrayType(tx) && isArrayType(ty) && (x.Op == token.EQL || x.Op == token.NEQ):
		id := newSite(fset, file, x.OpPos, "array"+op)
		neg := ""
		if x.Op == token.NEQ {
			neg = "!"
		}
		add(off(x.X.Pos()), 0, fmt.Sprintf("%sverifrt.EqA(%d, ", neg, id), false)
		add(off(x.OpPos), len(op), ", ", false)
		add(off(x.Y.End()), 0, ")", true)
		return true
	}
	return false
}

// rewriteShortCircuit makes the evaluation of the right operand of && and || visible in the trace
// (an implicit flow: `ok = ok && f(x[i])` stops calling f once ok is false).  Only plain bool operands.
func rewriteShortCircuit(x *ast.BinaryExpr, info *types.Info, fset *token.FileSet, file string, off func(token.Pos) int, add func(int, int, string, bool)) bool {
	if (x.Op != token.LAND && x.Op != token.LOR) || info == nil {
		return false
	}
	if tv, ok := info.Types[x]; ok && tv.Value != nil {
		return false // constant expression
	}
	plain := func(e ast.Expr) bool {
		b, ok := info.TypeOf(e).(*types.Basic)
		return ok && (b.Kind() == types.Bool || b.Kind() == types.UntypedBool)
	}
	if !plain(x.X) || !plain(x.Y) || !plain(x) {
		return false
	}
	id := newSite(fset, file, x.OpPos, "short-circuit"+x.Op.String())
	if x.Op == token.LAND {
		add(off(x.OpPos)+2, 0, fmt.Sprintf(" verifrt.SC(%d) &&", id), false)
	} else {
		add(off(x.OpPos)+2, 0, fmt.Sprintf(" !verifrt.SC(%d) ||", id), false)
	}
	return true
}

var subtleValueFuncs = map[string]bool{"ConstantTimeByteEq": true, "ConstantTimeEq": true, "ConstantTimeSelect": true, "ConstantTimeLessOrEq": true}

// rewriteTimeWait routes time.Sleep / After / NewTimer / AfterFunc through the runtime (the waiting a call asks for
// becomes a deterministic, observable quantity).  Returns the file's name for package time when it rewrote a call.
func rewriteTimeWait(c *ast.CallExpr, info *types.Info, alias map[string]string, off func(token.Pos) int, add func(int, int, string, bool)) string {
	sel, ok := c.Fun.(*ast.SelectorExpr)
	if !ok || !timeWaitFuncs[sel.Sel.Name] {
		return ""
	}
	id, ok := sel.X.(*ast.Ident)
	if !ok {
		return ""
	}
	var path string
	if info != nil {
		if pn, ok := info.Uses[id].(*types.PkgName); ok {
			path = pn.Imported().Path()
		} else if info.Uses[id] != nil {
			return ""
		}
	}
	if path == "" {
		path = alias[id.Name]
	}
	if path != "time" {
		return ""
	}
	add(off(sel.Pos()), int(sel.End()-sel.Pos()), "verifrt."+sel.Sel.Name, false)
	return id.Name
}

var timeWaitFuncs = map[string]bool{"Sleep": true, "After": true, "NewTimer": true, "AfterFunc": true}

// rewriteSubtleValue wraps calls of crypto/subtle's single-value primitives so that each call is a trace event.
func rewriteSubtleValue(c *ast.CallExpr, info *types.Info, alias map[string]string, fset *token.FileSet, file string, off func(token.Pos) int, add func(int, int, string, bool)) bool {
	sel, ok := c.Fun.(*ast.SelectorExpr)
	if !ok || !subtleValueFuncs[sel.Sel.Name] {
		return false
	}
	id, ok := sel.X.(*ast.Ident)
	if !ok {
		return false
	}
	var path string
	if info != nil {
		if pn, ok := info.Uses[id].(*types.PkgName); ok {
			path = pn.Imported().Path()
		} else if info.Uses[id] != nil {
			return false
		}
	}
	if path == "" {
		path = alias[id.Name]
	}
	if path != "crypto/subtle" {
		return false
	}
	name := path + "." + sel.Sel.Name
	site := newSite(fset, file, c.Pos(), name)
	add(off(c.Pos()), 0, fmt.Sprintf("verifrt.CTV(%d, %q, ", site, name), false)
	add(off(c.End()), 0, ")", true)
	return true
}

// rewriteSwitch makes the comparisons of a string switch with non-constant cases visible:
// `verifrt.SwitchS(site, tag, cases...)` is spliced in front of the statement.  Only tags and
// cases without calls are handled (they are evaluated a second time).
func rewriteSwitch(x *ast.SwitchStmt, info *types.Info, fset *token.FileSet, file string, src []byte, base int, add func(int, int, string, bool)) bool {
	if x.Tag == nil || x.Init != nil || info == nil || !isStringType(info.TypeOf(x.Tag)) {
		return false
	}
	pure := func(e ast.Expr) bool {
		ok := true
		ast.Inspect(e, func(n ast.Node) bool {
			if _, isCall := n.(*ast.CallExpr); isCall {
				if tv, has := info.Types[n.(*ast.CallExpr).Fun]; !has || !tv.IsType() {
					ok = false
				}
			}
			return ok
		})
		return ok
	}
	if !pure(x.Tag) {
		return false
	}
	text := func(e ast.Expr) string { return string(src[int(e.Pos())-base : int(e.End())-base]) }
	var cases []string
	nonConst := false
	for _, cl := range x.Body.List {
		for _, e := range cl.(*ast.CaseClause).List {
			if !pure(e) {
				return false
			}
			if tv, ok := info.Types[e]; !ok || tv.Value == nil {
				nonConst = true
			}
			cases = append(cases, "string("+text(e)+")")
		}
	}
	if !nonConst || len(cases) == 0 {
		return false
	}
	for k := int(x.Pos()) - base - 1; k >= 0; k-- { // a labelled switch keeps its label: leave it alone
		if c := src[k]; c == ' ' || c == '\t' || c == '\n' {
			continue
		} else if c == ':' {
			return false
		}
		break
	}
	id := newSite(fset, file, x.Pos(), "switch-string")
	add(int(x.Pos())-base, 0, fmt.Sprintf("verifrt.SwitchS(%d, string(%s), %s);", id, text(x.Tag), strings.Join(cases, ", ")), false)
	return true
}

// rewriteMapIndex routes the key of a lookup in a map with string keys through
// verifrt.MapProbe (only for maps named by a plain identifier or selector: it is evaluated twice).
func rewriteMapIndex(x *ast.IndexExpr, info *types.Info, fset *token.FileSet, file string, src []byte, base int, add func(int, int, string, bool)) bool {
	if info == nil {
		return false
	}
	t := info.TypeOf(x.X)
	if t == nil {
		return false
	}
	mt, ok := t.Underlying().(*types.Map)
	if !ok || !isStringType(mt.Key()) {
		return false
	}
	switch x.X.(type) {
	case *ast.Ident, *ast.SelectorExpr:
	default:
		return false
	}
	if tv, ok := info.Types[x.Index]; ok && tv.Value != nil {
		return false // constant key
	}
	id := newSite(fset, file, x.Lbrack, "map-index")
	add(int(x.Index.Pos())-base, 0, fmt.Sprintf("verifrt.MapProbe(%d, ", id), false)
	add(int(x.Index.End())-base, 0, ", "+string(src[int(x.X.Pos())-base:int(x.X.End())-base])+")", true)
	return true
}

var cmpFuncs = map[string]string{ // pkgpath.Func -> wrapper kind
	"bytes.Equal": "BB", "bytes.Compare": "BB", "bytes.HasPrefix": "BB", "bytes.HasSuffix": "BB", "bytes.Contains": "BB", "bytes.Index": "BB", "bytes.EqualFold": "BB",
	"strings.Compare": "SS", "strings.EqualFold": "SS", "strings.HasPrefix": "SS", "strings.HasSuffix": "SS", "strings.Contains": "SS", "strings.Index": "SS",
	"reflect.DeepEqual": "AA",
	"slices.Contains":   "W2", "slices.Index": "W2", "slices.Equal": "W2", "slices.Compare": "W2", "sort.SearchStrings": "W2", "slices.BinarySearch": "W2R2",
	"crypto/subtle.ConstantTimeCompare": "CT", "crypto/hmac.Equal": "CT",
}

func rewriteCall(c *ast.CallExpr, info *types.Info, alias map[string]string, fset *token.FileSet, file string, off func(token.Pos) int, add func(int, int, string, bool)) bool {
	sel, ok := c.Fun.(*ast.SelectorExpr)
	if !ok || len(c.Args) != 2 || c.Ellipsis.IsValid() {
		return false
	}
	id, ok := sel.X.(*ast.Ident)
	if !ok {
		return false
	}
	var path string
	if info != nil {
		if pn, ok := info.Uses[id].(*types.PkgName); ok {
			path = pn.Imported().Path()
		} else if info.Uses[id] != nil {
			return false // a variable, not a package
		}
	}
	if path == "" {
		path = alias[id.Name]
	}
	kind, ok := cmpFuncs[path+"."+sel.Sel.Name]
	if !ok {
		return false
	}
	name := path + "." + sel.Sel.Name
	site := newSite(fset, file, c.Pos(), name)
	fn := id.Name + "." + sel.Sel.Name
	switch kind {
	case "BB":
		add(off(c.Fun.Pos()), 0, fmt.Sprintf("verifrt.WBB(%d, %q, false, ", site, name), false)
	case "CT":
		add(off(c.Fun.Pos()), 0, fmt.Sprintf("verifrt.WBB(%d, %q, true, ", site, name), false)
	case "SS":
		add(off(c.Fun.Pos()), 0, fmt.Sprintf("verifrt.WSS(%d, %q, ", site, name), false)
	case "AA":
		add(off(c.Fun.Pos()), 0, fmt.Sprintf("verifrt.WAA(%d, %q, ", site, name), false)
	case "W2":
		add(off(c.Fun.Pos()), 0, fmt.Sprintf("verifrt.W2(%d, %q, ", site, name), false)
	case "W2R2":
		add(off(c.Fun.Pos()), 0, fmt.Sprintf("verifrt.W2R2(%d, %q, ", site, name), false)
	}
	_ = fn
	add(off(c.Lparen), 1, ", ", false)
	return true
}

func apply(src []byte, sp []splice) []byte {
	sort.SliceStable(sp, func(i, j int) bool {
		a, b := sp[i], sp[j]
		if a.off != b.off {
			return a.off < b.off
		}
		if a.close != b.close {
			return a.close // closes first
		}
		if a.close {
			return a.seq > b.seq // inner (later) closes first
		}
		return a.seq < b.seq
	})
	var out []byte
	pos := 0
	for _, s := range sp {
		if s.off < pos {
			// overlapping replacement: keep the file compilable by skipping this splice
			skips = append(skips, fmt.Sprintf("overlap at offset %d: %q", s.off, s.text))
			continue
		}
		out = append(out, src[pos:s.off]...)
		out = append(out, s.text...)
		pos = s.off + s.del
	}
	out = append(out, src[pos:]...)
	return out
}
