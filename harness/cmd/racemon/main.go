// racemon is the free-running monitor: the same kinds of calls as the scheduled scenarios,
// on the real sync.Pool, on many goroutines, built with -race.  It is auxiliary: a race
// report or a result different from the reference is a real violation, silence proves nothing.
package main

import (
	"fmt"
	"os"
	"runtime"
	"strconv"
	"strings"
	"sync"
	"sync/atomic"
	"time"

	"github.com/ja7ad/otp"
	"github.com/ja7ad/otp/verifharness/ref"
)

func main() {
	iters := 300
	if len(os.Args) > 1 {
		iters, _ = strconv.Atoi(os.Args[1])
	}
	key := []byte("12345678901234567890")
	sec := ref.B32Encode(key)
	short, _ := ref.ParseSuite("OCRA-1:HOTP-SHA1-6:QN08")
	long := ref.OCRASuite{Text: "OCRA-1:HOTP-SHA512-8:C-QH10-PSHA1-S128-T1M", Hash: 2, Digits: 8, C: true, Q: true, P: true, S: true, T: true, QFormat: 6, PHash: 1, TimeStep: 60}
	longCfg := otp.SuiteConfig{Raw: long.Text, Hash: otp.SHA512, Digits: 8, Challenge: 6, IncludeCounter: true, IncludeChallenge: true, IncludePassword: true, IncludeSession: true, IncludeTimestamp: true, PasswordHash: 1, TimeStep: 60}
	mk := func(n int, s byte) []byte {
		b := make([]byte, n)
		for i := range b {
			b[i] = s + byte(i)
		}
		return b
	}
	sharedParam := &otp.Param{Digits: 6, Algorithm: otp.SHA1}
	sharedRef := ref.OCRAIn{Counter: mk(8, 1), Challenge: mk(12, 2), Password: mk(20, 3), Session: mk(40, 4), Timestamp: mk(8, 5)}
	sharedIn := otp.OCRAInput{Counter: sharedRef.Counter, Challenge: sharedRef.Challenge, Password: sharedRef.Password, SessionInfo: sharedRef.Session, Timestamp: sharedRef.Timestamp}
	sharedWant := ref.OCRA(key, long, sharedRef)
	nSuites := len(otp.VerifKnownSuites()) // not through ListSuites: its first use must happen concurrently below
	var bad atomic.Int64
	var firstBad atomic.Value
	fail := func(f string, a ...any) {
		if bad.Add(1) == 1 {
			firstBad.Store(fmt.Sprintf(f, a...))
		}
	}
	var wg sync.WaitGroup
	var calls atomic.Int64
	for _, g := range []int{64, 8, 1} { // the widest fan-out first: first uses of everything overlap
		stop := make(chan struct{})
		// adversaries and garbage collections
		var adv sync.WaitGroup
		for a := 0; a < 2; a++ {
			adv.Add(1)
			go func(a int) {
				defer adv.Done()
				p4, p6 := otp.VerifPools()
				for {
					select {
					case <-stop:
						return
					default:
					}
					if a == 0 {
						b := p4.Get().(*[8]byte)
						for i := range b {
							b[i] = 0xA5
						}
						p4.Put(b)
						b6 := p6.Get().(*[]byte)
						*b6 = (*b6)[:cap(*b6)]
						for i := range *b6 {
							(*b6)[i] = 0xA5
						}
						p6.Put(b6)
					} else {
						runtime.GC()
						time.Sleep(200 * time.Microsecond)
					}
					runtime.Gosched()
				}
			}(a)
		}
		for w := 0; w < g; w++ {
			wg.Add(1)
			go func(w int) {
				defer wg.Done()
				var kept, clones []string
				for i := 0; i < iters; i++ {
					c := uint64(w*1000003 + i)
					d := 1 + (w+i)%10
					a := (w + i) % 3
					s, err := otp.GenerateHOTP(sec, c, &otp.Param{Digits: otp.Digits(d), Algorithm: otp.Algorithm(a)})
					if want := ref.HOTP(key, c, d, a); err != nil || s != want {
						fail("GenerateHOTP(c=%d,d=%d,a=%d) = %q, %v; want %q", c, d, a, s, err, want)
					}
					kept, clones = append(kept, s), append(clones, strings.Clone(s))
					ok, err := otp.ValidateHOTP(sec, ref.HOTP(key, c+1, 6, 0), c, nil)
					if !ok || err != nil {
						fail("ValidateHOTP neighbour +1 rejected: %v %v", ok, err)
					}
					t := time.Unix(int64(c%100000), 0)
					s, err = otp.GenerateTOTP(sec, t, nil)
					if want := ref.HOTP(key, ref.Step(t.Unix(), 30), 6, 0); err != nil || s != want {
						fail("GenerateTOTP = %q, %v; want %q", s, err, want)
					}
					// arguments that callers SHARE between goroutines because they are read-only by contract: one
					// parameter struct (period 0 = default), one OCRA input
					s, err = otp.GenerateTOTP(sec, t, sharedParam)
					if want := ref.HOTP(key, ref.Step(t.Unix(), 30), 6, 0); err != nil || s != want {
						fail("GenerateTOTP(shared Param) = %q, %v; want %q", s, err, want)
					}
					if ok, err := otp.ValidateTOTP(sec, s, t, sharedParam); !ok || err != nil {
						fail("ValidateTOTP(shared Param) rejects the generated code: %v %v", ok, err)
					}
					if s, err := otp.GenerateHOTP(sec, c, sharedParam); err != nil || s != ref.HOTP(key, c, 6, 0) {
						fail("GenerateHOTP(shared Param) = %q, %v", s, err)
					}
					if s, err := otp.GenerateOCRA(sec, longCfg, sharedIn); err != nil || s != sharedWant {
						fail("GenerateOCRA(shared input) = %q, %v; want %q", s, err, sharedWant)
					}
					q := mk(10+(i%100), byte(w))
					su, _ := otp.NewRawSuite(short.Text)
					s, err = otp.GenerateOCRA(sec, su, otp.OCRAInput{Challenge: q})
					if want := ref.OCRA(key, short, ref.OCRAIn{Challenge: q}); err != nil || s != want {
						fail("GenerateOCRA short = %q, %v; want %q", s, err, want)
					}
					kept, clones = append(kept, s), append(clones, strings.Clone(s))
					in := ref.OCRAIn{Counter: mk(8, byte(i)), Challenge: q, Password: mk(20, 3), Session: mk(i%129, 9), Timestamp: mk(8, byte(w))}
					s, err = otp.GenerateOCRA(sec, longCfg, otp.OCRAInput{Counter: in.Counter, Challenge: in.Challenge, Password: in.Password, SessionInfo: in.Session, Timestamp: in.Timestamp})
					if want := ref.OCRA(key, long, in); err != nil || s != want {
						fail("GenerateOCRA long = %q, %v; want %q", s, err, want)
					}
					if ok, err := otp.ValidateOCRA(sec, s, longCfg, otp.OCRAInput{Counter: in.Counter, Challenge: in.Challenge, Password: in.Password, SessionInfo: in.Session, Timestamp: in.Timestamp}); !ok || err != nil {
						fail("ValidateOCRA rejects the generated code")
					}
					if len(otp.ListSuites()) != nSuites || !otp.IsKnownSuite(short.Text) {
						fail("suite registry changed")
					}
					// the rest of the public API, so that lazily built or cached state anywhere is exercised concurrently
					pn := fmt.Sprintf("OCRA-1:HOTP-SHA256-7:QN10-T%dS", 1+(w+i)%59)
					if ps, err := otp.NewRawSuite(pn); err != nil || ps.String() != pn || ps.Config().TimeStep != 1+(w+i)%59 || ps.Config().Digits != 7 {
						fail("NewRawSuite(%s) wrong under concurrency", pn)
					}
					if ps, err := otp.NewRawSuite(strings.ToLower(pn)); err == nil && ps.String() != strings.ToLower(pn) {
						fail("NewRawSuite(lower-case) reports another name under concurrency: %s", ps.String())
					}
					if _, err := otp.NewRawSuite("OCRA-2:HOTP-SHA1-6:QN08"); err == nil {
						fail("malformed suite accepted")
					}
					sp := []string{sec, strings.ToLower(sec), " " + sec + "\n", sec + "======"}[(w+i)%4]
					if b, err := otp.DecodeSecret(sp); (w+i)%4 != 3 && (err != nil || string(b) != string(key)) {
						fail("DecodeSecret(%q) wrong under concurrency", sp)
					}
					if rs, err := otp.RandomSecret(otp.Algorithm(a)); err != nil || len(rs) != []int{32, 52, 103}[a] {
						fail("RandomSecret wrong under concurrency: %q %v", rs, err)
					}
					up := otp.URLParam{Issuer: fmt.Sprintf("Iss %d", w), AccountName: fmt.Sprintf("acc+%d@x", i), Secret: sec, Digits: otp.Digits(d), Algorithm: otp.Algorithm(a), Period: uint(30 + i%3)}
					if u, err := otp.GenerateTOTPURL(up); err != nil {
						fail("GenerateTOTPURL: %v", err)
					} else if back, err := otp.ParseOTPAuthURL(u); err != nil || back.Issuer != up.Issuer || back.AccountName != up.AccountName || back.Secret != sec || back.Period != up.Period || back.Digits != up.Digits {
						fail("URL round trip wrong under concurrency: %+v %v", back, err)
					}
					if b, err := otp.ParseDecimalChallengeRFC6287(fmt.Sprint(c)); err != nil || len(b) != 128 {
						fail("ParseDecimalChallengeRFC6287 wrong under concurrency")
					}
					if hx, err := otp.HexInputToOCRA("0000000000000001", "3132333435363738", "", "", ""); err != nil || len(hx.Counter) != 8 {
						fail("HexInputToOCRA wrong under concurrency")
					}
					calls.Add(17)
					if i%64 == 63 {
						for k := range kept {
							if kept[k] != clones[k] {
								fail("a returned string changed after it was returned: %q -> %q", clones[k], kept[k])
							}
						}
						kept, clones = kept[:0], clones[:0]
					}
				}
			}(w)
		}
		wg.Wait()
		close(stop)
		adv.Wait()
	}
	if bad.Load() > 0 {
		fmt.Printf("MISMATCH (%d): %v\n", bad.Load(), firstBad.Load())
		os.Exit(3)
	}
	fmt.Printf("race-monitor ok GOMAXPROCS=%d calls=%d", runtime.GOMAXPROCS(0), calls.Load())
}
