// vrun runs one property's exploration against the library built from /repo's working tree.
package main

import (
	"flag"
	"fmt"
	"os"

	"github.com/ja7ad/otp/verifharness/checks"
	"github.com/ja7ad/otp/verifharness/ev"
	"github.com/ja7ad/otp/verifharness/ref"
)

func main() {
	replay := flag.String("replay", "", "replay a recorded violation file")
	flag.Parse()
	if flag.NArg() < 1 {
		fmt.Fprintln(os.Stderr, "usage: vrun [--replay f] <ID>")
		os.Exit(2)
	}
	id := flag.Arg(0)
	f := checks.Registry[id]
	if f == nil {
		fmt.Fprintf(os.Stderr, "vrun: property %s is not served by this binary\n", id)
		os.Exit(2)
	}
	if err := ref.Anchor(); err != nil {
		fmt.Fprintln(os.Stderr, "HARNESS-ERROR: reference model disagrees with an RFC vector:", err)
		os.Exit(2)
	}
	r := ev.New(id, checks.Levels[id])
	if *replay != "" {
		os.Setenv("VERIF_REPLAY_ONLY", "1")
		checks.ReplayOnly = true
		f(r) // registers scenarios only
		os.Exit(r.ReplayFile(*replay))
	}
	ev.Guard("the exploration", func() { f(r) })
	os.Exit(r.Finish())
}
