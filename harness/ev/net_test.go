package ev

import (
	"runtime/debug"
	"strings"
	"testing"

	"github.com/ja7ad/otp"
)

func TestLibraryFrame(t *testing.T) {
	var got string
	func() {
		defer func() { recover(); got = libraryFrame(string(debug.Stack())) }()
		otp.MustRawSuite("bad")
	}()
	if !strings.Contains(got, "MustRawSuite") {
		t.Fatalf("library panic not recognised: %q", got)
	}
	func() {
		defer func() { recover(); got = libraryFrame(string(debug.Stack())) }()
		var m map[string]int
		m["a"] = 1
	}()
	if got != "" {
		t.Fatalf("harness panic attributed to the library: %q", got)
	}
	func() {
		defer func() { recover(); got = libraryFrame(string(debug.Stack())) }()
		var p *otp.SuiteConfig
		_ = p.Config() // nil dereference inside a library method
	}()
	t.Log(got)
}
