// Package ev is the evidence / violation / known-finding plumbing shared by all checks.
package ev

import (
	"encoding/json"
	"fmt"
	"hash/fnv"
	"os"
	"os/exec"
	"path/filepath"
	"regexp"
	"runtime"
	"runtime/debug"
	"sort"
	"strconv"
	"strings"
	"sync"
	"sync/atomic"
	"time"
)

// VerifDir is the root of the verification tree (cwd of every registered command).
func VerifDir() string {
	if d := os.Getenv("VERIF_DIR"); d != "" {
		return d
	}
	return "/verif"
}

// Replayer re-executes one recorded case of a scenario and returns what it observed
// and, if the oracle is violated, a non-empty description.
type Replayer func(raw []byte) (obs string, bad string)

// Violation is one failing case.
type Violation struct {
	Property string          `json:"property"`
	Scenario string          `json:"scenario"`
	Sig      string          `json:"signature"` // stable, specific signature used for known-finding matching
	Case     json.RawMessage `json:"case"`
	Want     string          `json:"want"`
	Got      string          `json:"got"`
	Replay   string          `json:"-"`
}

type known struct {
	Property string `json:"property"`
	Scenario string `json:"scenario"`
	SigRegex string `json:"sig_regex"`
	What     string `json:"what"`
	re       *regexp.Regexp
}

type knownFile struct {
	Findings []known  `json:"findings"`
	Fixed    []string `json:"fixed"`
}

// Run accumulates what one check invocation covered.
type Run struct {
	ID    string
	Tier  string
	Level string
	Seed  int64

	start time.Time

	evals       atomic.Int64
	states      atomic.Int64
	transitions atomic.Int64
	traces      atomic.Int64

	mu          sync.Mutex
	distinct    [64]map[uint64]struct{}
	dmu         [64]sync.Mutex
	distinctCap int
	capped      atomic.Bool
	samples     []any
	extra       map[string]any
	assumptions []string
	caps        []string
	rule        string
	exhaustive  bool
	notExh      []string

	scen    map[string]Replayer
	onWedge []func()
	beats   atomic.Int64
	viol    []Violation
	perScen map[string]int
	nviol   int
	knownN  map[string]int
	kf      knownFile

	Broken []string // harness-level failures (not violations): make the check exit 2
}

func New(id, level string) *Run {
	r := &Run{ID: id, Level: level, start: time.Now(), extra: map[string]any{}, scen: map[string]Replayer{}, knownN: map[string]int{}, exhaustive: true, distinctCap: 4_000_000}
	r.Tier = os.Getenv("VERIF_TIER")
	if r.Tier != "thorough" {
		r.Tier = "quick"
	}
	if s := os.Getenv("VERIF_SEED"); s != "" {
		if v, err := strconv.ParseInt(s, 10, 64); err == nil {
			r.Seed = v
		}
	}
	for i := range r.distinct {
		r.distinct[i] = map[uint64]struct{}{}
	}
	b, err := os.ReadFile(filepath.Join(VerifDir(), "known_findings.json"))
	if err == nil {
		if err := json.Unmarshal(b, &r.kf); err != nil {
			r.Broken = append(r.Broken, "known_findings.json unreadable: "+err.Error())
		}
		for i := range r.kf.Findings {
			re, err := regexp.Compile(r.kf.Findings[i].SigRegex)
			if err != nil {
				r.Broken = append(r.Broken, "known_findings.json bad regex: "+err.Error())
				continue
			}
			r.kf.Findings[i].re = re
		}
	}
	if os.Getenv("VERIF_CHILD") == "" {
		go r.stallMonitor()
	}
	current = r
	// a panic raised by the code under test outside every guarded call (see Guard / Par) is recorded under this
	// scenario; it cannot be replayed in isolation, so it is decided by the whole-run replay
	r.scen["uncaught-library-panic"] = func([]byte) (string, string) { return "", "" }
	return r
}

// Impatient shortens the patience of the stall monitor: set once a failure or a suspect has been recorded
// (a wedge after that most likely belongs to the same defect, and what was found should be reported soon).
var Impatient atomic.Bool

// OnWedge registers work to do when the check is found wedged, before what has been found is reported
// (e.g. deciding cases that were cut off and queued).
func (r *Run) OnWedge(f func()) { r.mu.Lock(); r.onWedge = append(r.onWedge, f); r.mu.Unlock() }

// stallMonitor ends a wedged check: no evaluation was recorded for a long time (a change under test that
// blocks or spins outside what this property's exploration guards).  The wedge itself never produces a
// violation: if violations had already been recorded they are confirmed and reported as usual (the evidence
// says exhaustive=false, wedged); otherwise the check ends as a harness error.
func (r *Run) stallMonitor() {
	last, since := r.evals.Load()+r.states.Load(), time.Now()
	for {
		time.Sleep(5 * time.Second)
		if cur := r.evals.Load() + r.states.Load() + r.transitions.Load() + r.beats.Load(); cur != last {
			last, since = cur, time.Now()
			continue
		}
		limit := 900 * time.Second
		if Impatient.Load() {
			limit = 180 * time.Second
		}
		if time.Since(since) > limit {
			r.mu.Lock()
			hooks := r.onWedge
			r.mu.Unlock()
			for _, h := range hooks {
				func() {
					defer func() { recover() }()
					h()
				}()
			}
			if r.Violations() > 0 {
				r.NotExhaustive(fmt.Sprintf("wedged: no evaluation recorded for %v; the exploration was abandoned and what had been found is reported", limit))
				fmt.Fprintf(os.Stderr, "note: %s made no progress for %v (wedged); reporting the violations found so far\n", r.ID, limit)
				os.Exit(r.Finish())
			}
			fmt.Fprintf(os.Stderr, "HARNESS-ERROR: %s made no progress for %v (wedged); giving up\n", r.ID, limit)
			os.Exit(2)
		}
	}
}

func (r *Run) Thorough() bool { return r.Tier == "thorough" }

// Scenario registers the replayer for a scenario name.
func (r *Run) Scenario(name string, f Replayer) { r.scen[name] = f }

func (r *Run) Eval(n int64)       { r.evals.Add(n) }
func (r *Run) State(n int64)      { r.states.Add(n) }
func (r *Run) Transition(n int64) { r.transitions.Add(n) }
func (r *Run) Trace(n int64)      { r.traces.Add(n) }
func (r *Run) Evals() int64       { return r.evals.Load() }

// Beat tells the stall monitor that the check is alive although no evaluation has been recorded yet
// (a parent that supervises a child process doing the exploration calls it while the child makes progress).
func (r *Run) Beat() { r.beats.Add(1) }

func H(s string) uint64 {
	h := fnv.New64a()
	h.Write([]byte(s))
	return h.Sum64()
}

// Distinct records the hash of a non-trivial outcome/case.
func (r *Run) Distinct(h uint64) {
	if r.capped.Load() {
		return
	}
	i := h & 63
	r.dmu[i].Lock()
	m := r.distinct[i]
	if len(m) >= r.distinctCap/64 {
		r.dmu[i].Unlock()
		r.capped.Store(true)
		return
	}
	m[h] = struct{}{}
	r.dmu[i].Unlock()
}

func (r *Run) DistinctS(s string) { r.Distinct(H(s)) }

func (r *Run) distinctCount() int {
	n := 0
	for i := range r.distinct {
		n += len(r.distinct[i])
	}
	return n
}

// Sample keeps up to 12 written-out cases.
func (r *Run) Sample(v any) {
	r.mu.Lock()
	if len(r.samples) < 12 {
		r.samples = append(r.samples, v)
	}
	r.mu.Unlock()
}

func (r *Run) Rule(s string) { r.rule = s }
func (r *Run) Set(k string, v any) {
	r.mu.Lock()
	r.extra[k] = v
	r.mu.Unlock()
}
func (r *Run) Add(k string, n int64) {
	r.mu.Lock()
	cur, _ := r.extra[k].(int64)
	r.extra[k] = cur + n
	r.mu.Unlock()
}
func (r *Run) Assume(s ...string) { r.assumptions = append(r.assumptions, s...) }

// NotExhaustive records that some declared space was not finished (cap, deadline, unavailable tool).
func (r *Run) NotExhaustive(why string) {
	r.mu.Lock()
	r.exhaustive = false
	r.notExh = append(r.notExh, why)
	r.mu.Unlock()
}

// Fail reports a failing case. c must be JSON-serialisable and sufficient for the
// scenario's Replayer to re-execute the case.
func (r *Run) Fail(scenario, sig string, c any, want, got string) {
	raw, err := json.Marshal(c)
	if err != nil {
		raw = []byte(strconv.Quote(fmt.Sprint(c)))
	}
	r.mu.Lock()
	defer r.mu.Unlock()
	// known finding?
	for _, k := range r.kf.Findings {
		if k.Property == r.ID && (k.Scenario == "" || k.Scenario == scenario) && k.re != nil && k.re.MatchString(sig) {
			r.knownN[k.What]++
			return
		}
	}
	r.nviol++
	Impatient.Store(true)
	if r.perScen == nil {
		r.perScen = map[string]int{}
	}
	r.perScen[scenario]++
	if r.perScen[scenario] <= 12 { // a few per scenario, so that one noisy scenario cannot crowd out the others
		r.viol = append(r.viol, Violation{Property: r.ID, Scenario: scenario, Sig: sig, Case: raw, Want: want, Got: got})
	}
}

func (r *Run) Violations() int { r.mu.Lock(); defer r.mu.Unlock(); return r.nviol }

// Finish confirms violations by replay, writes replay files and the evidence file and
// returns the process exit code.
func (r *Run) Finish() int {
	dir := VerifDir()
	if d := os.Getenv("VERIF_OUT"); d != "" { // development aid (parallel mutant runs): evidence and replays elsewhere
		dir = d
	}
	if os.Getenv("VERIF_RERUN") == "1" {
		// second, independent execution of the whole exploration (see below): report raw findings only
		r.mu.Lock()
		per := map[string]int{}
		for k, v := range r.perScen {
			per[k] = v
		}
		r.mu.Unlock()
		b, _ := json.Marshal(per)
		fmt.Println("RERUN-RESULT " + string(b))
		return 0
	}
	_ = os.MkdirAll(filepath.Join(dir, "evidence"), 0o755)
	_ = os.MkdirAll(filepath.Join(dir, "replays"), 0o755)

	confirmed := 0
	var lines []string
	var unconfirmed []*Violation
	var unconfirmedMsg []string
	for i := range r.viol {
		v := &r.viol[i]
		if rp := r.scen[v.Scenario]; rp != nil {
			o1, b1 := rp(v.Case)
			o2, b2 := rp(v.Case)
			if o1 != o2 || b1 != b2 {
				unconfirmed = append(unconfirmed, v)
				unconfirmedMsg = append(unconfirmedMsg, fmt.Sprintf("replay of %s/%s is not deterministic in isolation: %q/%q vs %q/%q", v.Scenario, v.Sig, trunc(o1, 80), trunc(b1, 80), trunc(o2, 80), trunc(b2, 80)))
				continue
			}
			if b1 == "" {
				unconfirmed = append(unconfirmed, v)
				unconfirmedMsg = append(unconfirmedMsg, fmt.Sprintf("violation %s/%s did not reproduce on replay in isolation (obs %q)", v.Scenario, v.Sig, trunc(o1, 120)))
				continue
			}
		}
		confirmed++
		name := fmt.Sprintf("%s-%016x.json", r.ID, H(v.Scenario+"|"+v.Sig+"|"+string(v.Case)))
		p := filepath.Join(dir, "replays", name)
		b, _ := json.MarshalIndent(v, "", " ")
		_ = os.WriteFile(p, b, 0o644)
		v.Replay = p
		if len(lines) < 10 {
			lines = append(lines, fmt.Sprintf("VIOLATION property=%s replay=%s", r.ID, p))
		}
		if len(lines) <= 3 {
			fmt.Printf("  scenario=%s sig=%s\n  case=%s\n  want=%s\n  got=%s\n", v.Scenario, v.Sig, trunc(string(v.Case), 600), trunc(v.Want, 300), trunc(v.Got, 300))
		}
	}
	// Failures that do not reproduce in isolation may depend on the call history of the whole
	// exploration (state hidden in the code under test).  The replay for those is a second,
	// independent execution of the complete exploration in a fresh process: a scenario that
	// fails again is confirmed; one that does not is a harness problem, not a violation.
	if len(unconfirmed) > 0 {
		again := r.rerunWhole()
		for _, v := range unconfirmed {
			if again[v.Scenario] > 0 {
				confirmed++
				name := fmt.Sprintf("%s-%016x.json", r.ID, H("whole-run|"+v.Scenario+"|"+v.Sig))
				p := filepath.Join(dir, "replays", name)
				rec := map[string]any{"property": r.ID, "scenario": v.Scenario, "signature": v.Sig, "case": v.Case, "want": v.Want, "got": v.Got,
					"replay": "whole-run", "note": "not reproducible in isolation (history-dependent); confirmed by a second complete execution in a fresh process, which failed in the same scenario " + fmt.Sprint(again[v.Scenario]) + " time(s)"}
				b, _ := json.MarshalIndent(rec, "", " ")
				_ = os.WriteFile(p, b, 0o644)
				if len(lines) < 10 {
					lines = append(lines, fmt.Sprintf("VIOLATION property=%s replay=%s", r.ID, p))
				}
				if len(lines) <= 3 {
					fmt.Printf("  scenario=%s sig=%s (history-dependent; confirmed by whole-run replay)\n  case=%s\n  want=%s\n  got=%s\n", v.Scenario, v.Sig, trunc(string(v.Case), 600), trunc(v.Want, 300), trunc(v.Got, 300))
				}
			}
		}
		if confirmed == 0 {
			r.Broken = append(r.Broken, unconfirmedMsg...)
		} else {
			for _, m := range unconfirmedMsg {
				fmt.Fprintln(os.Stderr, "note:", m)
			}
		}
	}
	nviol := r.nviol
	if confirmed == 0 && len(r.viol) > 0 {
		nviol = 0 // nothing reproduced: harness broken, reported below
	}

	cov := map[string]any{}
	for k, v := range r.extra {
		cov[k] = v
	}
	cov["evaluations"] = r.evals.Load()
	dn := r.distinctCount()
	cov["distinct_nontrivial"] = dn
	rule := r.rule
	if r.capped.Load() {
		rule += " [distinct counting stopped at its memory cap; the number is a lower bound]"
	}
	cov["rule"] = rule
	cov["samples"] = r.samples
	cov["exhaustive"] = r.exhaustive && len(r.Broken) == 0
	if len(r.notExh) > 0 {
		cov["caps_hit"] = r.notExh
	}
	if s := r.states.Load(); s > 0 {
		cov["states"] = s
	}
	if s := r.transitions.Load(); s > 0 {
		cov["transitions"] = s
	}
	if r.Level == "model_checking" {
		cov["traces_validated_against_impl"] = r.traces.Load()
	}
	if len(r.knownN) > 0 {
		cov["known_findings_seen"] = r.knownN
	}
	if len(r.Broken) > 0 {
		cov["harness_errors"] = r.Broken
	}
	evd := map[string]any{
		"property_id": r.ID,
		"tier":        r.Tier,
		"seed":        r.Seed,
		"level":       r.Level,
		"coverage":    cov,
		"assumptions": r.assumptions,
		"wall_s":      float64(int(time.Since(r.start).Seconds()*1000)) / 1000,
		"violations":  nviol,
		"go":          runtime.Version(),
	}
	b, _ := json.MarshalIndent(evd, "", " ")
	if err := os.WriteFile(filepath.Join(dir, "evidence", r.ID+".json"), b, 0o644); err != nil {
		fmt.Fprintln(os.Stderr, "cannot write evidence:", err)
		return 2
	}

	var ks []string
	for k := range r.knownN {
		ks = append(ks, k)
	}
	sort.Strings(ks)
	for _, k := range ks {
		fmt.Printf("KNOWN-FINDING: property=%s %s (%d cases)\n", r.ID, k, r.knownN[k])
	}
	fmt.Printf("%s %s: evaluations=%d distinct=%d states=%d transitions=%d exhaustive=%v violations=%d wall=%.1fs\n",
		r.ID, r.Tier, r.evals.Load(), dn, r.states.Load(), r.transitions.Load(), cov["exhaustive"], nviol, time.Since(r.start).Seconds())
	for _, l := range lines {
		fmt.Println(l)
	}
	for _, b := range r.Broken {
		fmt.Fprintln(os.Stderr, "HARNESS-ERROR:", b)
	}
	if confirmed > 0 {
		return 1 // confirmed violations win over unconfirmed ones (history-dependent failures may not replay from a fresh state)
	}
	if len(r.Broken) > 0 {
		return 2
	}
	return 0
}

func trunc(s string, n int) string {
	if len(s) > n {
		return s[:n] + "…"
	}
	return s
}

// ReplayFile re-runs a recorded violation with the given scenario table.
func (r *Run) ReplayFile(path string) int {
	b, err := os.ReadFile(path)
	if err != nil {
		fmt.Fprintln(os.Stderr, err)
		return 2
	}
	var v Violation
	if err := json.Unmarshal(b, &v); err != nil {
		fmt.Fprintln(os.Stderr, err)
		return 2
	}
	rp := r.scen[v.Scenario]
	if rp == nil {
		fmt.Fprintf(os.Stderr, "unknown scenario %q\n", v.Scenario)
		return 2
	}
	o1, b1 := rp(v.Case)
	o2, b2 := rp(v.Case)
	fmt.Printf("replay scenario=%s\n case=%s\n observed=%s\n verdict=%s\n", v.Scenario, trunc(string(v.Case), 800), o1, b1)
	if o1 != o2 || b1 != b2 {
		fmt.Println("NON-DETERMINISTIC replay")
		return 2
	}
	if b1 != "" {
		fmt.Printf("VIOLATION property=%s replay=%s\n", v.Property, path)
		return 1
	}
	fmt.Println("no violation on this tree")
	return 0
}

var current *Run

// libraryFrame returns the function that raised the panic whose stack is given when that function belongs to
// the code under test (the library or its REST package, not the harness and not the injected runtime), else "".
func libraryFrame(stack string) string {
	lines := strings.Split(stack, "\n")
	seenPanic := false
	for _, l := range lines {
		if strings.HasPrefix(l, "\t") || l == "" {
			continue
		}
		if strings.HasPrefix(l, "panic(") {
			seenPanic = true
			continue
		}
		if !seenPanic || strings.HasPrefix(l, "runtime.") || strings.HasPrefix(l, "runtime/") {
			continue
		}
		fn := l
		if k := strings.LastIndex(fn, "("); k > 0 {
			fn = fn[:k]
		}
		if strings.HasPrefix(fn, "github.com/ja7ad/otp") && !strings.Contains(fn, "/verifharness") && !strings.Contains(fn, "/internal/verifrt") {
			return fn
		}
		return ""
	}
	return ""
}

// Guard runs f; a panic raised by the code under test is recorded as a failure of the running check (and
// f is abandoned), any other panic is passed on.  It is the net under the per-call guards of the checks.
func Guard(what string, f func()) {
	defer func() {
		if pv := recover(); pv != nil {
			fn := libraryFrame(string(debug.Stack()))
			if fn == "" || current == nil {
				panic(pv)
			}
			current.Fail("uncaught-library-panic", fmt.Sprintf("%v (raised in %s)", pv, fn), what, "no panic", fmt.Sprint(pv))
			current.NotExhaustive("a panic of the code under test cut " + what + " short")
		}
	}()
	f()
}

// Par runs f(i) for i in [0,n) on all cores.
func Par(n int, f func(i int)) {
	w := runtime.GOMAXPROCS(0)
	if w > n {
		w = n
	}
	if w <= 1 {
		for i := 0; i < n; i++ {
			Guard(fmt.Sprintf("job %d of an enumeration", i), func() { f(i) })
		}
		return
	}
	var next atomic.Int64
	var wg sync.WaitGroup
	for k := 0; k < w; k++ {
		wg.Add(1)
		go func() {
			defer wg.Done()
			for {
				i := int(next.Add(1) - 1)
				if i >= n {
					return
				}
				Guard(fmt.Sprintf("job %d of a parallel enumeration", i), func() { f(i) })
			}
		}()
	}
	wg.Wait()
}

// rerunWhole executes the same check again in a fresh process and returns the number of
// failures it recorded per scenario.
func (r *Run) rerunWhole() map[string]int {
	out := map[string]int{}
	self, err := os.Executable()
	if err != nil {
		return out
	}
	cmd := exec.Command(self, r.ID)
	cmd.Env = append(os.Environ(), "VERIF_RERUN=1")
	b, _ := cmd.Output()
	for _, l := range strings.Split(string(b), "\n") {
		if strings.HasPrefix(l, "RERUN-RESULT ") {
			_ = json.Unmarshal([]byte(l[13:]), &out)
		}
	}
	return out
}
