//go:build instr

// Package irt binds the harness to the runtime injected into the instrumented library.
package irt

import (
	"encoding/binary"
	"fmt"
	"hash"
	"hash/fnv"
	"io"
	"reflect"
	"sort"
	"sync/atomic"
	"time"

	rt "github.com/ja7ad/otp/internal/verifrt"
	"github.com/ja7ad/otp/internal/verifrt/vsync"
	"github.com/ja7ad/otp/verifharness/sched"
	"github.com/ja7ad/otp/verifharness/xplore"
)

// Event re-exports the trace event type.
type Event = rt.Event

const (
	EvPoint = rt.EvPoint
	EvCmp   = rt.EvCmp
	EvCT    = rt.EvCT
	EvSC    = rt.EvSC
)

// ResetPools empties every pool of the instrumented library.
func ResetPools() { vsync.ResetAll() }

// Pools returns the shim pools that have been used so far.
func Pools() []*vsync.Pool { return vsync.Pools }

// Traced runs f with tracing on and returns the trace.
func Traced(f func()) []Event {
	rt.Trace = rt.Trace[:0]
	rt.Tracing = true
	defer func() { rt.Tracing = false }()
	f()
	out := make([]Event, len(rt.Trace))
	copy(out, rt.Trace)
	return out
}

// CmpSiteKinds returns the kinds of the comparison sites executed so far.
func CmpSiteKinds() map[int32]string { return rt.CmpSites }

// Steps runs f under a statement budget and returns the statements executed and
// whether the budget was exhausted.
func Steps(budget int64, f func()) (steps int64, exceeded bool) {
	rt.Steps, rt.Budget = 0, budget
	defer func() {
		steps = rt.Steps
		rt.Budget = 0
		if v := recover(); v != nil {
			if _, ok := v.(rt.BudgetExceeded); ok {
				exceeded = true
				return
			}
			panic(v)
		}
	}()
	f()
	return
}

// ArmAlloc arms (n>0) or disarms (0) the allocation budget; Allocated is the volume since then.
func ArmAlloc(n uint64) { rt.ArmAlloc(n) }
func Allocated() uint64 { return rt.Allocated() }

// AllocExceeded reports whether a recovered panic value is the ALLOCATION budget sentinel (and the volume).
func AllocExceeded(v any) (uint64, bool) {
	b, ok := v.(rt.BudgetExceeded)
	return b.Alloc, ok && b.Alloc > 0
}

// IsBudget reports whether a recovered panic value is the budget sentinel.
func IsBudget(v any) bool { _, ok := v.(rt.BudgetExceeded); return ok }

// SetBudget arms (n>0) or disarms (0) the statement budget and resets the step counter.
func SetBudget(n int64) { rt.Steps, rt.Budget = 0, n }

// StepCount is the number of statements executed since the last SetBudget.
func StepCount() int64 { return rt.Steps }

// SetPointHook installs f (nil: removes it) to be called at every statement of the instrumented packages: an
// observer of what the code under test has done SO FAR, in the middle of a call.
func SetPointHook(f func()) {
	if f == nil {
		rt.PointHook = nil
		return
	}
	rt.PointHook = func(int) { f() }
}

// VirtualTime switches the skipping of waits (time.Sleep ... of the instrumented packages) on or off.
func VirtualTime(on bool) { rt.VirtualTime.Store(on) }

// Waited is the total waiting the instrumented code asked for since ResetWaited.
func Waited() time.Duration { return rt.Waited() }

func ResetWaited() { rt.ResetWaited() }

// Cover switches coverage counting on (n = number of points) or off (0).
func Cover(n int) {
	if n == 0 {
		rt.Cover = nil
	} else {
		rt.Cover = make([]uint32, n)
	}
}

// CoverCounts returns the hit counts.
func CoverCounts() []uint32 { return rt.Cover }

// SyncPattern is the sequence of (thread, sync operation) of the last scheduled execution.
var SyncPattern []byte

// RunThreads runs the bodies as logical threads under the cooperative scheduler, with
// scheduling points at every statement of the instrumented packages and before/after
// every shim sync operation; Pool.Get answers are explored as costly choices.
func RunThreads(x *xplore.X, horizon int, poolChoices bool, bodies []func()) sched.Result {
	return sched.Run(x, horizon, bodies, func(s *sched.S) {
		SyncPattern = SyncPattern[:0]
		rt.PointHook = func(int) { s.Point() }
		rt.SyncHook = func(k string) { s.Point(); SyncPattern = append(SyncPattern, byte('0'+s.Cur()), k[len(k)-1]) }
		vsync.BlockHook = s.Block
		if poolChoices {
			rt.ChooseHook = x.Choose
		}
	}, func() {
		rt.PointHook, rt.SyncHook, vsync.BlockHook, rt.ChooseHook = nil, nil, nil, nil
	})
}

// RunThreadsPaused is RunThreads with scheduling points (and explored pool answers) in thread 0 only: every other
// thread runs from start to end (or to a blocking operation) once it has been given the processor.  This explores
// "one call is paused at any of its statements while other threads complete arbitrarily MANY calls" - executions
// that a symmetric exploration reaches only at a depth its bounds exclude (a ring of N slots lapped, a counter
// wrapped, a cache turned over while one call still holds an entry).
func RunThreadsPaused(x *xplore.X, horizon int, bodies []func()) sched.Result {
	return sched.Run(x, horizon, bodies, func(s *sched.S) {
		SyncPattern = SyncPattern[:0]
		rt.PointHook = func(int) {
			if s.Cur() == 0 {
				s.Point()
			}
		}
		rt.SyncHook = func(k string) {
			if s.Cur() == 0 {
				s.Point()
			}
			if len(SyncPattern) < 4096 {
				SyncPattern = append(SyncPattern, byte('0'+s.Cur()), k[len(k)-1])
			}
		}
		vsync.BlockHook = s.Block
		rt.ChooseHook = func(n int, costly bool) int {
			if s.Cur() == 0 {
				return x.Choose(n, costly)
			}
			return 0
		}
	}, func() {
		rt.PointHook, rt.SyncHook, vsync.BlockHook, rt.ChooseHook = nil, nil, nil, nil
	})
}

// RunThreadsCoarse is RunThreads with scheduling points only at sync operations.
func RunThreadsCoarse(x *xplore.X, horizon int, poolChoices bool, bodies []func()) sched.Result {
	return sched.Run(x, horizon, bodies, func(s *sched.S) {
		SyncPattern = SyncPattern[:0]
		rt.SyncHook = func(k string) { s.Point(); SyncPattern = append(SyncPattern, byte('0'+s.Cur()), k[len(k)-1]) }
		vsync.BlockHook = s.Block
		if poolChoices {
			rt.ChooseHook = x.Choose
		}
	}, func() {
		rt.PointHook, rt.SyncHook, vsync.BlockHook, rt.ChooseHook = nil, nil, nil, nil
	})
}

// WithChooser runs f sequentially with the shim's nondeterminism resolved by x.
func WithChooser(x *xplore.X, f func()) {
	rt.ChooseHook = x.Choose
	defer func() { rt.ChooseHook = nil }()
	f()
}

// ---------------------------------------------------------------- digest

type hasher struct {
	h    hash.Hash64
	seen map[uintptr]bool
	buf  [8]byte
}

func (d *hasher) u64(v uint64) {
	binary.LittleEndian.PutUint64(d.buf[:], v)
	d.h.Write(d.buf[:])
}

func (d *hasher) walk(v reflect.Value, depth int) {
	if depth > 40 {
		d.u64(0xdeadbeef)
		return
	}
	d.u64(uint64(v.Kind()))
	switch v.Kind() {
	case reflect.Bool:
		if v.Bool() {
			d.u64(1)
		} else {
			d.u64(0)
		}
	case reflect.Int, reflect.Int8, reflect.Int16, reflect.Int32, reflect.Int64:
		d.u64(uint64(v.Int()))
	case reflect.Uint, reflect.Uint8, reflect.Uint16, reflect.Uint32, reflect.Uint64, reflect.Uintptr:
		d.u64(v.Uint())
	case reflect.Float32, reflect.Float64:
		d.u64(uint64(v.Float() * 1e6))
	case reflect.String:
		d.u64(uint64(v.Len()))
		d.h.Write([]byte(v.String()))
	case reflect.Func:
		if v.IsNil() {
			d.u64(0)
		} else {
			d.u64(uint64(v.Pointer()))
		}
	case reflect.Chan, reflect.UnsafePointer:
		d.u64(1)
	case reflect.Pointer:
		if v.IsNil() {
			d.u64(0)
			return
		}
		p := v.Pointer()
		if d.seen[p] {
			d.u64(2)
			return
		}
		d.seen[p] = true
		d.walk(v.Elem(), depth+1)
	case reflect.Interface:
		if v.IsNil() {
			d.u64(0)
			return
		}
		d.h.Write([]byte(v.Elem().Type().String()))
		d.walk(v.Elem(), depth+1)
	case reflect.Slice:
		if v.IsNil() {
			d.u64(0)
			return
		}
		// the whole backing array up to the capacity is state (pooled buffers are re-sliced to [:0])
		n, c := v.Len(), v.Cap()
		d.u64(uint64(n))
		d.u64(uint64(c))
		full := v
		if c > n {
			full = v.Slice3(0, c, c)
		}
		if v.Type().Elem().Kind() == reflect.Uint8 {
			for i := 0; i < c; i++ {
				d.buf[0] = byte(full.Index(i).Uint())
				d.h.Write(d.buf[:1])
			}
			return
		}
		for i := 0; i < c; i++ {
			d.walk(full.Index(i), depth+1)
		}
	case reflect.Array:
		for i := 0; i < v.Len(); i++ {
			d.walk(v.Index(i), depth+1)
		}
	case reflect.Struct:
		for i := 0; i < v.NumField(); i++ {
			d.walk(v.Field(i), depth+1)
		}
	case reflect.Map:
		if v.IsNil() {
			d.u64(0)
			return
		}
		type kv struct{ k, v uint64 }
		var ents []kv
		it := v.MapRange()
		for it.Next() {
			dk := &hasher{h: fnv.New64a(), seen: d.seen}
			dk.walk(it.Key(), depth+1)
			dv := &hasher{h: fnv.New64a(), seen: d.seen}
			dv.walk(it.Value(), depth+1)
			ents = append(ents, kv{dk.h.Sum64(), dv.h.Sum64()})
		}
		sort.Slice(ents, func(i, j int) bool { return ents[i].k < ents[j].k || (ents[i].k == ents[j].k && ents[i].v < ents[j].v) })
		d.u64(uint64(len(ents)))
		for _, e := range ents {
			d.u64(e.k)
			d.u64(e.v)
		}
	default:
		d.u64(3)
	}
}

// HashValue hashes an arbitrary value deeply (contents, not addresses).
func HashValue(v any) uint64 {
	d := &hasher{h: fnv.New64a(), seen: map[uintptr]bool{}}
	d.walk(reflect.ValueOf(v), 0)
	return d.h.Sum64()
}

// Globals returns per-variable digests of every package-level variable of package otp.
func Globals() map[string]uint64 {
	out := map[string]uint64{}
	for name, ptr := range allGlobals() {
		out[name] = HashValue(ptr)
	}
	return out
}

// IsPoolVar says whether a package-level variable is (or only contains) scratch pools.
func IsPoolVar(name string) bool {
	t := reflect.TypeOf(allGlobals()[name])
	return t != nil && t.Elem() == reflect.TypeOf(vsync.Pool{})
}

// Digest combines the per-variable digests; with pools=false pool variables are left out.
func Digest(pools bool) string {
	g := Globals()
	var names []string
	for n := range g {
		if !pools && IsPoolVar(n) {
			continue
		}
		names = append(names, n)
	}
	sort.Strings(names)
	h := fnv.New64a()
	for _, n := range names {
		fmt.Fprintf(h, "%s=%x;", n, g[n])
	}
	if pools {
		// pools nested in other variables (hmacPools) are reached through the walk above
	}
	return fmt.Sprintf("%016x", h.Sum64())
}

// DiffGlobals names the variables whose digest differs.
func DiffGlobals(a, b map[string]uint64) []string {
	var out []string
	for n, v := range a {
		if b[n] != v {
			out = append(out, n)
		}
	}
	for n := range b {
		if _, ok := a[n]; !ok {
			out = append(out, n)
		}
	}
	sort.Strings(out)
	return out
}

// StallSeconds is how long a call may go without executing a single instrumented statement
// before it is declared blocked.  It is not a latency bound: a call that keeps executing
// statements is never stopped by it (that is the statement budget's job).
const StallSeconds = 30

// RunGuarded runs f on its own goroutine and returns false if f is blocked: it has not
// returned and has not executed one instrumented statement for StallSeconds.  The blocked
// goroutine is abandoned.  A panic of f is re-raised on the caller's goroutine.
func RunGuarded(f func()) (returned bool) {
	done := make(chan any, 1)
	go func() {
		defer func() { done <- recover() }()
		f()
	}()
	last, idle := rt.Steps, 0
	tick := time.NewTicker(time.Second)
	defer tick.Stop()
	for {
		select {
		case pv := <-done:
			if pv != nil {
				panic(pv)
			}
			return true
		case <-tick.C:
			if rt.Steps != last {
				last, idle = rt.Steps, 0
				continue
			}
			idle++
			if idle >= StallSeconds {
				return false
			}
		}
	}
}

// Heartbeat is bumped by long enumerations once per case; WatchStall calls onStall (once)
// when neither the heartbeat nor the statement counter has moved for StallSeconds.
var Heartbeat atomic.Int64

func WatchStall(onStall func()) (stop func()) {
	quit := make(chan struct{})
	go func() {
		lastH, lastS, idle := Heartbeat.Load(), rt.Steps, 0
		tick := time.NewTicker(time.Second)
		defer tick.Stop()
		for {
			select {
			case <-quit:
				return
			case <-tick.C:
				if h, st := Heartbeat.Load(), rt.Steps; h != lastH || st != lastS {
					lastH, lastS, idle = h, st, 0
					continue
				}
				idle++
				if idle >= StallSeconds {
					onStall()
					return
				}
			}
		}
	}()
	return func() { close(quit) }
}

// SetRandom substitutes what the process-wide random source delivers without changing its identity (nil: the
// operating system's source); SeamInstalled reports whether crypto/rand.Reader still is the seam.
func SetRandom(r io.Reader) { rt.SetRandom(r) }
func SeamInstalled() bool   { return rt.SeamInstalled() }

// SeamLog is the record of every byte the random source has delivered through the seam, and whether it is complete.
func SeamLog() ([]byte, bool) { return rt.SeamLog() }
