//go:build instr

package irt

import (
	"reflect"
	"sort"
	"unsafe"

	"github.com/ja7ad/otp"
	"github.com/ja7ad/otp/internal/app/api"
)

// allGlobals merges the generated accessors of package otp and of the REST package ("api." prefix): state a
// change introduces in either of them is part of snapshots, digests and diffs.
func allGlobals() map[string]any {
	out := otp.VerifGlobals()
	for n, p := range api.VerifGlobals() {
		out["api."+n] = p
	}
	return out
}

// Snapshot is a deep copy of every package-level variable of package otp (generated
// accessor), taken before the library has been used.  Restoring it before every execution of
// an exploration makes the exploration stateless with respect to ANY package-level state a
// change to the library introduces (lazily built tables, caches, "initialised" flags), so that
// first-use interleavings are explored and replays do not diverge.
type Snapshot map[string]reflect.Value

// SnapshotGlobals copies all package-level variables.
func SnapshotGlobals() Snapshot {
	s := Snapshot{}
	seen := map[uintptr]reflect.Value{} // one table for all variables: aliasing ACROSS variables is kept too
	for _, name := range sortedNames(allGlobals()) {
		v := reflect.ValueOf(allGlobals()[name]).Elem()
		s[name] = deepCopy(v, seen)
	}
	return s
}

// Restore writes the snapshot back (a fresh deep copy each time, so that executions cannot
// damage the snapshot itself).
func (s Snapshot) Restore() {
	seen := map[uintptr]reflect.Value{}
	g := allGlobals()
	for _, name := range sortedNames(g) {
		saved, ok := s[name]
		if !ok {
			continue
		}
		dst := reflect.ValueOf(g[name]).Elem()
		dst.Set(deepCopy(saved, seen))
	}
}

// settable returns an addressable, settable view of v even when v was reached through an
// unexported field.
func settable(v reflect.Value) reflect.Value {
	if v.CanSet() || !v.CanAddr() {
		return v
	}
	return reflect.NewAt(v.Type(), unsafe.Pointer(v.UnsafeAddr())).Elem()
}

func readable(v reflect.Value) reflect.Value {
	if v.CanInterface() || !v.CanAddr() {
		return v
	}
	return reflect.NewAt(v.Type(), unsafe.Pointer(v.UnsafeAddr())).Elem()
}

func deepCopy(v reflect.Value, seen map[uintptr]reflect.Value) reflect.Value {
	switch v.Kind() {
	case reflect.Pointer:
		if v.IsNil() {
			return reflect.Zero(v.Type())
		}
		if c, ok := seen[v.Pointer()]; ok {
			return c
		}
		// sentinel error values and similar are compared by identity: keep pointers to
		// values without any mutable content (they are never written through)
		if v.Type().Elem().Kind() == reflect.Struct && v.Type().Elem().NumField() == 1 && v.Type().Elem().Field(0).Type.Kind() == reflect.String {
			return v
		}
		n := reflect.New(v.Type().Elem())
		seen[v.Pointer()] = n
		n.Elem().Set(deepCopy(v.Elem(), seen))
		return n
	case reflect.Interface:
		if v.IsNil() {
			return reflect.Zero(v.Type())
		}
		c := deepCopy(v.Elem(), seen)
		n := reflect.New(v.Type()).Elem()
		n.Set(c)
		return n
	case reflect.Slice:
		if v.IsNil() {
			return reflect.Zero(v.Type())
		}
		// aliasing is kept for slices that are the very same (array, len, cap); partial overlaps are not tracked
		skey := v.Pointer() ^ uintptr(v.Len())<<40 ^ uintptr(v.Cap())<<52 ^ 1
		if c, ok := seen[skey]; ok && c.Type() == v.Type() && v.Cap() > 0 {
			return c
		}
		n := reflect.MakeSlice(v.Type(), v.Len(), v.Cap())
		if v.Cap() > 0 {
			seen[skey] = n
		}
		full, nfull := v.Slice3(0, v.Cap(), v.Cap()), n.Slice3(0, v.Cap(), v.Cap())
		for i := 0; i < v.Cap(); i++ {
			nfull.Index(i).Set(deepCopy(full.Index(i), seen))
		}
		return n
	case reflect.Array:
		n := reflect.New(v.Type()).Elem()
		for i := 0; i < v.Len(); i++ {
			n.Index(i).Set(deepCopy(v.Index(i), seen))
		}
		return n
	case reflect.Map:
		if v.IsNil() {
			return reflect.Zero(v.Type())
		}
		// two references to one map stay two references to one (copied) map
		if c, ok := seen[v.Pointer()]; ok && c.Type() == v.Type() {
			return c
		}
		n := reflect.MakeMapWithSize(v.Type(), v.Len())
		seen[v.Pointer()] = n
		it := v.MapRange()
		for it.Next() {
			n.SetMapIndex(deepCopy(it.Key(), seen), deepCopy(it.Value(), seen))
		}
		return n
	case reflect.Struct:
		n := reflect.New(v.Type()).Elem()
		// structs are reached by value here; make the source addressable to read unexported fields
		src := v
		if !src.CanAddr() {
			tmp := reflect.New(v.Type()).Elem()
			tmp.Set(v)
			src = tmp
		}
		for i := 0; i < v.NumField(); i++ {
			settable(n.Field(i)).Set(deepCopy(readable(src.Field(i)), seen))
		}
		return n
	default:
		// bool, numbers, strings, funcs, chans, unsafe pointers: copied by value / by reference
		if !v.CanInterface() && v.CanAddr() {
			return readable(v)
		}
		return v
	}
}

func sortedNames(m map[string]any) []string {
	var n []string
	for k := range m {
		n = append(n, k)
	}
	sort.Strings(n)
	return n
}
