#!/bin/bash
# Offline setup: warm the build cache so that quick checks only pay for incremental builds.
set -u
cd "$(dirname "$0")"
export GOFLAGS=-mod=mod GOPROXY=off GOTOOLCHAIN=go1.24.0
mkdir -p bin evidence replays
cd harness && cat /repo/internal/app/go.sum /repo/go.work.sum 2>/dev/null | sort -u > go.sum
go build -tags verif -o ../bin/vrun ./cmd/vrun || exit 1
# warm the caches of the instrumented build and of the -race build
W=$(mktemp -d ../bin/work.XXXXXX)
go build -o "$W/instr" ./cmd/instr && "$W/instr" -repo /repo -out "$W/ov" -rt "$PWD/../rt/verifrt" >/dev/null && go build -tags "verif instr" -overlay "$W/ov/overlay.json" -o "$W/vrun" ./cmd/vrun || { rm -rf "$W"; exit 1; }
go build -race -tags verif -o "$W/racemon" ./cmd/racemon || echo "note: race build unavailable"
rm -rf "$W"
echo setup ok
