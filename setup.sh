#!/bin/bash
# Offline setup: warm the build cache so that quick checks only pay for incremental builds.
set -u
cd "$(dirname "$0")"
export GOFLAGS=-mod=mod GOPROXY=off GOTOOLCHAIN=go1.24.0
mkdir -p bin evidence replays
cd harness && cat /repo/internal/app/go.sum /repo/go.work.sum 2>/dev/null | sort -u > go.sum
go build -tags verif -o ../bin/vrun ./cmd/vrun || exit 1
echo setup ok
