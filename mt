#!/bin/bash
# mt <patch.diff> <ID>[,<ID>...] [tier]  — apply a property-breaking patch to /repo, run checks, ALWAYS revert.
set -u
P="$(readlink -f "$1")"; IDS="${2:?ids}"; TIER="${3:-quick}"
cd /repo || exit 2
[ -z "$(git status --porcelain)" ] || { echo "mt: /repo not clean"; exit 2; }
git apply "$P" || { echo "mt: patch does not apply"; exit 2; }
trap 'cd /repo && git apply -R "$P" 2>/dev/null; git checkout -- . ; [ -z "$(git status --porcelain)" ] || { git clean -fdq; }' EXIT
for id in ${IDS//,/ }; do
  out="$(/verif/vcheck "$id" "$TIER" 2>&1)"; rc=$?
  nv=$(echo "$out" | grep -c '^VIOLATION')
  echo "== $(basename "$P") $id rc=$rc violations_lines=$nv"
  echo "$out" | grep -E '^(VIOLATION|HARNESS-ERROR|KNOWN)' | head -3
  echo "$out" | grep -E '^  (scenario|want|got)' | head -3
done
