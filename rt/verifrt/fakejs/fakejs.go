// Package fakejs stands in for syscall/js so that the WebAssembly binding's own Go code
// (argument checks, window loops) can be executed and traced natively.  It models only
// what wasm/main.go uses: value types, String/Int conversions with JavaScript semantics,
// FuncOf and Global().Set.
package fakejs

import (
	"math"
)

// Type mirrors syscall/js.Type.
type Type int

const (
	TypeUndefined Type = iota
	TypeNull
	TypeBoolean
	TypeNumber
	TypeString
	TypeSymbol
	TypeObject
	TypeFunction
)

func (t Type) String() string {
	switch t {
	case TypeUndefined:
		return "undefined"
	case TypeNull:
		return "null"
	case TypeBoolean:
		return "boolean"
	case TypeNumber:
		return "number"
	case TypeString:
		return "string"
	case TypeSymbol:
		return "symbol"
	case TypeObject:
		return "object"
	case TypeFunction:
		return "function"
	}
	return "bad type"
}

// Value is a JavaScript value.
type Value struct {
	t Type
	s string
	n float64
	b bool
	f func(this Value, args []Value) any
}

func Undefined() Value { return Value{} }
func Null() Value      { return Value{t: TypeNull} }

// ValueOf converts a Go value as syscall/js does for the kinds the binding returns.
func ValueOf(x any) Value {
	switch v := x.(type) {
	case nil:
		return Null()
	case Value:
		return v
	case Func:
		return v.Value
	case bool:
		return Value{t: TypeBoolean, b: v}
	case string:
		return Value{t: TypeString, s: v}
	case int:
		return Value{t: TypeNumber, n: float64(v)}
	case int64:
		return Value{t: TypeNumber, n: float64(v)}
	case uint64:
		return Value{t: TypeNumber, n: float64(v)}
	case float64:
		return Value{t: TypeNumber, n: v}
	case map[string]any, []any:
		return Value{t: TypeObject}
	}
	panic("fakejs.ValueOf: invalid value")
}

func (v Value) Type() Type { return v.t }

// String returns the string for string values and a "<T: ...>" form otherwise (as syscall/js).
func (v Value) String() string {
	if v.t == TypeString {
		return v.s
	}
	return "<" + v.t.String() + ">"
}

// Int converts like syscall/js on js/wasm: int(float64) truncates toward zero; NaN and
// values outside the int64 range give math.MinInt64 (observed under Node with go1.24).
func (v Value) Int() int {
	if v.t != TypeNumber {
		panic("syscall/js: call of Value.Int on " + v.t.String())
	}
	f := v.n
	if math.IsNaN(f) || f >= 9.2233720368547758e18 || f <= -9.2233720368547758e18 {
		return math.MinInt64
	}
	return int(f)
}

func (v Value) Float() float64 { return v.n }
func (v Value) Bool() bool     { return v.b }

// Func is a wrapped Go function.
type Func struct{ Value }

func FuncOf(fn func(this Value, args []Value) any) Func {
	return Func{Value{t: TypeFunction, f: fn}}
}

func (f Func) Release() {}

var globals = map[string]Value{}

type global struct{}

// Global returns the global object; only Set/Get are modelled.
func Global() globalObj { return globalObj{} }

type globalObj struct{}

func (globalObj) Set(name string, x any) { globals[name] = ValueOf(x) }
func (globalObj) Get(name string) Value  { return globals[name] }

// Call invokes a registered global function (harness side).
func Call(name string, args ...Value) (Value, bool) {
	f, ok := globals[name]
	if !ok || f.t != TypeFunction {
		return Value{}, false
	}
	return ValueOf(f.f(Undefined(), args)), true
}

// Names lists the registered global names.
func Names() []string {
	var out []string
	for k := range globals {
		out = append(out, k)
	}
	return out
}

// Num, Str, Bool, Obj build argument values.
func Num(f float64) Value { return Value{t: TypeNumber, n: f} }
func Str(s string) Value  { return Value{t: TypeString, s: s} }
func Bool(b bool) Value   { return Value{t: TypeBoolean, b: b} }
func Obj() Value          { return Value{t: TypeObject} }
