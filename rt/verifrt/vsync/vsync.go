// Package vsync replaces package sync inside the instrumented library: a Pool whose Get
// is nondeterministic exactly as far as sync.Pool's documented contract allows, and
// scheduler-aware Mutex/RWMutex/Once.  Everything else is the real thing.
package vsync

import (
	"sync"

	rt "github.com/ja7ad/otp/internal/verifrt"
)

type (
	Map       = sync.Map
	WaitGroup = sync.WaitGroup
	Cond      = sync.Cond
	Locker    = sync.Locker
)

func NewCond(l Locker) *Cond { return sync.NewCond(l) }

func OnceFunc(f func()) func() { return sync.OnceFunc(f) }

func OnceValue[T any](f func() T) func() T { return sync.OnceValue(f) }

func OnceValues[T1, T2 any](f func() (T1, T2)) func() (T1, T2) { return sync.OnceValues(f) }

func hook(kind string) {
	if h := rt.SyncHook; h != nil {
		h(kind)
	}
}

// Pool models sync.Pool's contract: "Get selects an arbitrary item from the Pool, removes
// it, and returns it; any item may be removed automatically at any time".
type Pool struct {
	New   func() any
	items []any
}

// Pools lists every shim pool that has been used (for reset and state digests).
var Pools []*Pool

var registered = map[*Pool]bool{}

func (p *Pool) register() {
	if !registered[p] {
		registered[p] = true
		Pools = append(Pools, p)
	}
}

// Get returns by default the most recently put item (what a single-P sync.Pool does);
// under an explorer the alternatives are every other pooled item and a fresh New() (the
// pool was emptied by a GC / the item sits in another P's cache).
func (p *Pool) Get() any {
	p.register()
	hook("pool.Get")
	var x any
	n := len(p.items)
	if n == 0 {
		if p.New != nil {
			x = p.New()
		}
	} else {
		k := 0
		if c := rt.ChooseHook; c != nil {
			k = c(n+1, true)
		}
		switch {
		case k < n: // k=0: last put; k=1: the one before; ...
			i := n - 1 - k
			x = p.items[i]
			copy(p.items[i:], p.items[i+1:])
			p.items[n-1] = nil // no stale reference behind the length
			p.items = p.items[:n-1]
		default:
			if p.New != nil {
				x = p.New()
			}
		}
	}
	return x
}

func (p *Pool) Put(x any) {
	p.register()
	hook("pool.Put")
	if x != nil {
		p.items = append(p.items, x)
	}
}

// Items exposes the pooled items (harness only).
func (p *Pool) Items() []any { return p.items }

// Clear empties the pool (a garbage collection).
func (p *Pool) Clear() { p.items = nil }

// Len is the number of pooled items.
func (p *Pool) Len() int { return len(p.items) }

// ResetAll empties every registered pool.
func ResetAll() {
	for _, p := range Pools {
		p.items = nil
	}
}

// BlockHook, if set, parks the calling logical thread until cond() is true; it returns
// false if no scheduler is attached (then the shim falls back to spinning, which cannot
// happen in sequential runs unless the code self-deadlocks).
var BlockHook func(cond func() bool)

func wait(cond func() bool) {
	if cond() {
		return
	}
	if b := BlockHook; b != nil {
		b(cond)
		return
	}
	panic("vsync: blocking operation would deadlock (no scheduler attached)")
}

// Mutex is a scheduler-aware mutex.
type Mutex struct{ held bool }

func (m *Mutex) Lock() {
	hook("mutex.Lock")
	wait(func() bool { return !m.held })
	m.held = true
}

func (m *Mutex) TryLock() bool {
	hook("mutex.TryLock")
	if m.held {
		return false
	}
	m.held = true
	return true
}

func (m *Mutex) Unlock() {
	if !m.held {
		panic("sync: unlock of unlocked mutex")
	}
	m.held = false
	hook("mutex.Unlock")
}

// RWMutex is a scheduler-aware reader/writer mutex.
type RWMutex struct {
	w       bool
	readers int
}

func (m *RWMutex) Lock() {
	hook("rwmutex.Lock")
	wait(func() bool { return !m.w && m.readers == 0 })
	m.w = true
}
func (m *RWMutex) Unlock() {
	if !m.w {
		panic("sync: Unlock of unlocked RWMutex")
	}
	m.w = false
	hook("rwmutex.Unlock")
}
func (m *RWMutex) RLock() {
	hook("rwmutex.RLock")
	wait(func() bool { return !m.w })
	m.readers++
}
func (m *RWMutex) RUnlock() {
	if m.readers <= 0 {
		panic("sync: RUnlock of unlocked RWMutex")
	}
	m.readers--
	hook("rwmutex.RUnlock")
}
func (m *RWMutex) TryLock() bool {
	if m.w || m.readers > 0 {
		return false
	}
	m.w = true
	return true
}
func (m *RWMutex) TryRLock() bool {
	if m.w {
		return false
	}
	m.readers++
	return true
}
func (m *RWMutex) RLocker() Locker { return rlocker{m} }

type rlocker struct{ m *RWMutex }

func (r rlocker) Lock()   { r.m.RLock() }
func (r rlocker) Unlock() { r.m.RUnlock() }

// Once is a scheduler-aware sync.Once.
type Once struct {
	done    bool
	running bool
}

func (o *Once) Do(f func()) {
	hook("once.Do")
	if o.done {
		return
	}
	if o.running {
		wait(func() bool { return o.done })
		return
	}
	o.running = true
	defer func() {
		o.done = true
		o.running = false
		hook("once.Do.done")
	}()
	f()
}
