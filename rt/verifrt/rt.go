// Package verifrt is the runtime injected (by go build -overlay, at check time) as
// github.com/ja7ad/otp/internal/verifrt.  The instrumenter splices a call of P before
// every statement of the instrumented packages and routes string/byte comparisons through
// the comparison hooks below.  Nothing here is thread-safe on purpose: it is only used
// under the cooperative scheduler or sequentially.
package verifrt

import (
	"bytes"
	"crypto/rand"
	"io"
	"reflect"
	"runtime/metrics"
	"sync"
	"sync/atomic"
	"time"
)

// Event kinds of the trace.
const (
	EvPoint = iota // statement point: Site = point id
	EvCmp          // early-exit comparison: A,B = operand lengths, Leak = index of first mismatch
	EvCT           // constant-time comparison: A,B = operand lengths, no leak value
	EvSC           // the right operand of a short-circuit && / || is about to be evaluated
)

// Event is one trace entry.
type Event struct {
	Kind       uint8
	Site       int32
	A, B, Leak int32
}

// BudgetExceeded is the panic value raised when the statement budget is exhausted.
type BudgetExceeded struct {
	Steps int64
	Alloc uint64 // > 0: the ALLOCATION budget was exhausted (bytes allocated since ArmAlloc)
}

// ---- allocation budget: bytes allocated on the heap by the whole process since ArmAlloc, looked at every 1024
// statements.  A loop whose cost sits in copying (quadratic concatenation ...) executes few statements per byte
// moved; its allocation volume gives it away long before the statement budget would.

var (
	AllocBudget  uint64 // 0 = off
	allocBase    uint64
	allocTripped uint64
	allocSample  = []metrics.Sample{{Name: "/gc/heap/allocs:bytes"}}
)

func allocNow() uint64 {
	metrics.Read(allocSample)
	if allocSample[0].Value.Kind() != metrics.KindUint64 {
		return 0
	}
	return allocSample[0].Value.Uint64()
}

// ArmAlloc sets the allocation budget (0 = off) and starts counting from now.
func ArmAlloc(limit uint64) { AllocBudget, allocBase, allocTripped = limit, allocNow(), 0 }

// Allocated returns the bytes allocated since ArmAlloc.
func Allocated() uint64 { return allocNow() - allocBase }

var (
	// PointHook, if set, is called at every statement point (the cooperative scheduler).
	PointHook func(id int)
	// SyncHook, if set, is called before and after every shim sync operation.
	SyncHook func(kind string)
	// ChooseHook, if set, resolves nondeterminism of the shim (which item Pool.Get returns).
	ChooseHook func(n int, costly bool) int

	Tracing bool
	Trace   []Event

	Steps  int64
	Budget int64 // 0 = unlimited

	Cover []uint32 // hit counts per point id (nil = off)

	CmpSites map[int32]string // site id -> kind, filled lazily as sites execute
)

// P is the statement point.
func P(id int) {
	Steps++
	if Budget > 0 && Steps > Budget {
		panic(BudgetExceeded{Steps: Steps})
	}
	if AllocBudget > 0 && (allocTripped > 0 || Steps&1023 == 0) {
		// sticky like the statement budget: code under test that recovers the panic (a recovery middleware) meets it
		// again at its next statement, until the harness disarms the budget
		if allocTripped == 0 {
			if a := allocNow() - allocBase; a > AllocBudget {
				allocTripped = a
			}
		}
		if allocTripped > 0 {
			panic(BudgetExceeded{Steps: Steps, Alloc: allocTripped})
		}
	}
	if Cover != nil && id < len(Cover) {
		Cover[id]++
	}
	if Tracing {
		Trace = append(Trace, Event{Kind: EvPoint, Site: int32(id)})
	}
	if h := PointHook; h != nil {
		h(id)
	}
}

func firstMismatch(a, b []byte) int32 {
	n := len(a)
	if len(b) < n {
		n = len(b)
	}
	for i := 0; i < n; i++ {
		if a[i] != b[i] {
			return int32(i)
		}
	}
	return int32(n)
}

func firstMismatchS(a, b string) int32 {
	n := len(a)
	if len(b) < n {
		n = len(b)
	}
	for i := 0; i < n; i++ {
		if a[i] != b[i] {
			return int32(i)
		}
	}
	return int32(n)
}

func note(site int, kind string) {
	if CmpSites == nil {
		CmpSites = map[int32]string{}
	}
	CmpSites[int32(site)] = kind
}

func cmpEvent(site int, kind string, la, lb int, leak int32) {
	if Tracing {
		note(site, kind)
		Trace = append(Trace, Event{Kind: EvCmp, Site: int32(site), A: int32(la), B: int32(lb), Leak: leak})
	}
}

func ctEvent(site int, kind string, la, lb int) {
	if Tracing {
		note(site, kind)
		Trace = append(Trace, Event{Kind: EvCT, Site: int32(site), A: int32(la), B: int32(lb)})
	}
}

// SC is spliced between the operands of && (as `a && verifrt.SC(id) && b`) and of || (as
// `a || !verifrt.SC(id) || b`): it records that the right operand is evaluated and changes nothing.
func SC(site int) bool {
	Steps++
	if Tracing {
		Trace = append(Trace, Event{Kind: EvSC, Site: int32(site)})
	}
	return true
}

// CTV wraps a call of a crypto/subtle primitive working on single values (ConstantTimeByteEq, ConstantTimeEq,
// ConstantTimeSelect, ConstantTimeLessOrEq): the call shows up in the trace, without a leak value.
func CTV[T any](site int, kind string, v T) T {
	ctEvent(site, kind, 1, 1)
	return v
}

// EqS is `a == b` on strings.
func EqS(site int, a, b string) bool {
	cmpEvent(site, "string==", len(a), len(b), firstMismatchS(a, b))
	return a == b
}

// OrdS is an ordering comparison on strings; op is one of "<", "<=", ">", ">=".
func OrdS(site int, op string, a, b string) bool {
	cmpEvent(site, "string"+op, len(a), len(b), firstMismatchS(a, b))
	switch op {
	case "<":
		return a < b
	case "<=":
		return a <= b
	case ">":
		return a > b
	}
	return a >= b
}

// EqA is `a == b` on two values of the same array type (bytes are compared for the leak model).
func EqA(site int, a, b any) bool {
	va, vb := reflect.ValueOf(a), reflect.ValueOf(b)
	if va.Kind() == reflect.Array && vb.Kind() == reflect.Array && va.Type() == vb.Type() {
		n := va.Len()
		leak := int32(n)
		for i := 0; i < n; i++ {
			if !reflect.DeepEqual(va.Index(i).Interface(), vb.Index(i).Interface()) {
				leak = int32(i)
				break
			}
		}
		cmpEvent(site, "array==", n, n, leak)
	}
	return a == b
}

// WBB wraps a library comparison of two byte slices.
func WBB[R any](site int, kind string, ct bool, f func(a, b []byte) R, a, b []byte) R {
	if ct {
		ctEvent(site, kind, len(a), len(b))
	} else {
		cmpEvent(site, kind, len(a), len(b), firstMismatch(a, b))
	}
	return f(a, b)
}

// WSS wraps a library comparison of two strings.
func WSS[R any](site int, kind string, f func(a, b string) R, a, b string) R {
	cmpEvent(site, kind, len(a), len(b), firstMismatchS(a, b))
	return f(a, b)
}

// WAA wraps reflect.DeepEqual-like comparisons of arbitrary values.
func WAA(site int, kind string, f func(a, b any) bool, a, b any) bool {
	la, lb, leak := -1, -1, int32(-1)
	ba, oka := asBytes(a)
	bb, okb := asBytes(b)
	if oka && okb {
		la, lb, leak = len(ba), len(bb), firstMismatch(ba, bb)
	}
	cmpEvent(site, kind, la, lb, leak)
	return f(a, b)
}

func asBytes(v any) ([]byte, bool) {
	switch x := v.(type) {
	case []byte:
		return x, true
	case string:
		return []byte(x), true
	}
	return nil, false
}

var _ = bytes.Equal

// W2 wraps a two-argument library routine that compares its arguments internally
// (slices.Contains/Index/Equal/Compare, sort.SearchStrings, ...): one comparison event per
// element pair the routine would look at, in order, up to the first match.
func W2[A, B, R any](site int, kind string, f func(A, B) R, a A, b B) R {
	if Tracing {
		emit2(site, kind, any(a), any(b))
	}
	return f(a, b)
}

// W2R2 is W2 for routines with two results (slices.BinarySearch).
func W2R2[A, B, R1, R2 any](site int, kind string, f func(A, B) (R1, R2), a A, b B) (R1, R2) {
	if Tracing {
		emit2(site, kind, any(a), any(b))
	}
	return f(a, b)
}

func emit2(site int, kind string, a, b any) {
	switch x := a.(type) {
	case []string:
		switch y := b.(type) {
		case string:
			for _, e := range x {
				cmpEvent(site, kind, len(e), len(y), firstMismatchS(e, y))
				if e == y && kind != "sort.SearchStrings" && kind != "slices.BinarySearch" {
					break
				}
			}
		case []string:
			for i := 0; i < len(x) && i < len(y); i++ {
				cmpEvent(site, kind, len(x[i]), len(y[i]), firstMismatchS(x[i], y[i]))
				if x[i] != y[i] {
					break
				}
			}
		}
	case []byte:
		if y, ok := b.([]byte); ok {
			cmpEvent(site, kind, len(x), len(y), firstMismatch(x, y))
		}
	case string:
		if y, ok := b.(string); ok {
			cmpEvent(site, kind, len(x), len(y), firstMismatchS(x, y))
		}
	case [][]byte:
		if y, ok := b.([]byte); ok {
			for _, e := range x {
				cmpEvent(site, kind, len(e), len(y), firstMismatch(e, y))
			}
		}
	}
}

// SwitchS records the comparisons a `switch tag { case c1, c2, ... }` on strings performs:
// cases are tried in order up to the first match.
func SwitchS(site int, tag string, cases ...string) {
	if !Tracing {
		return
	}
	for _, c := range cases {
		cmpEvent(site, "switch-string", len(tag), len(c), firstMismatchS(tag, c))
		if c == tag {
			return
		}
	}
}

// MapProbe makes a map lookup with a string key visible to the leak model: the runtime
// compares the probe with stored keys by early-exit memequal (on a hash-tag match); the model
// over-approximates that as one early-exit comparison with every stored key, in sorted order.
func MapProbe[K comparable](site int, k K, m any) K {
	if Tracing {
		rk := reflect.ValueOf(k)
		if rk.Kind() == reflect.String {
			probe := rk.String()
			mv := reflect.ValueOf(m)
			if mv.Kind() == reflect.Map {
				keys := make([]string, 0, mv.Len())
				for _, kv := range mv.MapKeys() {
					keys = append(keys, kv.String())
				}
				sortStrings(keys)
				for _, key := range keys {
					cmpEvent(site, "map-index", len(key), len(probe), firstMismatchS(key, probe))
				}
			}
		}
	}
	return k
}

func sortStrings(a []string) {
	for i := 1; i < len(a); i++ {
		for j := i; j > 0 && a[j] < a[j-1]; j-- {
			a[j], a[j-1] = a[j-1], a[j]
		}
	}
}

// ---- waiting: the instrumenter routes time.Sleep / time.After / time.NewTimer / time.AfterFunc of the
// instrumented packages through these.  Waited accumulates the durations ASKED for (a deterministic quantity,
// unlike elapsed time); with VirtualTime on, the wait itself is skipped, so that a history in which waits grow
// can be explored without spending the time.

var (
	VirtualTime atomic.Bool
	waited      atomic.Int64
)

// Waited returns the total waiting asked for since the last ResetWaited.
func Waited() time.Duration { return time.Duration(waited.Load()) }

// ResetWaited sets the account to zero.
func ResetWaited() { waited.Store(0) }

func noteWait(d time.Duration) {
	if d > 0 {
		if waited.Add(int64(d)) < 0 { // saturate
			waited.Store(1<<63 - 1)
		}
	}
	if PointHook != nil {
		PointHook(-1)
	}
}

func Sleep(d time.Duration) {
	noteWait(d)
	if !VirtualTime.Load() {
		time.Sleep(d)
	}
}

func After(d time.Duration) <-chan time.Time {
	noteWait(d)
	if VirtualTime.Load() {
		d = 0
	}
	return time.After(d)
}

func NewTimer(d time.Duration) *time.Timer {
	noteWait(d)
	if VirtualTime.Load() {
		d = 0
	}
	return time.NewTimer(d)
}

func AfterFunc(d time.Duration, f func()) *time.Timer {
	noteWait(d)
	if VirtualTime.Load() {
		d = 0
	}
	return time.AfterFunc(d, f)
}

// ---------------------------------------------------------------- random source seam
//
// The instrumented library imports this package, so this init runs BEFORE the library's own package-level
// initialisation: the process-wide crypto/rand.Reader the library can ever see - including a copy it captures "before
// anything can replace it" - is the seam below.  By default the seam passes the operating system's source through; a
// check substitutes a stream by SetRandom, WITHOUT changing the identity of rand.Reader, so code that behaves
// differently for "the stock reader" and "a replaced reader" runs its stock-reader path on explored streams.

type randSeam struct{ under atomic.Pointer[io.Reader] }

func (s *randSeam) Read(p []byte) (n int, err error) {
	if u := s.under.Load(); u != nil {
		n, err = (*u).Read(p)
	} else {
		n, err = osRandom.Read(p)
	}
	// everything the source ever delivered is on record: a library that reads ahead may hand out, during an explored
	// history, bytes it fetched before the history began
	seamMu.Lock()
	if len(seamLog)+n <= seamLogMax {
		seamLog = append(seamLog, p[:n]...)
	} else {
		seamOverflow = true
	}
	seamMu.Unlock()
	return n, err
}

const seamLogMax = 64 << 20

var (
	seamMu       sync.Mutex
	seamLog      []byte
	seamOverflow bool
)

// SeamLog returns everything the random source has delivered through the seam since the process started (append-only:
// earlier indexes stay valid) and whether the record is complete.
func SeamLog() ([]byte, bool) {
	seamMu.Lock()
	defer seamMu.Unlock()
	return seamLog, !seamOverflow
}

var osRandom io.Reader
var theSeam = &randSeam{}

func init() {
	osRandom = rand.Reader
	rand.Reader = theSeam
}

// SetRandom makes r what the seam delivers (nil: the operating system's source again).
func SetRandom(r io.Reader) {
	if r == nil {
		theSeam.under.Store(nil)
		return
	}
	theSeam.under.Store(&r)
}

// SeamInstalled reports whether crypto/rand.Reader still is the seam (nothing replaced it since start-up).
func SeamInstalled() bool { return rand.Reader == io.Reader(theSeam) }
