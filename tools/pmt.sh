#!/bin/bash
# pmt.sh [-j N] <patch:ID[,ID..]>...   parallel mutation testing WITHOUT touching /repo: each job gets its own scratch
# worktree of /repo (removed afterwards), the patch applied there, and ./vcheck run with VERIF_REPO/VERIF_OUT pointing
# at the scratch area.  One line per (patch, check): name, id, rc, first signature.
ROOT="$(dirname "$(readlink -f "$0")")/.."; export ROOT
J=4; [ "$1" = -j ] && { J=$2; shift 2; }
job() {
  spec="$1"; P="$(readlink -f "${spec%%:*}")"; IDS="${spec##*:}"
  W=$(mktemp -d /tmp/pmt.XXXXXX)
  git -C /repo worktree add --detach "$W/wt" HEAD -q 2>/dev/null || { echo "$spec worktree failed"; rm -rf "$W"; return; }
  if git -C "$W/wt" apply "$P" 2>/dev/null; then
    for id in ${IDS//,/ }; do
      out="$(VERIF_REPO="$W/wt" VERIF_OUT="$W/out" "$ROOT/vcheck" "$id" "${TIER:-quick}" 2>&1)"; rc=$?
      sig=$(echo "$out" | grep -m1 'scenario=' | cut -c1-160)
      he=$(echo "$out" | grep -m1 'HARNESS-ERROR' | cut -c1-160)
      echo "$(basename "$(dirname "$P")")/$(basename "$P") $id rc=$rc $sig $he"
    done
  else echo "$spec patch does not apply"; fi
  git -C /repo worktree remove --force "$W/wt" 2>/dev/null; rm -rf "$W"
}
export -f job
printf '%s\n' "$@" | xargs -P "$J" -I{} bash -c 'job "$1"' _ {}
