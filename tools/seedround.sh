#!/bin/bash
# seedround.sh <ID...>: validate and test the freshly delivered seeds in /tmp/seed-<ID> (one line each + first signature)
cd /verif
for id in "$@"; do
  [ -s /tmp/seed-$id/patch.diff ] || { echo "$id: no patch"; continue; }
  out=$(tools/seedtest.sh $id 2>&1)
  res=$(echo "$out" | grep -m1 RESULT | sed 's/RESULT //')
  det=$(echo "$out" | grep -m1 '^==' | awk '{print $4, $5}')
  sig=$(echo "$out" | grep -m1 'sig=' | cut -c1-220)
  echo "$id | $res | $det |$sig"
done
rm -f /verif/replays/*.json
