#!/bin/bash
# seedround.sh [-j N] <ID...>: validate and test the freshly delivered seeds in /tmp/seed-<ID> in parallel (one line each + first signature);
# full per-seed output is kept in /tmp/seed-<ID>/seedtest.out
cd /verif
J=3; [ "$1" = -j ] && { J=$2; shift 2; }
one() {
  id="$1"
  [ -s /tmp/seed-$id/patch.diff ] || { echo "$id: no patch"; return; }
  out=$(tools/seedtest.sh $id 2>&1); echo "$out" > /tmp/seed-$id/seedtest.out
  res=$(echo "$out" | grep -m1 RESULT | sed 's/RESULT //')
  det=$(echo "$out" | grep -m1 '^==' | awk '{print $4, $5}')
  sig=$(echo "$out" | grep -m1 'sig=' | cut -c1-220)
  echo "$id | $res | $det |$sig"
}
export -f one
printf '%s\n' "$@" | xargs -P "$J" -I{} bash -c 'one {}'
