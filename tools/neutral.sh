#!/bin/bash
# neutral.sh [-j N]: behaviour-preserving changes (mutants/neutral/*.diff) against the checks that look at the changed
# code: every line must say rc=0 - a check that raises an alarm (or breaks, rc=2) on one of them is wrong.
cd "$(dirname "$(readlink -f "$0")")/.." || exit 2
J=3; [ "$1" = -j ] && { J=$2; shift 2; }
tools/pmt.sh -j "$J" \
  mutants/neutral/N1-unusual-constructs.diff:C09,C10,C11,C12,C08,C01 \
  mutants/neutral/N2-arch-specific-files.diff:C09,C03,C04,C06,C13 \
  mutants/neutral/N3-js-export-wrappers.diff:C20 \
  mutants/neutral/N4-decode-padding-refactor.diff:C07,C01,C11,C12 \
  mutants/neutral/N5-random-read-ahead-block.diff:C08,C11,C18
