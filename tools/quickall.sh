#!/bin/bash
# quickall.sh [-j N] [tier]: run all registered checks of a tier on /repo (refreshes evidence/), N at a time; one line each.
cd "$(dirname "$(readlink -f "$0")")/.." || exit 2
J=4; [ "$1" = -j ] && { J=$2; shift 2; }
TIER=${1:-quick}
one() { out=$(./vcheck "$1" "$2" 2>&1); rc=$?; echo "$1 rc=$rc $(echo "$out" | grep -E "^$1 $2:" | tail -1) $(echo "$out" | grep -m1 -E 'VIOLATION|HARNESS-ERROR|KNOWN-FINDING')"; }
export -f one
printf '%s\n' C01 C02 C03 C04 C05 C06 C07 C08 C09 C10 C11 C12 C13 C14 C15 C16 C17 C18 C19 C20 | xargs -P "$J" -I{} bash -c 'one "$1" "$2"' _ {} "$TIER"
