#!/bin/bash
# seedprep.sh <ID...>: scratch worktree /tmp/wt-<ID> of /repo and /tmp/seed-<ID>/PROPERTY.txt (property text + ideas already used) for a new seed round
cd /verif
for id in "$@"; do
  git -C /repo worktree remove --force /tmp/wt-$id 2>/dev/null; rm -rf /tmp/wt-$id /tmp/seed-$id
  git -C /repo worktree add --detach /tmp/wt-$id HEAD -q; mkdir -p /tmp/seed-$id
  python3 - "$id" <<'PY' > /tmp/seed-$id/PROPERTY.txt
import json,sys,glob
pid=sys.argv[1]
for l in open('/verif/properties.jsonl'):
    p=json.loads(l)
    if p['id']==pid:
        print("PROPERTY",pid,"-",p['title']); print(); print(p['statement']); print(); print("Holds for:",p['quantifier']['text']); print()
        print("Anchored in:", json.dumps(p['anchors']))
print(); print("Ideas that have ALREADY been used for this property (do not repeat them or close variants; find a different mechanism, a different site or a different trigger):")
for m in sorted(glob.glob('/verif/seeded/%s-s*/meta.json'%pid)):
    print(" -",json.load(open(m))['needs_to_manifest'])
PY
done
