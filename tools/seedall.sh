#!/bin/bash
# seedall.sh [pattern]: run every filed seed (and regression/ad-hoc mutant) against the check of its property; print one line each.
cd /verif
for d in seeded/${1:-*}; do
  id=$(python3 -c "import json;print(json.load(open('$d/meta.json'))['property'])")
  out=$(./mt $d/patch.diff $id 2>&1 | grep '^==' | head -1); echo "$(basename $d) $out"
done
