#!/bin/bash
# seedall.sh [-j N] [pattern]: run every filed seed against the check(s) of its property (meta.json: "check_ids" overrides
# the default = its property) in parallel on scratch worktrees (tools/pmt.sh); one line each.  /repo is not touched.
cd "$(dirname "$(readlink -f "$0")")/.." || exit 2
J=4; [ "$1" = -j ] && { J=$2; shift 2; }
specs=()
for d in seeded/${1:-*}; do
  ids=$(python3 -c "import json;m=json.load(open('$d/meta.json'));print(','.join(m.get('check_ids',[m['property']])))")
  specs+=("$d/patch.diff:$ids")
done
tools/pmt.sh -j "$J" "${specs[@]}"
