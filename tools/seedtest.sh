#!/bin/bash
# seedtest.sh <ID> [checks]  — validate a sub-agent's seeded change in a FRESH scratch worktree
# (applies, compiles, existing suite passes, demo fails with / passes without), then run our checks
# against it on /repo (apply, check, revert) and file everything under /verif/seeded/<ID>/.
set -u
ID="$1"; CHECKS="${2:-$ID}"; SRC="/tmp/seed-$ID"; N="${3:-}"
[ -s "$SRC/patch.diff" ] || { echo "no patch at $SRC/patch.diff"; exit 2; }
export GOPROXY=off GOTOOLCHAIN=go1.24.0
W=$(mktemp -d /tmp/seedval.XXXXXX); trap 'git -C /repo worktree remove --force "$W/wt" 2>/dev/null; rm -rf "$W"' EXIT
git -C /repo worktree add --detach "$W/wt" HEAD -q || exit 2
cd "$W/wt" || exit 2
git apply "$SRC/patch.diff" || { echo "RESULT patch does not apply"; exit 2; }
if git diff --name-only | grep -q '_test.go$'; then echo "RESULT patch edits test files"; fi
build_ok=yes
go build ./... >/dev/null 2>"$W/b1" || build_ok=no
(cd internal/app && go build ./... ) >/dev/null 2>"$W/b2" || build_ok=no
GOOS=js GOARCH=wasm go build -o /dev/null ./wasm 2>"$W/b3" || build_ok=no
pass=$(for m in . ./internal/app; do (cd "$W/wt/$m" && go test -json -vet=off -count=1 ./... 2>&1); done | grep -c '"Action":"pass".*"Test"')
fail=$(for m in . ./internal/app; do (cd "$W/wt/$m" && go test -json -vet=off -count=1 ./... 2>&1); done | grep -c '"Action":"fail"')
echo "RESULT build=$build_ok suite_pass=$pass suite_fail=$fail (baseline 228/0)"
echo "files: $(git diff --stat | tail -1)"
cd /verif
# the checks run against the scratch worktree (patch applied there), /repo is not touched
for c in ${CHECKS//,/ }; do
  out="$(VERIF_REPO="$W/wt" VERIF_OUT="$W/out" ./vcheck "$c" quick 2>&1)"; rc=$?
  echo "== patch.diff $c rc=$rc violations_lines=$(echo "$out" | grep -c '^VIOLATION')"
  echo "$out" | grep -E '^(VIOLATION|HARNESS-ERROR|KNOWN)' | head -3
  echo "$out" | grep -E '^  (scenario|want|got)' | head -3
done
