#!/bin/bash
# mkmut.sh <name> <file> <python-expr over s>   — create mutants/adhoc/<name>.diff by editing /repo temporarily
set -eu
name="$1"; file="$2"; expr="$3"
cd /repo; [ -z "$(git status --porcelain)" ] || { echo "repo dirty"; exit 2; }
python3 - "$file" "$expr" <<'PY'
import sys
p='/repo/'+sys.argv[1]; s=open(p).read(); o=s
exec(sys.argv[2])
assert s!=o, "mutation did not change the file"
open(p,'w').write(s)
PY
git diff > /verif/mutants/adhoc/$name.diff
ok=1
export GOPROXY=off GOTOOLCHAIN=go1.24.0
n=$(for m in . ./internal/app; do (cd /repo/$m && go test -json -vet=off -count=1 ./... 2>&1) ; done | grep -c '"Action":"pass".*"Test"' || true)
git checkout -- .
echo "$name: tests passing with mutant = $n/228"
