#!/usr/bin/env python3
"""Regenerates /verif/MANIFEST.json from the table below.  A property is claimed only when its check exists."""
import json, sys
V = "/verif"
ids = [json.loads(l)["id"] for l in open(V + "/properties.jsonl")]
fix_commits = [l.split()[1] for l in open(V + "/mutants/regress/INDEX.txt")]

C = {}
def claim(pid, cat, text, note, tech, ref):
    C[pid] = dict(cat=cat, text=text, note=note, tech=tech, ref=ref)

TRUST = "Go standard library crypto (hmac/sha*), Go compiler/runtime; the reference models in harness/ref (anchored at start-up to RFC 4226 App. D, RFC 6238 App. B, RFC 6287 App. C, RFC 4648 §10 vectors); values outside the declared alphabets are not covered."

claim("C01", "exploration",
      "Bounded exhaustive input-space exploration of the real code against an independent RFC 4226 model: every truncation window of a boundary set (thorough: all 2^32) x digits 1..10 x (sum length, offset) through the real truncate/format stage; the same values injected as HMAC output into the real GenerateHOTP pipeline; full product of secrets x spellings x counters x digits x hashes end to end, and all 256x256 (digits, hash) values for the error clause.",
      TRUST, "exhaustive enumeration of a finite input alphabet against a reference model (small-scope model checking of a pure function)", "DESIGN.md §4 C01")

if __name__ == "__main__":
    checks = []
    for pid in ids:
        if pid not in C: continue
        c = C[pid]
        checks.append({
            "property_id": pid,
            "quick_cmd": f"./vcheck {pid} quick",
            "thorough_cmd": f"./vcheck {pid} thorough",
            "evidence_file": f"/verif/evidence/{pid}.json",
            "replay_cmd_template": f"./vcheck {pid} quick --replay {{path}}",
            "engine": "vrun",
            "level_claimed": {"category": c["cat"], "text": c["text"], "design_ref": c["ref"]},
            "level_note": c["note"],
            "technique": c["tech"],
        })
    NA = {}
    m = {
        "version": 1,
        "setup_cmd": "./setup.sh",
        "hooks": {
            "guard": "verif",
            "enable": "go build -tags verif; statement points / sync shim / comparison hooks are generated at check time into a go build -overlay (nothing else is committed to /repo)",
            "baseline_off_cmd": "for m in . ./internal/app; do (cd /repo/$m && GOPROXY=off GOTOOLCHAIN=go1.24.0 go test -json -vet=off -count=1 -timeout 25m ./...); done",
            "source_commits": ["4a2c65f"],
            "add_only": True,
        },
        "engines": [
            {"name": "vrun", "path": "/verif/harness", "serves_properties": sorted(C), "kind_free_text": "hand-written bounded-exhaustive explorer in Go: input-alphabet enumeration against reference models, explicit-state search over operation histories, choice-vector DFS with a cooperative scheduler (preemption-bounded) over the instrumented library"},
        ],
        "checks": checks,
        "not_applicable": [{"property_id": p, "reason": NA.get(p, "check not built yet (work in progress); will be claimed when its exploration exists")} for p in ids if p not in C],
        "notes": "Fixes of genuine defects are the 'fix:' commits " + " ".join(fix_commits) + " in /repo; see known_findings.json and DESIGN.md §6.",
    }
    json.dump(m, open(V + "/MANIFEST.json", "w"), indent=1)
    print("claimed", len(checks), "not_applicable", len(m["not_applicable"]))
