#!/usr/bin/env python3
"""Regenerates /verif/MANIFEST.json from the table below.  A property is claimed only when its check exists."""
import json, sys
V = "/verif"
ids = [json.loads(l)["id"] for l in open(V + "/properties.jsonl")]
fix_commits = [l.split()[1] for l in open(V + "/mutants/regress/INDEX.txt")]

C = {}
def claim(pid, cat, text, note, tech, ref):
    C[pid] = dict(cat=cat, text=text, note=note, tech=tech, ref=ref)

TRUST = "Go standard library crypto (hmac/sha*), Go compiler/runtime; the reference models in harness/ref (anchored at start-up to RFC 4226 App. D, RFC 6238 App. B, RFC 6287 App. C, RFC 4648 §10 vectors); values outside the declared alphabets are not covered."

claim("C01", "exploration",
      "Bounded exhaustive input-space exploration of the real code against an independent RFC 4226 model: every truncation window of a boundary set (thorough: all 2^32) x digits 1..10 x (sum length, offset) through the real truncate/format stage; the same values injected as HMAC output into the real GenerateHOTP pipeline; full product of secrets x spellings x counters x digits x hashes end to end, and all 256x256 (digits, hash) values for the error clause.",
      TRUST, "exhaustive enumeration of a finite input alphabet against a reference model (small-scope model checking of a pure function)", "DESIGN.md §4 C01")

EXH = "exhaustive enumeration of a finite input alphabet against a reference model (small-scope model checking of a pure function)"
claim("C02", "exploration", "Every (period, instant) of a dense grid (periods 0..64 with every whole second of four steps plus boundaries far from the epoch; large periods at the boundaries of steps 0,1,2,top) x digits x hash through GenerateTOTP against reference HOTP at floor(unix/period), each instant in all nanosecond/zone/monotonic variants, each code validated at its own instant; nil parameters and period 0 included.", TRUST, EXH, "DESIGN.md §4 C02")
claim("C03", "exploration", "Every (secret, window 0..10, counter incl. 2^31/2^32/2^63 boundaries and c+s=2^64-1, digits 1..10, hash) configuration x every submitted string (codes at distance -(s+3)..+(s+3), edits, truncations, extensions, whitespace/Unicode-digit variants; the COMPLETE code space for <= 4 digits, thorough <= 6) through ValidateHOTP against exact set membership in the reference window; refused windows must do zero derivations (counted at the HMAC-constructor seam).", TRUST, EXH + "; deterministic work bound by counting derivations at an environment seam", "DESIGN.md §4 C03")
claim("C04", "exploration", "As C03 over time steps: periods {0,1,29,30,31,3600,2^32} x steps {s,s+1,s+3,10^6,top-s} x offsets inside the step x skew 0..10 x digits x hash x submitted strings (complete code space for <= 4 digits) through ValidateTOTP against the reference step-window set; refused skews: (false,error) and zero derivations; accepted: <= 2s+1 derivations.", TRUST, EXH + "; deterministic work bound by counting derivations at an environment seam", "DESIGN.md §4 C04")
claim("C05", "exploration", "All 45 registered names, every accepted string of the naming grammar and hand-built configurations (32 field subsets x 6 challenge formats x 3 password hashes x time steps x 3 hashes x digits 4..10 x 5 suite texts, as SuiteConfig and via NewSuite) x rotating admissible inputs at the boundary lengths x keys through GenerateOCRA against an independent RFC 6287 implementation; unselected fields varied without effect.", TRUST, EXH, "DESIGN.md §4 C05")
claim("C06", "exploration", "For each suite/input of a reduced C05 grid: every submitted string (generated code, neighbours for counter/challenge/timestamp/sibling suite, edits, complete 4-digit code space) validates iff it equals the generator's output; every failure cause (9 undecodable secrets, 10 invalid suites, 16 inadmissible inputs, per digits x hash) gives (false, error) without panic.", "The oracle is the library's own generator (C05 decides its correctness). " + TRUST, EXH, "DESIGN.md §4 C06")
claim("C07", "exploration", "All byte strings of length 0..2 (thorough 0..3) and patterned strings of every length 3..256 in every spelling (padding count x case masks x leading/trailing white space) through DecodeSecret against a bit-wise RFC 4648 reference; all texts up to length 4 (thorough 6) over a 15-symbol accept/reject alphabet and all 8-symbol texts over the case-folding traps classified must-accept / must-reject / not-decided; six entry points compared across spellings.", TRUST + " Non-zero trailing bits, excess '=' and interior CR/LF are deliberately not decided.", EXH, "DESIGN.md §4 C07")
claim("C08", "model_checking", "The random source is an environment the harness owns: every constant stream, the position-tag stream with every (position,value) substitution, all 256 enum values, every call history of <= 3 calls, and every schedule of short reads of the source within a deviation bound (thorough: all 2^19 compositions of 20 bytes) explored by choice-vector DFS; state = stream offset, transition = one call / one Read.", "crypto/rand.Reader substitution is honoured by go1.24's rand.Read; that the default Reader is the OS CSPRNG is Go's guarantee.", "stateless exploration (choice-vector DFS, deviation-bounded) of environment answers + explicit history enumeration on the real code", "DESIGN.md §4 C08")
claim("C13", "exploration", "Every validator call of the C03/C04/C06 enumerations (accepting, rejecting, every failure cause) checked for the (bool,error) pair shape and for disclosure of the secret (base32 any case / raw / hex) or an accepted code (>= 6 digits) in the error text; 15 other failing operations x 30 secret spellings checked for disclosure.", TRUST, EXH, "DESIGN.md §4 C13")
claim("C14", "exploration", "Complete grid of 250 880 suite configurations through SuiteConfig.Validate, NewSuite, GenerateOCRA, ValidateOCRA; per usable field shape every length nil,0..140 of each field alone and every pair of fields x pair of lengths (quick: 20 boundary lengths; thorough: all 141^2) against an admission predicate written from the property text.", TRUST, EXH, "DESIGN.md §4 C14")
claim("C15", "exploration", "All advertised names, every string of the RFC 6287 naming grammar (digits 0..11, all field combinations; thorough: every time value, ~1.4 M strings) and ~70 malformed classes through NewRawSuite / IsKnownSuite / SuiteConfigFromRaws against an independent parser of the naming scheme; accepted => configuration and reported name equal what the string says.", TRUST, EXH, "DESIGN.md §4 C15")
claim("C16", "exploration", "Every (issuer, account) pair over a 30-atom alphabet (spaces, %, /, ?, #, &, =, +, non-ASCII, percent-escape look-alikes; lengths 1..2) x rotating (secret, digits, hash, period) x both types through Generate*URL -> String -> url.Parse -> ParseOTPAuthURL, identity after documented defaulting; hand-written URLs with 26 number spellings for digits/period x 5 letter cases of the type must fail or return exactly the number.", TRUST + " net/url of the standard library.", EXH, "DESIGN.md §4 C16")
claim("C17", "exploration", "Every helper on every text of its alphabet (all decimal strings <= 4 over {0-9,+,-,space,a}; all hex strings <= 3 over {0,9,a,F,g}; lengths x widths 0..40; all 3^5 valid/invalid/empty field combinations; every decimal question of 1..5 digits; patterned questions of 6..64 digits) against independent encoders; end to end through GenerateOCRA for every numeric registered suite and hand-built numeric suites, anchored by RFC 6287 App. C.", TRUST, EXH, "DESIGN.md §4 C17")

INSTR = " The instrumented build is generated at check time from the current tree (statement points, sync->shim, comparison hooks) by /verif/harness/cmd/instr; the instrumenter and the runtime in /verif/rt are trusted."
claim("C09", "model_checking", "Exhaustive non-interference exploration on the instrumented implementation: for every validation entry point (3 library validators, the wasm-tagged validator built natively, 3 REST validate handlers in-process, the 2 wasm binding validators executed natively over a fake syscall/js) x digits x hash x window size {0,1,2,10} x window position, the d wrong codes differing from that window code in exactly one position are submitted; all must be rejected with IDENTICAL traces of statement ids and comparison events (index of first mismatch for every early-exit ==, bytes/strings comparison; constant-time comparisons carry no leak value).", "Decides a leak MODEL (early-exit comparators leak the index of the first mismatch), not nanoseconds; switch-on-string and map lookups are not rewritten." + INSTR, "exhaustive trace-equivalence (non-interference) exploration of the instrumented implementation over all mismatch positions and window positions", "DESIGN.md §4 C09")
claim("C10", "exploration", "For every exported operation (except the two documented Must* helpers) the product of per-parameter alphabets (all 256 values of both enums, 64-bit boundaries, empty/huge/invalid-UTF-8 strings, nil/empty/boundary/64 KiB byte fields, extreme instants, nil and hand-built URLs, the suite-configuration grid incl. undefined enum values) is executed on the instrumented library in 16 worker processes; oracle: no panic and return within 10^7 instrumented statements (deterministic hang detector).", TRUST + INSTR, "exhaustive enumeration of per-parameter alphabets on the instrumented implementation with a deterministic statement budget", "DESIGN.md §4 C10")
claim("C11", "model_checking", "(1) Explicit-state search over operation histories on the instrumented library to a fixed point: state = digest of ALL package-level variables incl. the full capacity of pooled buffers, transition = one real call (20 operations incl. pool adversaries and GC), every result compared with the stateless reference and every earlier result re-checked. (2) Stateless exploration (choice-vector DFS) of all interleavings of 2-3 logical threads under a cooperative scheduler with scheduling points at every statement of package otp and every pool operation, preemption+deviation bounded (quick 2/1, thorough 3/2), Pool.Get answers explored per sync.Pool's contract; two 3-thread scenarios unbounded at pool-operation granularity. (3) auxiliary free-running -race monitor of the same calls.", "Sequentially consistent interleaving at statement granularity, <= 3 threads, bounded preemptions; sub-statement races left to the race monitor." + INSTR, "explicit-state history search to closure + preemption-bounded stateless schedule exploration (CHESS-style) of the real code under a cooperative scheduler", "DESIGN.md §4 C11")
claim("C12", "model_checking", "Every operation taking slices, pointers or structs x slice shape {len==cap, spare capacity of canaries, sub-slice in the middle of a canary array} x every length class of each field x parameter variants (caller struct, the exported defaults passed themselves, nil), and every ordered pair of operations as a history; after every call all backing arrays (incl. spare capacity), deep copies of arguments, exported defaults, registry and lookup tables must be byte-identical and retained results must survive the caller scribbling its arguments.", TRUST + INSTR, "explicit enumeration of argument memory shapes and length-2 operation histories on the real code with a whole-state digest oracle", "DESIGN.md §4 C12")

if __name__ == "__main__":
    checks = []
    for pid in ids:
        if pid not in C: continue
        c = C[pid]
        checks.append({
            "property_id": pid,
            "quick_cmd": f"./vcheck {pid} quick",
            "thorough_cmd": f"./vcheck {pid} thorough",
            "evidence_file": f"/verif/evidence/{pid}.json",
            "replay_cmd_template": f"./vcheck {pid} quick --replay {{path}}",
            "engine": "vrun",
            "level_claimed": {"category": c["cat"], "text": c["text"], "design_ref": c["ref"]},
            "level_note": c["note"],
            "technique": c["tech"],
        })
    NA = {}
    m = {
        "version": 1,
        "setup_cmd": "./setup.sh",
        "hooks": {
            "guard": "verif",
            "enable": "go build -tags verif; statement points / sync shim / comparison hooks are generated at check time into a go build -overlay (nothing else is committed to /repo)",
            "baseline_off_cmd": "for m in . ./internal/app; do (cd /repo/$m && GOPROXY=off GOTOOLCHAIN=go1.24.0 go test -json -vet=off -count=1 -timeout 25m ./...); done",
            "source_commits": ["4a2c65f"],
            "add_only": True,
        },
        "engines": [
            {"name": "vrun", "path": "/verif/harness", "serves_properties": sorted(C), "kind_free_text": "hand-written bounded-exhaustive explorer in Go: input-alphabet enumeration against reference models, explicit-state search over operation histories, choice-vector DFS with a cooperative scheduler (preemption-bounded) over the instrumented library"},
        ],
        "checks": checks,
        "not_applicable": [{"property_id": p, "reason": NA.get(p, "check not built yet (work in progress); will be claimed when its exploration exists")} for p in ids if p not in C],
        "notes": "Fixes of genuine defects are the 'fix:' commits " + " ".join(fix_commits) + " in /repo; see known_findings.json and DESIGN.md §6.",
    }
    json.dump(m, open(V + "/MANIFEST.json", "w"), indent=1)
    print("claimed", len(checks), "not_applicable", len(m["not_applicable"]))
