#!/bin/bash
# seeddemo.sh <ID>: confirm in a fresh scratch worktree that the seed's demonstration FAILS with the change and PASSES without it.
set -u
ID="$1"; SRC="/tmp/seed-$ID"; [ -d "$SRC" ] || SRC="/verif/seeded/$ID"
export GOPROXY=off GOTOOLCHAIN=go1.24.0
W=$(mktemp -d /tmp/seeddemo.XXXXXX); trap 'git -C /repo worktree remove --force "$W/wt" 2>/dev/null; rm -rf "$W"' EXIT
git -C /repo worktree add --detach "$W/wt" HEAD -q || exit 2
run_demo() { # prints PASS or FAIL
  if [ -f "$SRC/demo.js" ]; then
    mkdir -p "$W/stage/lib" "$W/stage/src"; cp -r "$W/wt/otp-js/src/." "$W/stage/src/"
    (cd "$W/wt" && GOOS=js GOARCH=wasm go build -o "$W/stage/lib/otp.wasm" ./wasm) || { echo BUILDFAIL; return; }
    sed "s#/tmp/seed-$ID/stage#$W/stage#g" "$SRC/demo.js" > "$W/demo.js"; cp "$SRC"/*.json "$W/" 2>/dev/null; rm -f "$W/meta.json"
    if (cd "$W" && timeout 120 node "$W/demo.js" >/dev/null 2>&1); then echo PASS; else echo FAIL; fi
  else
    pkg=$(grep -m1 '^package ' "$SRC/demo_test.go" | awk '{print $2}')
    if [ "$pkg" = api ]; then d="$W/wt/internal/app/api"; m="$W/wt/internal/app"; p=./api; else d="$W/wt"; m="$W/wt"; p=.; fi
    cp "$SRC/demo_test.go" "$d/zz_seed_demo_test.go"
    names=$(grep -o '^func Test[A-Za-z0-9_]*' "$SRC/demo_test.go" | sed 's/func //' | paste -sd'|')
    if (cd "$m" && timeout 300 go test -vet=off -count=1 -run "^($names)\$" $p >/dev/null 2>&1); then echo PASS; else echo FAIL; fi
    rm -f "$d/zz_seed_demo_test.go"
  fi
}
without=$(run_demo)
(cd "$W/wt" && git apply "$SRC/patch.diff") || { echo "$ID: patch does not apply"; exit 2; }
with=$(run_demo)
echo "$ID demo: without change=$without, with change=$with"
