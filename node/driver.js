// driver.js <stage-dir> <calls.json> <results.json>
// Loads the freshly built wasm through the package's own entry module (src/index.js),
// executes every call twice - through globalThis.<name> and through the object the package
// exports - and writes the results to a file (the module itself logs on stdout/stderr).
const fs = require("fs");
const path = require("path");
const [stage, callsFile, outFile] = process.argv.slice(2);
const origLog = console.log;
console.log = () => {};
function dec(a) {
  if (a !== null && typeof a === "object" && "$" in a) {
    switch (a.$) {
      case "undefined": return undefined;
      case "NaN": return NaN;
      case "Infinity": return Infinity;
      case "-Infinity": return -Infinity;
      case "obj": return {};
      case "arr": return [];
      case "fn": return () => 1;
      case "bigint": return BigInt(a.v);
      case "symbol": return Symbol("s");
    }
  }
  return a;
}
function enc(v) {
  if (typeof v === "string") return { t: "string", v };
  if (typeof v === "boolean") return { t: "boolean", v };
  if (typeof v === "number") return { t: "number", v: String(v) };
  if (v === undefined) return { t: "undefined" };
  if (v === null) return { t: "null" };
  return { t: typeof v };
}
(async () => {
  const init = require(path.join(stage, "src", "index.js"));
  let exported;
  try {
    exported = await init();
  } catch (e) {
    fs.writeFileSync(outFile, JSON.stringify({ fatal: "init failed: " + e }));
    process.exit(0);
  }
  const calls = JSON.parse(fs.readFileSync(callsFile, "utf8"));
  const out = { exportNames: Object.keys(exported), globalNames: ["generateHOTP", "generateTOTP", "validateHOTP", "validateTOTP", "generateOTPURL"].filter((n) => typeof globalThis[n] === "function"), results: [] };
  // identity of each exported entry: which global function is it?
  out.exportIdentity = {};
  for (const n of Object.keys(exported)) {
    out.exportIdentity[n] = out.globalNames.filter((g) => globalThis[g] === exported[n]);
  }
  for (const c of calls) {
    const args = c.a.map(dec);
    const r = {};
    for (const via of ["g", "e"]) {
      const f = via === "g" ? globalThis[c.f] : exported[c.f];
      if (typeof f !== "function") { r[via] = { t: "missing" }; continue; }
      try { r[via] = enc(f(...args)); } catch (e) { r[via] = { t: "throw", v: String(e) }; }
    }
    out.results.push(r);
  }
  fs.writeFileSync(outFile, JSON.stringify(out));
  process.exit(0);
})();
